"""C19: a legacy replace() rejected with duplicate children must leave children attached to self."""
from dataclasses import dataclass
from pyoak.legacy.node import AwareASTNode
from pyoak.legacy.error import ASTNodeDuplicateChildrenError
@dataclass
class F10L(AwareASTNode):
    v: int = 0
@dataclass
class F10P(AwareASTNode):
    a: F10L
    b: F10L | None = None
from pyoak.origin import NO_ORIGIN
c = F10L(1, origin=NO_ORIGIN); p = F10P(a=c, origin=NO_ORIGIN)
assert c.parent is p
try:
    p.replace(b=c)
    raised = False
except ASTNodeDuplicateChildrenError:
    raised = True
ok = raised and c.parent is p and c.parent_field is not None and c.parent_field.name == "a" and not p.detached and c.detach() is False
print(raised, c.parent is p, "HOLDS" if ok else "FAILS"); raise SystemExit(0 if ok else 1)
