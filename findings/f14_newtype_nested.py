"""C13: NewType inside a tuple annotation conforms by its supertype."""
from typing import NewType
from pyoak.typing import is_instance
MyId = NewType("MyId", int)
ok = is_instance((1, 2), tuple[MyId, ...]) and is_instance(1, MyId) and not is_instance("a", MyId) \
     and is_instance((1,"a"), tuple[MyId, str]) and not is_instance((True,), tuple[MyId, ...]) and is_instance(None, MyId | None)
print("HOLDS" if ok else "FAILS"); raise SystemExit(0 if ok else 1)
