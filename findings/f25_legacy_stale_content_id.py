"""C18 (open finding): a detached container keeps the content_id it had when it was detached; when one of its (former) children
changes meanwhile and the container is attached again (as a child of a new node, or by attach()), it is an attached node whose
content_id is not that of an equal, independently built tree."""
import warnings; warnings.simplefilter("ignore")
from dataclasses import dataclass
from pyoak.legacy.node import AwareASTNode
from pyoak.origin import NO_ORIGIN
@dataclass
class F25Leaf(AwareASTNode):
    v: int = 0
@dataclass
class F25List(AwareASTNode):
    items: tuple[AwareASTNode, ...] = ()
@dataclass
class F25Unary(AwareASTNode):
    child: AwareASTNode = None
leaf = F25Leaf(0, origin=NO_ORIGIN)
inner = F25List((leaf,), origin=NO_ORIGIN)
outer = F25List((inner,), origin=NO_ORIGIN)
outer.detach_self()                 # only `outer` leaves the registry; it still holds `inner`
leaf.replace_with(None)             # `inner` (now an attached root) loses its element: its content_id is refreshed, outer's is not
top = F25Unary(outer, origin=NO_ORIGIN)   # `outer` is attached again under a new parent
fresh = F25List((F25List((), origin=NO_ORIGIN, create_detached=True),), origin=NO_ORIGIN, create_detached=True)   # an equal tree built independently
ok = AwareASTNode.get_any(outer.id) is outer and outer.content_id == fresh.content_id
print(outer.content_id[:12], fresh.content_id[:12], "HOLDS" if ok else "FAILS"); raise SystemExit(0 if ok else 1)
