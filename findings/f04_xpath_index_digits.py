"""C07/C20: all digits of an xpath index are significant."""
from dataclasses import dataclass
from pyoak.node import ASTNode
from pyoak.match.xpath import ASTXpath
@dataclass(frozen=True)
class F04It(ASTNode):
    v: int
@dataclass(frozen=True)
class F04H(ASTNode):
    items: tuple[F04It, ...]
h = F04H(tuple(F04It(i) for i in range(14)))
got = [n.v for n in ASTXpath("/F04H/@items[12]F04It").findall(h)]
ok = got == [12]
import pyoak.legacy.match.xpath as lx
leg = lx.xpath_parser.parse("/@items[12]AwareASTNode")
ok2 = leg[0].parent_index == 12
print(got, leg[0].parent_index, "HOLDS" if ok and ok2 else "FAILS"); raise SystemExit(0 if ok and ok2 else 1)
