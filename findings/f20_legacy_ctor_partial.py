"""C19 (open finding): a legacy construction rejected at a later child leaves the earlier child re-parented."""
import warnings; warnings.simplefilter("ignore")
from dataclasses import dataclass
from pyoak.legacy.node import AwareASTNode
from pyoak.legacy.error import ASTNodeParentCollisionError
from pyoak.origin import NO_ORIGIN
@dataclass
class F20L(AwareASTNode):
    v: int = 0
@dataclass
class F20U(AwareASTNode):
    child: AwareASTNode = None
    opt: AwareASTNode | None = None
a = F20L(1, origin=NO_ORIGIN); owner = F20U(a, origin=NO_ORIGIN)   # a has a parent
free = F20L(2, origin=NO_ORIGIN)                                   # an attached root
before = (free.parent, free.parent_field)
try:
    F20U(free, a, origin=NO_ORIGIN)        # rejected: a already has another parent (detected at the 2nd child)
    raised = False
except ASTNodeParentCollisionError:
    raised = True
ok = raised and (free.parent, free.parent_field) == before
print(raised, free.parent_field, "HOLDS" if ok else "FAILS"); raise SystemExit(0 if ok else 1)
