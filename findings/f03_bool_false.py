"""C13: False conforms to bool (and bool|None); bools never conform to int."""
from pyoak.typing import is_instance
ok = is_instance(False, bool) and is_instance(True, bool) and is_instance(False, bool | None) \
     and not is_instance(True, int) and not is_instance(False, int) and is_instance(False, (int|bool))
print("HOLDS" if ok else "FAILS"); raise SystemExit(0 if ok else 1)
