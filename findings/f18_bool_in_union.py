"""C13: a bool does not conform to int, also when int is a member of a union / optional."""
from typing import Optional, Union
from pyoak.typing import is_instance
ok = (not is_instance(True, Optional[int]) and not is_instance(False, int | None) and not is_instance(True, Union[int, str])
      and not is_instance((True,), tuple[int | str, ...]) and is_instance(True, bool | int) and is_instance(None, int | None)
      and is_instance(1, int | None) and is_instance("a", Union[int, str]) and not is_instance(2.5, int | str))
print("HOLDS" if ok else "FAILS"); raise SystemExit(0 if ok else 1)
