"""C19 (open finding): a replace_with() rejected while attaching the replacement leaves the replacement's id / original_id rewritten."""
import warnings; warnings.simplefilter("ignore")
from dataclasses import dataclass
from pyoak.legacy.node import AwareASTNode
from pyoak.legacy.error import ASTNodeReplaceWithError
from pyoak.origin import NO_ORIGIN
@dataclass
class F22L(AwareASTNode):
    v: int = 0
@dataclass
class F22U(AwareASTNode):
    child: AwareASTNode = None
    opt: AwareASTNode | None = None
x = F22L(1, origin=NO_ORIGIN)
inner = F22L(5, origin=NO_ORIGIN); new = F22U(inner, origin=NO_ORIGIN); new.detach()   # detached replacement with a child
blocker = F22L(5, origin=NO_ORIGIN)      # takes the detached child's id, so attaching `new` must fail
before = (new.id, new.original_id)
try:
    x.replace_with(new); raised = False
except ASTNodeReplaceWithError:
    raised = True
ok = raised and (new.id, new.original_id) == before
print(raised, before, (new.id, new.original_id), "HOLDS" if ok else "FAILS"); raise SystemExit(0 if ok else 1)
