"""C12/C01/C05: a child whose class defines __len__()==0 must still be enumerated."""
from dataclasses import dataclass
from pyoak.node import ASTNode
@dataclass(frozen=True)
class F01Falsy(ASTNode):
    v: int = 0
    def __len__(self): return 0
@dataclass(frozen=True)
class F01P(ASTNode):
    c: F01Falsy | None = None
p = F01P(c=F01Falsy(1)); q = F01P(c=None)
ok = len(list(p.get_child_nodes()))==1 and len(list(p.get_child_nodes_with_field()))==1 and p.content_id != q.content_id and len(list(p.dfs()))==1
print("HOLDS" if ok else "FAILS"); raise SystemExit(0 if ok else 1)
