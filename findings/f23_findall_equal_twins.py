"""C07 (fixed): findall() dropped a node whose position tuple compares equal (by content) to one found earlier -- a detached
node and its re-created twin (same id, equal content) inside one tree; match() is True for both."""
from dataclasses import dataclass
from pyoak.node import ASTNode
from pyoak.match.xpath import ASTXpath
@dataclass(frozen=True)
class F23Leaf(ASTNode):
    v: int = 0
@dataclass(frozen=True)
class F23Mid(ASTNode):
    a: F23Leaf | None = None
@dataclass(frozen=True)
class F23Root(ASTNode):
    items: tuple[F23Mid, ...] = ()
l1 = F23Leaf(1); l1.detach_self()
l2 = F23Leaf(1)                       # same id as the detached l1
m1 = F23Mid(l1); m1.detach_self()
m2 = F23Mid(l2)
r = F23Root((m1, m2))
bad = []
for text in ("//F23Leaf", "//F23Mid/F23Leaf", "/F23Root/F23Mid", "//@a F23Leaf", "//@items[1]F23Mid"):
    x = ASTXpath(text)
    found = list(x.findall(r))
    want = [i.node for i in [*r.dfs()] if x.match(r, i.node)] + ([r] if x.match(r, r) else [])
    if sorted(map(id, found)) != sorted(map(id, want)):
        bad.append((text, len(found), len(want)))
print(bad, "HOLDS" if not bad else "FAILS"); raise SystemExit(0 if not bad else 1)
