"""C18 (fixed): legacy is_ancestor / get_depth compared nodes with `==`.  Legacy nodes are dataclasses whose `id` is excluded from comparison, so `==` is
content-and-origin equality: a sibling container with equal content counted as an ancestor of its twin's child (is_ancestor True, relative depth 1 instead
of ValueError) although it does not occur in the parent chain.  Found by the contract `is_ancestor: result == seq_mem(lchain(node), self)`."""
import warnings
warnings.simplefilter("ignore")
from dataclasses import dataclass
from pyoak.legacy.node import AwareASTNode
from pyoak.origin import NoOrigin
@dataclass
class F28Leaf(AwareASTNode):
    v: str
@dataclass
class F28Wrap(AwareASTNode):
    child: F28Leaf
@dataclass
class F28Root(AwareASTNode):
    kids: tuple[F28Wrap, ...]
o = NoOrigin()
a = F28Wrap(child=F28Leaf("x", origin=o), origin=o)
b = F28Wrap(child=F28Leaf("x", origin=o), origin=o)          # equal content and origin, another object under another id
r = F28Root(kids=(a, b), origin=o)
chain = list(a.child.ancestors())
bad = []
if not (chain[0] is a and chain[1] is r and len(chain) == 2):
    bad.append("ancestors")
if b.is_ancestor(a.child) != any(x is b for x in chain):
    bad.append(f"b.is_ancestor(a.child) = {b.is_ancestor(a.child)} but b is not in the parent chain")
try:
    d = a.child.get_depth(relative_to=b)
    bad.append(f"get_depth(relative_to=b) = {d}, expected ValueError (b is no ancestor)")
except ValueError:
    pass
if a.child.get_depth(relative_to=b, check_ancestor=False) != 2:
    bad.append(f"unchecked relative depth {a.child.get_depth(relative_to=b, check_ancestor=False)} != 2")
if not a.is_ancestor(a.child) or a.child.get_depth(relative_to=a) != 1 or a.child.get_depth(relative_to=r) != 2:
    bad.append("true ancestors misreported")
r.detach()
print(bad, "HOLDS" if not bad else "FAILS"); raise SystemExit(0 if not bad else 1)
