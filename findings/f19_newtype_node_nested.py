"""C11: a NewType over a node class is classified like the node class, also when nested
(never silently a property)."""
from dataclasses import dataclass
from typing import NewType, Optional
from pyoak.node import ASTNode
from pyoak.error import InvalidFieldAnnotations
@dataclass(frozen=True)
class F19Leaf(ASTNode):
    v: int = 0
F19Id = NewType("F19Id", F19Leaf)
@dataclass(frozen=True)
class F19A(ASTNode):
    a: Optional[F19Id] = None
    b: tuple[F19Id, ...] = ()
    c: F19Id | None = None
x = F19A(a=F19Leaf(1), b=(F19Leaf(2),))
ok = [f.name for f in F19A.get_child_fields()] == ["a", "b", "c"] and len(list(x.dfs())) == 2
try:
    @dataclass(frozen=True)
    class F19B(ASTNode):
        s: frozenset[F19Id] = frozenset()
    F19B()
    rejected = False
except InvalidFieldAnnotations:
    rejected = True
print(ok, rejected, "HOLDS" if ok and rejected else "FAILS"); raise SystemExit(0 if ok and rejected else 1)
