"""C12: id / content_id / origin follow their own skip flags in the static get_property_fields,
exactly as in the generated get_properties."""
import itertools
from dataclasses import dataclass, field
from pyoak.node import ASTNode
@dataclass(frozen=True)
class F17N(ASTNode):
    a: int = 1
    b: int = field(default=2, init=False)
n = F17N()
bad = []
for flags in itertools.product([False, True], repeat=5):
    dyn = [f.name for _, f in n.get_properties(*flags)]
    sta = [f.name for f in F17N.get_property_fields(*flags)]
    if dyn != sta:
        bad.append((flags, dyn, sta))
ok = not bad and [f.name for f in F17N.get_property_fields(False, False, False, True, True)] == ["id", "content_id", "origin", "a"]
print(bad[:2], "HOLDS" if ok else "FAILS"); raise SystemExit(0 if ok else 1)
