"""C18 (open finding): replace_with(new) gives `new` the receiver's id even when new's own subtree holds a node with that id
(a detached duplicate of the receiver): attaching `new` registers that inner node first and then overwrites its registry entry
with `new`, so the inner node ends up detached and its attached children resolve `parent` to `new`, which does not hold them."""
import warnings; warnings.simplefilter("ignore")
from dataclasses import dataclass
from pyoak.legacy.node import AwareASTNode
from pyoak.origin import NO_ORIGIN
@dataclass
class F24Leaf(AwareASTNode):
    v: int = 0
@dataclass
class F24Unary(AwareASTNode):
    child: AwareASTNode = None
@dataclass
class F24List(AwareASTNode):
    items: tuple[AwareASTNode, ...] = ()
dup = F24Unary(F24Leaf(1, origin=NO_ORIGIN), origin=NO_ORIGIN)                  # a tree ...
new = F24List((dup,), origin=NO_ORIGIN)                                         # ... inside the future replacement,
new.detach()                                                                    # which is detached as a whole
u = F24Unary(F24Leaf(1, origin=NO_ORIGIN), origin=NO_ORIGIN)                    # an equal tree built afterwards: the receiver, same id as `dup`
root = F24List((u, F24Leaf(7, origin=NO_ORIGIN)), origin=NO_ORIGIN)
assert dup.id == u.id and dup is not u
u.replace_with(new)
bad = []
for n in (new, dup, *dup.get_child_nodes()):
    att = AwareASTNode.get_any(n.id) is n
    p = n.parent
    if att and p is not None and not any(c is n for c in p.get_child_nodes()):
        bad.append(f"{type(n).__name__} is attached, reports {type(p).__name__} as parent, which does not hold it")
for c in new.get_child_nodes():
    if AwareASTNode.get_any(c.id) is not c:
        bad.append(f"child {type(c).__name__} of the attached replacement is not registered")
print(bad, "HOLDS" if not bad else "FAILS"); raise SystemExit(0 if not bad else 1)
