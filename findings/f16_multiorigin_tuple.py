"""C04: a MultiOrigin built from a tuple of origins survives the round trip with == preserved."""
from dataclasses import dataclass
from pyoak.node import ASTNode
from pyoak.origin import MultiOrigin, CodeOrigin, MemoryTextSource, get_code_range, merge_origins
@dataclass(frozen=True)
class F16X(ASTNode):
    v: int
s = MemoryTextSource("abcdef", source_uri="f16")
a = CodeOrigin(s, get_code_range(0,1,0,1,1,1)); b = CodeOrigin(s, get_code_range(3,1,3,4,1,4))
res = []
for mo in (MultiOrigin(origins=(a, b)), MultiOrigin(origins=[a, b]), merge_origins(a, b)):
    x = F16X(5, origin=mo)
    d = x.as_dict(); x.detach()
    y = F16X.as_obj(d)
    res.append(y == x and y.origin == x.origin)
    y.detach()
ok = all(res)
print(res, "HOLDS" if ok else "FAILS"); raise SystemExit(0 if ok else 1)
