"""C12: a property with init=False, compare=False must be skipped under skip_non_init=True."""
from dataclasses import dataclass, field
from pyoak.node import ASTNode
@dataclass(frozen=True)
class F02N(ASTNode):
    a: int = 1
    b: int = field(default=2, init=False, compare=False)
n = F02N()
dyn = [f.name for _, f in n.get_properties(skip_non_init=True)]
sta = [f.name for f in F02N.get_property_fields(skip_non_init=True)]
ok = dyn == sta == ["a"]
print(dyn, sta, "HOLDS" if ok else "FAILS"); raise SystemExit(0 if ok else 1)
