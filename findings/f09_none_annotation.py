"""C11: a plain `value: None` annotation is a property (no node class, no mutable collection)."""
from dataclasses import dataclass
from pyoak.node import ASTNode
@dataclass(frozen=True)
class F09NoneLiteral(ASTNode):
    value: None = None
try:
    n = F09NoneLiteral()
    ok = [f.name for f in F09NoneLiteral.get_property_fields()] == ["value"] and not F09NoneLiteral.get_child_fields()
except Exception as e:
    print(type(e).__name__, e); ok = False
print("HOLDS" if ok else "FAILS"); raise SystemExit(0 if ok else 1)
