"""C18 (open finding): replace_with(new) where a detached node inside `new` shares its id with the receiver (content twin):
the replacement is attached, its child silently stays detached."""
import warnings; warnings.simplefilter("ignore")
from dataclasses import dataclass
from pyoak.legacy.node import AwareASTNode
from pyoak.origin import NO_ORIGIN
@dataclass
class F21L(AwareASTNode):
    v: int = 0
@dataclass
class F21T(AwareASTNode):
    items: tuple[AwareASTNode, ...] = ()
a = F21L(1, origin=NO_ORIGIN); l = F21T((a,), origin=NO_ORIGIN)
l.detach()                                   # l and a detached
b = F21L(1, origin=NO_ORIGIN)                # attached root, content twin of the detached a: re-uses a's id
b.replace_with(l)
reg = AwareASTNode._nodes
ok = (reg.get(l.id) is l) and (reg.get(a.id) is a) and a.parent is l
print(reg.get(l.id) is l, reg.get(a.id) is a, "HOLDS" if ok else "FAILS"); raise SystemExit(0 if ok else 1)
