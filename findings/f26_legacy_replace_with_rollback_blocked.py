"""C19 (open finding): replace_with(new) is rejected while attaching `new`, but `new` holds a detached twin of the receiver (same id) that
the failed attach has already registered: the rollback `self._attach("replace")` then collides with it, ASTNodeRegistryCollisionError
escapes instead of ASTNodeReplaceWithError, and the receiver's tree stays detached with its parent links cleared."""
import warnings; warnings.simplefilter("ignore")
from dataclasses import dataclass
from pyoak.legacy.node import AwareASTNode
from pyoak.legacy.error import ASTNodeError
from pyoak.origin import NO_ORIGIN
@dataclass
class F26Leaf(AwareASTNode):
    v: int = 0
@dataclass
class F26Unary(AwareASTNode):
    child: AwareASTNode = None
@dataclass
class F26List(AwareASTNode):
    items: tuple[AwareASTNode, ...] = ()
dup = F26Unary(F26Leaf(1, origin=NO_ORIGIN), origin=NO_ORIGIN); dup.detach()      # detached twin-to-be of the receiver
u = F26Unary(F26Leaf(1, origin=NO_ORIGIN), origin=NO_ORIGIN)                      # the receiver: same id
root = F26List((u,), origin=NO_ORIGIN)
taken = F26Leaf(9, origin=NO_ORIGIN); other = F26Unary(taken, origin=NO_ORIGIN)   # `taken` has another parent: attaching `new` must fail at it
new = F26List((dup, taken), origin=NO_ORIGIN, create_detached=True)
assert dup.id == u.id
def snap():
    return [(AwareASTNode.get_any(n.id) is n, id(n.parent) if n.parent is not None else None, getattr(n.parent_field, "name", None), n.parent_index, n.id)
            for n in (u, *u.get_child_nodes(), root, taken, other)]
before = snap()
try:
    u.replace_with(new); raised = None
except ASTNodeError as e:
    raised = type(e).__name__
ok = raised is not None and snap() == before
print(raised, "HOLDS" if ok else "FAILS"); raise SystemExit(0 if ok else 1)
