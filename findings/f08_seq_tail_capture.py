"""C08/C17: capturing a sequence with a trailing '*' keeps the tail; '[*] -> c' is well-formed."""
from dataclasses import dataclass
from pyoak.node import ASTNode
from pyoak.match.pattern import NodeMatcher, validate_pattern
@dataclass(frozen=True)
class F08B(ASTNode):
    v: int = 0
@dataclass(frozen=True)
class F08S(ASTNode):
    items: tuple[ASTNode, ...]
m, msg = NodeMatcher.from_pattern("(F08S @items=[(F08B) *] -> c)")
assert m is not None, msg
t = (F08B(1), F08B(2), F08B(3))
r = m.match(F08S(t))
ok1 = r[0] and r[1].get("c") is t
v = validate_pattern("(F08S @items=[*] -> c)")
m2, msg2 = NodeMatcher.from_pattern("(F08S @items=[*] -> c)")
ok2 = v[0] and m2 is not None and m2.match(F08S(t)) == (True, {"c": t}) and m2.match(F08S(()))[0]
print(r[0], v, msg2, "HOLDS" if ok1 and ok2 else "FAILS"); raise SystemExit(0 if ok1 and ok2 else 1)
