"""C08: compiling a later pattern must not change the captures of an earlier one."""
from dataclasses import dataclass
from pyoak.node import ASTNode
from pyoak.match.pattern import MultiPatternMatcher, NodeMatcher
@dataclass(frozen=True)
class F07A(ASTNode):
    x: int = 0
@dataclass(frozen=True)
class F07B(ASTNode):
    y: int = 0
m1, _ = NodeMatcher.from_pattern("(F07A @x -> v)")
before = m1.match(F07A(3))
m2, _ = NodeMatcher.from_pattern("(F07B @y)")
after = m1.match(F07A(3))
mp = MultiPatternMatcher([("r1", "(F07A @x -> w)"), ("r2", "(F07B @y)")])
res = mp.match(F07A(4))
ok = before == (True, {"v": 3}) and after == before and res == ("r1", {"w": 4})
print(before, after, res, "HOLDS" if ok else "FAILS"); raise SystemExit(0 if ok else 1)
