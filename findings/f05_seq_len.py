"""C08: [(A) (B) *] needs at least two elements."""
from dataclasses import dataclass
from pyoak.node import ASTNode
from pyoak.match.pattern import NodeMatcher
@dataclass(frozen=True)
class F05A(ASTNode):
    v: int = 0
@dataclass(frozen=True)
class F05B(ASTNode):
    v: int = 0
@dataclass(frozen=True)
class F05S(ASTNode):
    items: tuple[ASTNode, ...]
m, msg = NodeMatcher.from_pattern("(F05S @items=[(F05A) (F05B) *])")
assert m is not None, msg
r1 = m.match(F05S((F05A(),)))[0]
r2 = m.match(F05S((F05A(), F05B())))[0]
r3 = m.match(F05S((F05A(), F05B(), F05A())))[0]
ok = (r1, r2, r3) == (False, True, True)
print(r1, r2, r3, "HOLDS" if ok else "FAILS"); raise SystemExit(0 if ok else 1)
