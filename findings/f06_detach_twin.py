"""C03/C14: a detached node's detach_self/detach/replace must not evict a live twin."""
from dataclasses import dataclass
from pyoak.node import ASTNode
@dataclass(frozen=True)
class F06X(ASTNode):
    v: int
    w: int = 0
x = F06X(1); assert x.detach_self()
y = F06X(1); assert y.id == x.id
r = x.detach_self()
ok1 = (r is False) and ASTNode.get_any(y.id) is y
x.detach()
ok2 = ASTNode.get_any(y.id) is y
try:
    x.replace(nosuch=1)
except Exception: pass
ok3 = ASTNode.get_any(y.id) is y
z = x.replace(w=5)
ok4 = ASTNode.get_any(y.id) is y
print(ok1, ok2, ok3, ok4, "HOLDS" if all([ok1,ok2,ok3,ok4]) else "FAILS"); raise SystemExit(0 if all([ok1,ok2,ok3,ok4]) else 1)
