"""C07: the root matches no field or index constraint; findall and match agree."""
from dataclasses import dataclass
from pyoak.node import ASTNode
from pyoak.match.xpath import ASTXpath
@dataclass(frozen=True)
class F13Leaf(ASTNode):
    v: int = 0
@dataclass(frozen=True)
class F13Holder(ASTNode):
    child: F13Leaf
r = F13Holder(F13Leaf(1))
res = []
for p in ("/@child F13Holder", "//@child F13Holder", "/[0]F13Holder", "@child F13Holder", "/F13Holder", "//F13Holder", "//@child F13Leaf", "/@child F13Holder/@child F13Leaf"):
    xp = ASTXpath(p)
    found = list(xp.findall(r))
    agree = all((n in found) == xp.match(r, n) for n in (r, r.child))
    res.append((p, [type(n).__name__ for n in found], agree))
ok = all(a for _,_,a in res) and res[0][1] == [] and res[1][1] == [] and res[4][1] == ["F13Holder"]
for x in res: print(x)
print("HOLDS" if ok else "FAILS"); raise SystemExit(0 if ok else 1)
