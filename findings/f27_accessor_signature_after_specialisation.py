"""C12 (fixed): the specialised accessors generated per class accepted sort_keys positionally while the declared (and bootstrap) signature makes it
keyword-only, so `node.get_child_nodes(True)` raised TypeError before the class was specialised and worked afterwards -- the result depended on whether
the class had been queried before."""
from dataclasses import dataclass
from pyoak.node import ASTNode
@dataclass(frozen=True)
class F27Leaf(ASTNode):
    v: int = 0
@dataclass(frozen=True)
class F27Pair(ASTNode):
    a: F27Leaf
    b: F27Leaf
def outcome(fn):
    try:
        return ("ok", [type(x).__name__ for x in fn()])
    except TypeError:
        return ("TypeError",)
bad = []
for acc in ("get_child_nodes", "get_child_nodes_with_field", "iter_child_fields"):
    p = F27Pair(F27Leaf(1), F27Leaf(2))
    before = outcome(lambda: list(getattr(p, acc)(True)))     # first use of the class for this accessor
    list(getattr(p, acc)())                                   # specialises the class
    after = outcome(lambda: list(getattr(p, acc)(True)))
    if before[0] != after[0]:
        bad.append((acc, before[0], after[0]))
    p.detach()
print(bad, "HOLDS" if not bad else "FAILS"); raise SystemExit(0 if not bad else 1)
