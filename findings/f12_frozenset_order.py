"""C01: equal frozensets built in different element order must give equal content_id."""
from dataclasses import dataclass
from pyoak.node import ASTNode
@dataclass(frozen=True)
class F12N(ASTNode):
    s: frozenset[int]
a = F12N(frozenset([8, 16, 0])); b = F12N(frozenset([16, 8, 0]))
assert a.s == b.s
ok = a.content_id == b.content_id and a.is_equal(b)
print(str(a.s), str(b.s), "HOLDS" if ok else "FAILS"); raise SystemExit(0 if ok else 1)
