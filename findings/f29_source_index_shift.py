"""C04 (open): index-based ("optimized") source serialization writes the position of the source in the *local* registry.  Loading the separately
serialized sources (Source.load_serialized_sources(Source.all_as_dict()), as the documentation prescribes) into a registry that already holds another
source appends them behind it, every index shifts, and a node serialized with {"idx": 1} silently comes back with a different source."""
from dataclasses import dataclass
from pyoak.node import ASTNode
from pyoak.origin import Source, MemoryTextSource, CodeOrigin, get_code_range, SOURCE_OPTIMIZED_SERIALIZATION_KEY as K
@dataclass(frozen=True)
class F29Leaf(ASTNode):
    v: int = 0
saved = (dict(Source._sources), dict(Source._source_idx_to_source))
try:
    Source.clear_registry()
    s1 = MemoryTextSource(_raw="one", source_uri="f29-u1")
    s2 = MemoryTextSource(_raw="two", source_uri="f29-u2")
    n = F29Leaf(1, origin=CodeOrigin(s2, get_code_range(0, 1, 0, 1, 1, 1)))
    data = n.as_dict(serialization_options={K: True})
    dump = Source.all_as_dict()
    n.detach()
    # the reading side: a registry that already holds an unrelated source (anything parsed earlier in that process)
    Source.clear_registry()
    s3 = MemoryTextSource(_raw="three", source_uri="f29-u3")
    Source.load_serialized_sources(dump)
    try:
        back = F29Leaf.as_obj(data, serialization_options={K: True})
        ok = back.origin.source == s2
        got = back.origin.source.source_uri
        back.detach()
    except Exception as e:          # a loud failure would be acceptable; a silently different source is not
        ok, got = True, f"raised {type(e).__name__}"
finally:
    Source._sources, Source._source_idx_to_source = saved
print("serialized source f29-u2, read back:", got, "HOLDS" if ok else "FAILS"); raise SystemExit(0 if ok else 1)
