"""C01: string property values containing the library's separators must not collide."""
from dataclasses import dataclass
from pyoak.node import ASTNode
@dataclass(frozen=True)
class F11Leaf(ASTNode):
    a: str
    b: str
x = F11Leaf(a="", b="):b=<class 'str'>(")
y = F11Leaf(a="):b=<class 'str'>(", b="")
ok = x.content_id != y.content_id and not x.is_equal(y)
print("HOLDS" if ok else "FAILS"); raise SystemExit(0 if ok else 1)
