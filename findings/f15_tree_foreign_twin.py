"""C06: a detached foreign node that shares a member's id is not in the tree."""
from dataclasses import dataclass
from pyoak.node import ASTNode
from pyoak.tree import Tree
@dataclass(frozen=True)
class F15X(ASTNode):
    v: int
@dataclass(frozen=True)
class F15R(ASTNode):
    c: F15X
x = F15X(1); x.detach_self(); y = F15X(1)
assert x.id == y.id and x is not y
t = Tree(F15R(y))
try:
    t.get_parent(x); raised = False
except KeyError:
    raised = True
ok = (not t.is_in_tree(x)) and raised
print(t.is_in_tree(x), raised, "HOLDS" if ok else "FAILS"); raise SystemExit(0 if ok else 1)
