"""Opaque universally quantified predicates, instantiated by the generator (never handed to the solver as quantifiers).

    P(a1..an)  :=  forall k : K .  body(a1..an, k)

P is an uninterpreted predicate in every VC.  The instantiator adds, for every application P(a) that occurs in the VC,
  elimination     P(a)  ==>  body(a, t)           for every ground term t of sort K that occurs in the VC (and every skolem constant)
  introduction    not P(a)  ==>  not body(a, sk)   for one fresh constant sk per application (the witness of the negated quantifier)
Both are consequences of the definition, so adding them is sound whatever the terms chosen; completeness depends on the key terms
present, which is why contracts using these predicates also name a ghost key where a caller needs the fact at a derived term.
`depth` bounds how often the terms introduced by earlier instances (for example parent(k) inside a body) are used as keys again."""
from __future__ import annotations

from typing import Any, Callable, Sequence

import z3


class QPred:
    def __init__(self, name: str, arg_sorts: Sequence[Any], key_sort: Any, body: Callable[[Sequence[Any], Any], Any]) -> None:
        self.name, self.key_sort, self.body = name, key_sort, body
        self.decl = z3.Function(name, *arg_sorts, z3.BoolSort())
        self._sk: dict[int, tuple[Any, Any]] = {}     # per VC (reset by the instantiator): application id -> (application, its skolem key)

    def t(self, *args: Any) -> Any:
        return self.decl(*args)

    def skolem(self, app: Any) -> Any:
        i = app.get_id()
        if i not in self._sk:
            self._sk[i] = (app, z3.Const(f"sk!{self.name}!{len(self._sk)}", self.key_sort))
        return self._sk[i][1]


def _is_key_term(t: Any) -> bool:
    # ground, not an if-then-else (those are split by the solver anyway and double the instances)
    return z3.is_app(t) and t.decl().kind() != z3.Z3_OP_ITE


def instantiator(preds: Sequence[QPred], depth: int = 2, max_keys: int = 60) -> Callable[[Sequence[Any]], list[Any]]:
    by_decl = {p.decl.get_id(): p for p in preds}
    key_sorts = {p.key_sort.get_id() for p in preds}
    # per-VC state (reset() is called by specfn.instantiate at the start of every VC)
    st: dict[str, Any] = {}

    def reset() -> None:
        st.update(level={}, mine=set(), keep=[], seen=set(), apps={}, keys={}, pairs=set())
        for q in preds:
            q._sk.clear()

    reset()

    def walk(formulas: Sequence[Any]) -> None:
        level, seen, apps, keys, mine = st["level"], st["seen"], st["apps"], st["keys"], st["mine"]
        stack = [(f, f.get_id() in mine) for f in formulas]
        while stack:
            f, derived = stack.pop()
            if not z3.is_app(f):
                continue
            i = f.get_id()
            if i in seen:
                continue
            seen.add(i)
            p = by_decl.get(f.decl().get_id())
            if p is not None:
                apps[i] = (p, f)
            sid = f.sort().get_id()
            if sid in key_sorts and _is_key_term(f):
                if i not in level:
                    sub = [level.get(c.get_id(), 0) for c in f.children() if c.sort().get_id() in key_sorts] if derived else []
                    level[i] = ((max(sub) if sub else 0) + 1) if derived else 0
                keys.setdefault(sid, {})[i] = f
            stack.extend((c, derived) for c in f.children())

    def run(formulas: Sequence[Any]) -> list[Any]:
        st["keep"].extend(formulas)          # strong references: no id stored in the state is reused while it lives
        walk(formulas)
        level, pairs = st["level"], st["pairs"]
        out: list[Any] = []
        for aid, (p, app) in list(st["apps"].items()):
            args = app.children()
            first = aid not in p._sk
            sk = p.skolem(app)
            if first:
                level[sk.get_id()] = 0
                st["keys"].setdefault(p.key_sort.get_id(), {})[sk.get_id()] = sk
                out.append(z3.Implies(z3.Not(app), z3.Not(p.body(args, sk))))
        for aid, (p, app) in list(st["apps"].items()):
            args = app.children()
            cands = st["keys"].get(p.key_sort.get_id(), {})
            n = sum(1 for (a_, _) in pairs if a_ == aid)
            for kid, k in sorted(cands.items(), key=lambda kv: level.get(kv[0], 0)):
                if (aid, kid) in pairs or level.get(kid, 0) >= depth or n >= max_keys:
                    continue
                pairs.add((aid, kid))
                n += 1
                out.append(z3.Implies(app, p.body(args, k)))
        for o in out:
            st["mine"].add(o.get_id())
        st["keep"].extend(out)
        # terms first seen inside these instances are one generation younger than their key-sorted arguments
        walk(out)
        return out

    run.reset = reset  # type: ignore[attr-defined]
    return run
