"""Path context of the symbolic executor: decision replay, path condition, heap, obligations,
and the term bank used for generator-side instantiation of spec-function rules."""
from __future__ import annotations

from dataclasses import dataclass, field
from typing import Any, Callable

import z3

from .values import EngineError, V, VSeq


class Infeasible(Exception):
    """The current path condition is unsatisfiable: abandon the path."""


class PathEnd(Exception):
    """The path ends here (after a loop-preservation check)."""


@dataclass
class Obligation:
    name: str
    hyps: list[Any]
    goal: Any
    kind: str = "assert"
    decisions: tuple[bool, ...] = ()
    bank: "TermBank | None" = None
    # filled by the solver layer
    status: str = "pending"  # discharged | refuted | unknown
    backend: str = ""
    seconds: float = 0.0
    model: str = ""
    inputs: dict[str, Any] = field(default_factory=dict)


class TermBank:
    """Known decompositions of sequence terms, keyed by z3 term id.

    ('cons', x, r): t == [x] ++ r     ('snoc', s, x): t == s ++ [x]
    ('concat', a, b): t == a ++ b     ('empty',): t == []
    The executor registers one whenever it pops / appends / iterates, so that rules of recursive
    spec functions can be instantiated exactly at the terms the program touches."""

    def __init__(self) -> None:
        self.decomp: dict[int, list[tuple]] = {}
        self.terms: dict[int, Any] = {}

    def add(self, term: Any, shape: tuple) -> None:
        tid = term.get_id()
        self.terms[tid] = term
        lst = self.decomp.setdefault(tid, [])
        for s in lst:
            if s[0] == shape[0] and all(a.get_id() == b.get_id() for a, b in zip(s[1:], shape[1:])):
                return
        lst.append(shape)

    def get(self, term: Any, kind: str) -> list[tuple]:
        out = [s for s in self.decomp.get(term.get_id(), []) if s[0] == kind]
        if kind == "empty" and z3.is_app(term) and term.decl().kind() == z3.Z3_OP_SEQ_EMPTY:
            out.append(("empty",))
        return out

    def copy(self) -> "TermBank":
        b = TermBank()
        b.decomp = {k: list(v) for k, v in self.decomp.items()}
        b.terms = dict(self.terms)
        return b


def mk_cons(x: Any, r: Any) -> Any:
    return z3.Concat(z3.Unit(x), r)


def mk_snoc(s: Any, x: Any) -> Any:
    return z3.Concat(s, z3.Unit(x))


class HeapCell:
    """A mutable container: its current abstract value."""

    def __init__(self, kind: str, value: Any, extra: dict | None = None) -> None:
        self.kind = kind  # list | deque | iter | dict | set
        self.value = value  # VSeq for list/deque/iter; dict model for dict
        self.extra = extra or {}


class PathCtx:
    def __init__(self, script: list[bool], fn_name: str, axioms: list[Any], feas_timeout_ms: int = 2000) -> None:
        self.script = list(script)
        self.taken: list[bool] = []
        self.fresh_points: list[int] = []  # indices in `taken` that were new decisions taken True
        self.pc: list[Any] = []
        self.axioms = axioms
        self.heap: dict[int, HeapCell] = {}
        self._next_addr = 1
        self.obligations: list[Obligation] = []
        self.fn_name = fn_name
        self.bank = TermBank()
        self.out: VSeq | None = None  # ghost output of a generator function
        self.solver = z3.Solver()
        self.solver.set("timeout", feas_timeout_ms)
        for a in axioms:
            self.solver.add(a)
        self.counters: dict[str, int] = {}
        self.notes: list[str] = []
        self.canary_points = 0

    # ---- decisions -------------------------------------------------------------------------
    def branch(self, cond: Any, label: str = "") -> bool:
        c = z3.simplify(cond)
        if z3.is_true(c):
            return True
        if z3.is_false(c):
            return False
        pos = len(self.taken)
        if pos < len(self.script):
            choice = self.script[pos]
        else:
            choice = True
            self.fresh_points.append(pos)
        self.taken.append(choice)
        self.assume(c if choice else z3.Not(c))
        r = self.solver.check()
        if r == z3.unsat:
            raise Infeasible()
        return choice

    def assume(self, cond: Any) -> None:
        c = cond
        if z3.is_true(c):
            return
        self.pc.append(c)
        self.solver.add(c)

    def check(self, goal: Any, name: str, kind: str = "assert") -> None:
        n = self.counters.get(name, 0)
        self.counters[name] = n + 1
        g = z3.simplify(goal) if not z3.is_quantifier(goal) else goal
        ob = Obligation(name=name, hyps=list(self.pc), goal=g, kind=kind,
                        decisions=tuple(self.taken), bank=self.bank.copy())
        self.obligations.append(ob)
        self.assume(goal)

    # ---- heap ------------------------------------------------------------------------------
    def alloc(self, kind: str, value: Any, extra: dict | None = None) -> int:
        a = self._next_addr
        self._next_addr += 1
        self.heap[a] = HeapCell(kind, value, extra)
        return a

    def cell(self, addr: int) -> HeapCell:
        return self.heap[addr]


def explore(run_path: Callable[[PathCtx], None], fn_name: str, axioms: list[Any], max_paths: int = 4000):
    """Depth-first enumeration of decision scripts.  `run_path` executes one path; this driver
    collects the obligations of all paths (deduplicated by name + decision prefix)."""
    stack: list[list[bool]] = [[]]
    seen: set[tuple] = set()
    obligations: list[Obligation] = []
    paths = 0
    infeasible = 0
    while stack:
        script = stack.pop()
        paths += 1
        if paths > max_paths:
            raise EngineError(f"{fn_name}: more than {max_paths} paths")
        ctx = PathCtx(script, fn_name, axioms)
        try:
            run_path(ctx)
        except Infeasible:
            infeasible += 1
        except PathEnd:
            pass
        for i in ctx.fresh_points:
            stack.append(ctx.taken[:i] + [False])
        for ob in ctx.obligations:
            key = (ob.name, ob.decisions, len([1 for o in ctx.obligations if o is ob]))
            # identical prefix ⇒ identical formula; keep the first occurrence only
            k2 = (ob.name, ob.decisions, ctx.obligations.index(ob) if False else None)
            kk = (ob.name, ob.decisions)
            # several checks can share a name on one path (e.g. two call sites): keep an ordinal
            ordinal = sum(1 for o in ctx.obligations[: ctx.obligations.index(ob)] if o.name == ob.name and o.decisions == ob.decisions)
            kk = kk + (ordinal,)
            if kk in seen:
                continue
            seen.add(kk)
            obligations.append(ob)
    return obligations, {"paths": paths, "infeasible_paths": infeasible}
