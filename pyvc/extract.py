"""Mechanical extraction of the verified text from /repo's working tree.

Every run re-reads the source files; nothing is copied by hand.  A function is addressed as
"pyoak.node:ASTNode.dfs" or, for nested definitions, "pyoak.codegen:_gen_get_properties_func._build_body".
"""
from __future__ import annotations

import ast
import hashlib
import os
from dataclasses import dataclass
from functools import lru_cache

REPO_SRC = os.environ.get("PYVC_REPO_SRC", "/repo/src")


@dataclass
class ModuleSrc:
    name: str
    path: str
    text: str
    tree: ast.Module
    sha256: str


@lru_cache(maxsize=None)
def load_module(modname: str) -> ModuleSrc:
    rel = modname.replace(".", "/")
    for cand in (f"{REPO_SRC}/{rel}.py", f"{REPO_SRC}/{rel}/__init__.py"):
        if os.path.exists(cand):
            text = open(cand, encoding="utf-8").read()
            return ModuleSrc(modname, cand, text, ast.parse(text), hashlib.sha256(text.encode()).hexdigest())
    raise FileNotFoundError(modname)


def parse_text_module(name: str, text: str) -> ModuleSrc:
    """Wrap run-time generated source text (captured from exec) like a module."""
    return ModuleSrc(name, "<captured>", text, ast.parse(text), hashlib.sha256(text.encode()).hexdigest())


def find_def(mod: ModuleSrc, qualname: str) -> ast.AST:
    """Find a FunctionDef / ClassDef by dotted path inside a module (nested defs included)."""
    node: ast.AST = mod.tree
    for part in qualname.split("."):
        found = None
        for child in _defs_in(node):
            if getattr(child, "name", None) == part:
                found = child  # the last definition with that name wins, as in Python
        if found is None:
            raise KeyError(f"{mod.name}:{qualname} (no {part!r})")
        node = found
    return node


def _defs_in(node: ast.AST):
    body = getattr(node, "body", [])
    stack = list(body)
    while stack:
        n = stack.pop(0)
        if isinstance(n, (ast.FunctionDef, ast.AsyncFunctionDef, ast.ClassDef)):
            yield n
        elif isinstance(n, (ast.If, ast.Try, ast.With, ast.For, ast.While)):
            # definitions nested in control flow of the same scope (e.g. `if not exact_type: def f`)
            for fld in ("body", "orelse", "finalbody", "handlers"):
                for c in getattr(n, fld, []):
                    if isinstance(c, ast.ExceptHandler):
                        stack.extend(c.body)
                    else:
                        stack.append(c)


def find_all_defs(mod: ModuleSrc, qualname: str) -> list[ast.AST]:
    """All definitions with that path (e.g. the two `filter_fn` closures of gather), in order."""
    parts = qualname.split(".")
    nodes: list[ast.AST] = [mod.tree]
    for part in parts:
        nxt: list[ast.AST] = []
        for n in nodes:
            nxt.extend(c for c in _defs_in(n) if getattr(c, "name", None) == part)
        nodes = nxt
    return nodes


def get_function(ref: str, index: int | None = None) -> tuple[ModuleSrc, ast.FunctionDef]:
    modname, qual = ref.split(":")
    mod = load_module(modname)
    if index is not None:
        alld = find_all_defs(mod, qual)
        if index >= len(alld):
            raise KeyError(f"{ref}: definition #{index} not found")
        node = alld[index]
    else:
        node = find_def(mod, qual)
    if not isinstance(node, ast.FunctionDef):
        raise KeyError(f"{ref} is not a function")
    return mod, node


def fn_hash(fn: ast.AST) -> str:
    return hashlib.sha256(ast.dump(fn, include_attributes=False).encode()).hexdigest()[:16]


def class_bases(mod: ModuleSrc, clsname: str) -> list[str]:
    node = find_def(mod, clsname)
    assert isinstance(node, ast.ClassDef)
    out = []
    for b in node.bases:
        if isinstance(b, ast.Name):
            out.append(b.id)
        elif isinstance(b, ast.Attribute):
            out.append(b.attr)
        elif isinstance(b, ast.Subscript) and isinstance(b.value, ast.Name):
            out.append(b.value.id)
    return out


def module_constants(mod: ModuleSrc) -> dict[str, object]:
    """Top-level NAME = <literal> assignments (URI_DELIM = '::' and the like)."""
    out: dict[str, object] = {}
    for st in mod.tree.body:
        if isinstance(st, ast.Assign) and len(st.targets) == 1 and isinstance(st.targets[0], ast.Name):
            try:
                out[st.targets[0].id] = ast.literal_eval(st.value)
            except Exception:
                v = st.value  # " " * 4 and the like
                if isinstance(v, ast.BinOp) and isinstance(v.op, ast.Mult) and isinstance(v.left, ast.Constant) and isinstance(v.right, ast.Constant):
                    try:
                        out[st.targets[0].id] = v.left.value * v.right.value
                    except Exception:
                        pass
        elif isinstance(st, ast.AnnAssign) and isinstance(st.target, ast.Name) and st.value is not None:
            try:
                out[st.target.id] = ast.literal_eval(st.value)
            except Exception:
                pass
    return out
