"""Verification driver: one function against its contract; lemma proofs; vacuity guards."""
from __future__ import annotations

import time
import traceback
from dataclasses import dataclass, field
from typing import Any, Callable, Sequence

import z3

from . import extract
from .contract import Contract
from .core import Obligation, PathCtx, TermBank, explore
from .solve import discharge
from .specfn import SpecLib
from .symex import Machine, World
from .values import EngineError


@dataclass
class FnResult:
    key: str
    fn: str
    status: str = "ok"  # ok | out-of-reach | vacuous | trusted
    error: str = ""
    src_sha: str = ""
    fn_hash: str = ""
    paths: int = 0
    infeasible_paths: int = 0
    obligations: list[Obligation] = field(default_factory=list)
    seconds: float = 0.0
    canary: str = ""
    loops: int = -1  # number of loops in the verified body (the contract's invariants are keyed by loop ordinal)

    @property
    def discharged(self) -> int:
        return sum(1 for o in self.obligations if o.status == "discharged")

    def failed(self) -> list[Obligation]:
        return [o for o in self.obligations if o.status != "discharged"]


def verify_function(world: World, lib: SpecLib | None, c: Contract, timeout_ms: int = 20000) -> FnResult:
    t0 = time.time()
    res = FnResult(key=c.key, fn=c.fn)
    if c.trusted:
        res.status = "trusted"
        return res
    try:
        mod, fn = c.source if c.source is not None else extract.get_function(c.fn, c.def_index)
        res.src_sha = mod.sha256
        res.fn_hash = extract.fn_hash(fn)
        from .symex import _loops_in_order
        res.loops = len(_loops_in_order(fn))
        machine_box: list[Machine] = []

        def run(ctx: PathCtx) -> None:
            m = Machine(world, c, mod, fn)
            m.forall_facts = []
            machine_box.append(m)
            m.run_path(ctx)

        obs, stats = explore(run, c.key, world.axioms)
        res.paths, res.infeasible_paths = stats["paths"], stats["infeasible_paths"]
        # vacuity: the precondition itself must be satisfiable
        m0 = Machine(world, c, mod, fn)
        m0.forall_facts = []
        ctx0 = PathCtx([], c.key, world.axioms)
        m0.ctx = ctx0
        try:
            _enter_only(m0, ctx0)
            r = ctx0.solver.check()
            res.canary = "requires-sat" if r == z3.sat else ("requires-UNSAT" if r == z3.unsat else "requires-unknown")
            if r == z3.unsat:
                res.status = "vacuous"
                res.error = "contradictory requires"
        except EngineError:
            res.canary = "requires-unchecked"
        if not obs:
            res.status = "vacuous"
            res.error = "no obligations generated"
        input_terms = {k: v.term for k, v in (machine_box[0].param_inputs.items() if machine_box else []) if hasattr(v, "term")}
        for ob in obs:
            discharge(ob, world.axioms, lib, timeout_ms, input_terms=None)
        res.obligations = obs
    except EngineError as e:
        res.status = "out-of-reach"
        res.error = str(e)
    except Exception as e:  # engine bug: never a verdict
        res.status = "out-of-reach"
        res.error = "engine exception: " + "".join(traceback.format_exception_only(type(e), e)).strip() + " @ " + traceback.format_exc().strip().split("\n")[-3].strip()
    res.seconds = time.time() - t0
    return res


def _enter_only(m: Machine, ctx: PathCtx) -> None:
    c = m.contract
    a = m.fn.args
    names = [x.arg for x in a.posonlyargs + a.args + a.kwonlyargs]
    if a.vararg:
        names.append(a.vararg.arg)
    if a.kwarg:
        names.append(a.kwarg.arg)
    m.env = {n: m.fresh_of(c.params[n], n) for n in names}
    for g, s in c.ghost.items():
        m.env[g] = m.fresh_of(s, g)
    m.global_syms = {g: m.fresh_of(s, g.replace(".", "_")) for g, s in c.globals.items()}
    if c.setup:
        c.setup(m)
    m.snapshot_old()
    for r in c.requires:
        ctx.assume(m.spec_bool(r))


# ------------------------------------------------------------------------------------------------
# lemmas about spec functions (pure z3, with the same rule instantiation)
# ------------------------------------------------------------------------------------------------


@dataclass
class Lemma:
    name: str
    # each case: (case name, builder) ; builder(bank) -> (hyps, goal)
    cases: list[tuple[str, Callable[[TermBank], tuple[list[Any], Any]]]]
    props: list[str] = field(default_factory=list)
    note: str = ""
    uses: list[str] = field(default_factory=list)  # names of (already proved) lemma rules this proof may use
    prefer_cvc5: bool = False


def prove_lemma(lem: Lemma, axioms: Sequence[Any], lib: SpecLib, timeout_ms: int = 20000) -> list[Obligation]:
    out = []
    for cname, build in lem.cases:
        bank = TermBank()
        hyps, goal = build(bank)
        ob = Obligation(name=f"lemma:{lem.name}/{cname}", hyps=hyps, goal=goal, kind="lemma", bank=bank)
        discharge(ob, axioms, lib, timeout_ms, lemma_rules=set(lem.uses), prefer_cvc5=lem.prefer_cvc5)
        if ob.status == "discharged" and hyps:
            # vacuity canary: the hypotheses of the case (induction hypothesis, quantified facts, instances of earlier lemmas) must not be contradictory
            can = Obligation(name=ob.name + "/canary", hyps=hyps, goal=z3.BoolVal(False), kind="lemma", bank=TermBank())
            discharge(can, axioms, lib, 3000, use_cvc5=False, lemma_rules=set(lem.uses))
            if can.status == "discharged":
                ob.status, ob.model = "unknown", "vacuous: the hypotheses of this lemma case are contradictory"
        out.append(ob)
    return out
