"""Debug runner: python -m pyvc.run_area contracts.origin_intervals"""
import importlib, sys, time
from pyvc.verify import verify_function, prove_lemma

def main():
    mod = importlib.import_module(sys.argv[1])
    world, lib, reg, lemmas = mod.build()
    only = sys.argv[2] if len(sys.argv) > 2 else None
    tot = dis = 0
    for c in reg.all():
        if only and only not in c.key: continue
        r = verify_function(world, lib, c)
        tot += len(r.obligations); dis += r.discharged
        print(f"{r.key:60s} {r.status:12s} paths={r.paths} obl={len(r.obligations)} ok={r.discharged} {r.seconds:.2f}s {r.canary} {r.error}")
        for o in r.failed():
            print("     FAIL", o.name, o.status, o.model[:300].replace("\n", " "))
    for l in lemmas:
        if only and only not in l.name: continue
        for o in prove_lemma(l, world.axioms, lib):
            tot += 1; dis += o.status == "discharged"
            if o.status != "discharged": print("     LEMMA FAIL", o.name, o.status, o.model[:300])
    print("total", tot, "discharged", dis)
main()
