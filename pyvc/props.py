"""Which areas (contract modules) and bounded stand-ins serve which property."""
PROPS = {
    "C15": {
        "areas": ["contracts.origin_intervals"],
        "rt": "rt.c15",
        "level": "proof",
        "technique": "sidecar contracts on the real origin.py functions, forward symbolic execution, VCs discharged by z3 (LIA + datatypes); interval laws as lemmas over the postconditions; bounded native grid as stand-in for the origin-merging part",
        "level_text": "Every CodePoint/CodeRange function of origin.py is verified against its contract for all integer inputs, and the order/hull laws are proved as lemmas over those contracts (unbounded). Multi-origin merging is so far only covered by the exhaustive bounded grid (reported under coverage.bounded, not counted as proved).",
        "level_note": "Trusted: the pyvc VC generator and its Python encoding, z3/cvc5, dataclass __init__/__eq__ semantics, CPython min/max rule. Bounded only: merge_origins, concat_origins, MultiOrigin.__post_init__, fqn composition.",
        "assumptions": [
            "Python ints are mathematical integers (exact in CPython)",
            "dataclass-generated __init__ calls __post_init__ once; frozen dataclass == is field-wise",
            "min/max follow CPython's 'keep the first unless the second is strictly better' rule (cross-checked natively by rt.c15)",
        ],
    },
    "C16": {
        "areas": ["contracts.serialize_opts"],
        "rt": "rt.c16",
        "level": "proof",
        "technique": "contracts with exceptional postconditions on as_dict/as_obj and the six format front-ends (ghost option/dialect slots, try/finally executed symbolically on both edges), z3; bounded native fault injection for the reach of options into nested objects",
        "level_text": "Proved for all inputs and for every exception the callee may raise: the class-level option and dialect slots hold exactly the given values during the nested (de)serialization and are reset on normal and exceptional exit of as_dict, as_obj and all six format front-ends (history statement = 'idle' is an invariant of every entry point). Key order, tags on every nested object and dialect keys are only covered by the bounded native run (coverage.bounded).",
        "level_note": "Assumed: mashumaro-generated to_dict/from_dict call _serialize/__post_serialize__ on every nested object and do not write the two slots; orjson/msgpack/yaml are opaque and may raise. Trusted: pyvc encoding, z3.",
        "assumptions": ["mashumaro to_dict/from_dict and user hooks do not assign the option / dialect class attributes",
                        "no re-entrant as_dict/as_obj call from inside a serialization hook",
                        "single-threaded use"],
    },
}

NOT_APPLICABLE: dict[str, str] = {}
