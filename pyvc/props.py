"""Which areas (contract modules) and bounded stand-ins serve which property."""
PROPS = {
    "C15": {
        "areas": ["contracts.origin_intervals"],
        "rt": "rt.c15",
        "level": "proof",
        "technique": "sidecar contracts on the real origin.py functions, forward symbolic execution, VCs discharged by z3 (LIA + datatypes); interval laws as lemmas over the postconditions; bounded native grid as stand-in for the origin-merging part",
        "level_text": "Every CodePoint/CodeRange function of origin.py is verified against its contract for all integer inputs, and the order/hull laws are proved as lemmas over those contracts (unbounded). Multi-origin merging is so far only covered by the exhaustive bounded grid (reported under coverage.bounded, not counted as proved).",
        "level_note": "Trusted: the pyvc VC generator and its Python encoding, z3/cvc5, dataclass __init__/__eq__ semantics, CPython min/max rule. Bounded only: merge_origins, concat_origins, MultiOrigin.__post_init__, fqn composition.",
        "assumptions": [
            "Python ints are mathematical integers (exact in CPython)",
            "dataclass-generated __init__ calls __post_init__ once; frozen dataclass == is field-wise",
            "min/max follow CPython's 'keep the first unless the second is strictly better' rule (cross-checked natively by rt.c15)",
        ],
    },
    "C16": {
        "areas": ["contracts.serialize_opts"],
        "rt": "rt.c16",
        "level": "proof",
        "technique": "contracts with exceptional postconditions on as_dict/as_obj and the six format front-ends (ghost option/dialect slots, try/finally executed symbolically on both edges), z3; bounded native fault injection for the reach of options into nested objects",
        "level_text": "Proved for all inputs and for every exception the callee may raise: the class-level option and dialect slots hold exactly the given values during the nested (de)serialization and are reset on normal and exceptional exit of as_dict, as_obj and all six format front-ends (history statement = 'idle' is an invariant of every entry point). Key order, tags on every nested object and dialect keys are only covered by the bounded native run (coverage.bounded).",
        "level_note": "Assumed: mashumaro-generated to_dict/from_dict call _serialize/__post_serialize__ on every nested object and do not write the two slots; orjson/msgpack/yaml are opaque and may raise. Trusted: pyvc encoding, z3.",
        "assumptions": ["mashumaro to_dict/from_dict and user hooks do not assign the option / dialect class attributes",
                        "no re-entrant as_dict/as_obj call from inside a serialization hook",
                        "single-threaded use"],
    },
    "C03": {
        "areas": ["contracts.node_registry"],
        "rt": "rt.c03",
        "level": "proof",
        "technique": "contracts over a ghost registry map (z3 arrays): each operation's postcondition states the whole new registry, loop invariant over the dfs stream for detach, exceptional postcondition for replace; bounded native histories with a shadow model for construction / deserialization / GC",
        "level_text": "Proved for all registry states and all nodes: get/get_any lookup rules, _unregister/detach_self/detach remove exactly the node itself (all depths for detach) and nothing else, replace leaves the registry exactly as it was when it raises and otherwise swaps exactly self for the new node, _get_next_unique_id returns a free id of the form id or id_k. Because every postcondition fixes the entire map, the history quantifier follows by induction over operations. Construction (__post_init__), deserialization and garbage collection are covered by bounded native histories only.",
        "level_note": "Assumed: WeakValueDictionary behaves as a dict over live objects (GC not modelled; 'not kept alive by the library' is outside any contract); dataclasses.replace = a construction whose failure leaves the registry unchanged; ASTNode.dfs contract proved under C05. Bounded only: __post_init__ id assignment, _deserialize, GC.",
        "assumptions": ["garbage collection / weak references are not modelled", "a rejected construction does not register the half-built node (library __post_init__ registers last)"],
    },
    "C05": {
        "areas": ["contracts.node_traversal"],
        "rt": "rt.c05",
        "level": "proof",
        "technique": "loop invariants over ghost done/rest sequences relating the real iterative dfs / bfs / gather to recursive spec functions (pre-order, post-order, queue recursion); rule instantiation by the generator; induction lemmas (snoc laws, reverse, level order) as base+step VCs; z3 sequences",
        "level_text": "For all trees (any depth and width), all prune/filter callbacks: dfs top-down == recursive pre-order, dfs bottom-up == recursive post-order, bfs == queue recursion which a lemma shows to be the level-by-level order, gather == pre-order with the verified class-test closure as filter; position info (parent, field, index) is part of the spec terms. Relative to the accessor contract get_child_nodes_with_field == kids(self) (C12).",
        "level_note": "Assumed: callbacks are pure and total; generators modelled by their whole output sequence; kids(n) finite and well-founded (rank). The lemma 'pre-order with filter g and h == filter g of pre-order with h' is not machine-checked. Bounded stand-in cross-checks the same statement natively on all trees <= 4 nodes.",
        "assumptions": ["callbacks pure/total", "nodes are immutable during a traversal (C10)", "list / deque / reverse semantics as encoded (cross-checked natively by rt.c05)"],
    },
    "C02": {
        "areas": ["contracts.node_eq"],
        "rt": "rt.c02",
        "level": "proof",
        "technique": "contract on the real _eq_fn with a loop invariant over the strict zip of the two dfs streams (ghost done/rest), spec function origins() with induction lemmas, relation laws as lemmas over the postcondition; z3",
        "level_text": "For all pairs of nodes: _eq_fn returns True exactly when class, content_id and root origin agree and the origins of the two descendant streams agree position by position (all depths), never raises (the strict zip cannot fail), is False against non-nodes; reflexivity, symmetry, transitivity follow from the postcondition; _hash_fn is a function of the id. Relative to the dfs contract (C05).",
        "level_note": "Assumed: content-equal nodes of one class have equally long descendant streams (consequence of C01 under collision-free blake2b); origin == is the dataclass field-wise equality (abstracted as an equivalence); != is Python's default negation of __eq__; installation of _eq_fn/_hash_fn on subclasses (__init_subclass__) is checked by the bounded run only.",
        "assumptions": ["blake2b collision-free at the configured width", "default __ne__", "id is written once (C10)"],
    },
}

NOT_APPLICABLE: dict[str, str] = {}
