"""Which areas (contract modules) and bounded stand-ins serve which property."""
PROPS = {
    "C15": {
        "areas": ["contracts.origin_intervals"],
        "rt": "rt.c15",
        "level": "proof",
        "technique": "sidecar contracts on the real origin.py functions, forward symbolic execution, VCs discharged by z3 (LIA + datatypes); interval laws as lemmas over the postconditions; bounded native grid as stand-in for the origin-merging part",
        "level_text": "Every CodePoint/CodeRange function of origin.py is verified against its contract for all integer inputs, and the order/hull laws are proved as lemmas over those contracts (unbounded). Multi-origin merging is so far only covered by the exhaustive bounded grid (reported under coverage.bounded, not counted as proved).",
        "level_note": "Trusted: the pyvc VC generator and its Python encoding, z3/cvc5, dataclass __init__/__eq__ semantics, CPython min/max rule. Bounded only: merge_origins, concat_origins, MultiOrigin.__post_init__, fqn composition.",
        "assumptions": [
            "Python ints are mathematical integers (exact in CPython)",
            "dataclass-generated __init__ calls __post_init__ once; frozen dataclass == is field-wise",
            "min/max follow CPython's 'keep the first unless the second is strictly better' rule (cross-checked natively by rt.c15)",
        ],
    },
}

NOT_APPLICABLE: dict[str, str] = {}
