"""Recursive spec functions as uninterpreted symbols plus rules instantiated by the generator.

A rule belongs to one spec function `f` and fires on an application f(args) found in a VC when
the argument at `pos` has a decomposition of the given `shape` in the path's term bank
('cons', 'snoc', 'concat', 'empty'), or unconditionally ('always').  `make(args, parts)` returns a
z3 formula: one instance of the function's defining equation (kind='definition') or of a lemma
(kind='lemma', which must be proved by its own obligations, see Lemma)."""
from __future__ import annotations

from dataclasses import dataclass, field
from typing import Any, Callable, Sequence

import z3

from .core import TermBank, mk_cons, mk_snoc
from .values import Sort, V, VTerm


@dataclass
class Rule:
    name: str
    pos: int
    shape: str
    make: Callable[[Sequence[Any], tuple], Any]
    kind: str = "definition"


class SpecFn:
    def __init__(self, name: str, arg_sorts: Sequence[Sort], ret: Sort) -> None:
        self.name = name
        self.arg_sorts = list(arg_sorts)
        self.ret = ret
        self.decl = z3.Function(name, *[s.z3() for s in arg_sorts], ret.z3())
        self.rules: list[Rule] = []

    def __call__(self, *args: V) -> V:
        ts = [s.coerce(a).term for s, a in zip(self.arg_sorts, args)]
        return self.ret.wrap(self.decl(*ts))

    def t(self, *terms: Any) -> Any:
        return self.decl(*terms)

    def rule(self, name: str, pos: int, shape: str, kind: str = "definition"):
        def deco(fn: Callable[[Sequence[Any], tuple], Any]):
            self.rules.append(Rule(name, pos, shape, fn, kind))
            return fn
        return deco


class SpecLib:
    def __init__(self) -> None:
        self.fns: dict[str, SpecFn] = {}
        self.by_decl: dict[int, SpecFn] = {}
        self.global_rules: list[Callable[[Any, TermBank], list[Any]]] = []

    def add(self, f: SpecFn) -> SpecFn:
        self.fns[f.name] = f
        self.by_decl[f.decl.get_id()] = f
        return f

    def fn(self, name: str, arg_sorts: Sequence[Sort], ret: Sort) -> SpecFn:
        return self.add(SpecFn(name, arg_sorts, ret))


def _walk_apps(formulas: Sequence[Any], lib: SpecLib, seen_terms: set[int]):
    stack = list(formulas)
    while stack:
        t = stack.pop()
        tid = t.get_id()
        if tid in seen_terms:
            continue
        seen_terms.add(tid)
        if z3.is_quantifier(t):
            stack.append(t.body())
            continue
        if z3.is_app(t):
            d = t.decl()
            f = lib.by_decl.get(d.get_id())
            if f is not None:
                yield f, t
            stack.extend(t.children())


def instantiate(hyps: Sequence[Any], goal: Any, bank: TermBank, lib: SpecLib, rounds: int = 4, limit: int = 4000):
    """Generator-side E-matching: returns rule instances relevant to this VC."""
    instances: list[Any] = []
    inst_ids: set[int] = set()
    seen_terms: set[int] = set()
    seen_apps: set[int] = set()
    frontier: list[Any] = list(hyps) + [goal]
    used: dict[str, int] = {}
    for _ in range(rounds):
        new_formulas: list[Any] = []
        for f, app in list(_walk_apps(frontier, lib, seen_terms)):
            if app.get_id() in seen_apps:
                continue
            seen_apps.add(app.get_id())
            args = app.children()
            for r in f.rules:
                if r.shape == "always":
                    partses = [()]
                else:
                    partses = [s[1:] for s in bank.get(args[r.pos], r.shape)]
                for parts in partses:
                    inst = r.make(args, parts)
                    if inst is None:
                        continue
                    for one in (inst if isinstance(inst, (list, tuple)) else [inst]):
                        if one.get_id() in inst_ids:
                            continue
                        inst_ids.add(one.get_id())
                        instances.append(one)
                        new_formulas.append(one)
                        used[r.name] = used.get(r.name, 0) + 1
                        # terms created by the instance may carry new decompositions
                        _register_shapes(one, bank)
            if len(instances) > limit:
                return instances, used
        if not new_formulas:
            break
        frontier = new_formulas
    return instances, used


def _register_shapes(formula: Any, bank: TermBank) -> None:
    """Register cons/snoc/concat shapes of sequence terms appearing in a rule instance."""
    stack = [formula]
    seen: set[int] = set()
    while stack:
        t = stack.pop()
        if t.get_id() in seen or not z3.is_app(t):
            continue
        seen.add(t.get_id())
        if t.decl().kind() == z3.Z3_OP_SEQ_CONCAT and t.num_args() == 2:
            a, b = t.arg(0), t.arg(1)
            if z3.is_app(a) and a.decl().kind() == z3.Z3_OP_SEQ_UNIT:
                bank.add(t, ("cons", a.arg(0), b))
            if z3.is_app(b) and b.decl().kind() == z3.Z3_OP_SEQ_UNIT:
                bank.add(t, ("snoc", a, b.arg(0)))
            bank.add(t, ("concat", a, b))
        stack.extend(t.children())
