"""Recursive spec functions as uninterpreted symbols plus rules instantiated by the generator.

A rule belongs to one spec function `f` and fires on an application f(args) found in a VC when
the argument at `pos` is known to have a given *shape*:
  'cons'   arg == [x] ++ r        parts (x, r)
  'snoc'   arg == s ++ [x]        parts (s, x)
  'concat' arg == a ++ b          parts (a, b)
  'empty'  arg == []              parts ()
  'app:g'  arg == g(...)          parts = g's arguments
  'always'                        parts ()
Shapes come from (1) the term's own syntax, (2) decompositions the executor registered in the
path's term bank when it popped / appended / iterated, (3) top-level equalities of the VC
(aliases), (4) right-hand sides of instances produced earlier (chaining).
The instance is   arg == shape_term  =>  f(args) == rhs(args, parts)   -- valid for every choice
of parts because rhs is the defining equation (kind='definition') or a lemma proved separately
(kind='lemma').  Instantiating at fewer terms can only lose proofs, never soundness."""
from __future__ import annotations

import os

from dataclasses import dataclass
from typing import Any, Callable, Sequence

import z3

from .core import TermBank, mk_cons, mk_snoc
from .values import Sort, V


@dataclass
class Rule:
    name: str
    pos: int
    shape: str
    rhs: Callable[[Sequence[Any], tuple], Any]
    kind: str = "definition"
    raw: bool = False  # rhs returns a whole formula (e.g. an implication) instead of the value of f(args)


class SpecFn:
    def __init__(self, name: str, arg_sorts: Sequence[Sort], ret: Sort) -> None:
        self.name = name
        self.arg_sorts = list(arg_sorts)
        self.ret = ret
        self.decl = z3.Function(name, *[s.z3() for s in arg_sorts], ret.z3())
        self.rules: list[Rule] = []

    def __call__(self, *args: V) -> V:
        ts = [s.coerce(a).term for s, a in zip(self.arg_sorts, args)]
        return self.ret.wrap(self.decl(*ts))

    def t(self, *terms: Any) -> Any:
        return self.decl(*terms)

    def rule(self, name: str, pos: int, shape: str, kind: str = "definition", raw: bool = False):
        def deco(fn: Callable[[Sequence[Any], tuple], Any]):
            self.rules.append(Rule(name, pos, shape, fn, kind, raw))
            return fn
        return deco


class SpecLib:
    def __init__(self) -> None:
        self.fns: dict[str, SpecFn] = {}
        self.by_decl: dict[int, SpecFn] = {}
        # area-specific instantiators for (proved) lemmas that are not equations f(args) == rhs:
        # fn(all_formulas) -> list of instances
        self.extra_instantiators: list[Callable[[Sequence[Any]], list[Any]]] = []

    def add(self, f: SpecFn) -> SpecFn:
        self.fns[f.name] = f
        self.by_decl[f.decl.get_id()] = f
        return f

    def fn(self, name: str, arg_sorts: Sequence[Sort], ret: Sort) -> SpecFn:
        return self.add(SpecFn(name, arg_sorts, ret))


def _is_seq(t: Any) -> bool:
    try:
        return z3.is_seq(t) and not z3.is_string(t)
    except Exception:
        return False


def syntactic_shapes(t: Any) -> list[tuple]:
    out: list[tuple] = []
    if not z3.is_app(t):
        return out
    k = t.decl().kind()
    if k == z3.Z3_OP_SEQ_EMPTY:
        out.append(("empty",))
    elif k == z3.Z3_OP_SEQ_UNIT:
        e = z3.Empty(t.sort())
        out.append(("cons", t.arg(0), e))
        out.append(("snoc", e, t.arg(0)))
    elif k == z3.Z3_OP_SEQ_CONCAT and t.num_args() == 2:
        a, b = t.arg(0), t.arg(1)
        if z3.is_app(a) and a.decl().kind() == z3.Z3_OP_SEQ_EMPTY:
            out.extend(syntactic_shapes(b))
        if z3.is_app(b) and b.decl().kind() == z3.Z3_OP_SEQ_EMPTY:
            out.extend(syntactic_shapes(a))
        if z3.is_app(a) and a.decl().kind() == z3.Z3_OP_SEQ_UNIT:
            out.append(("cons", a.arg(0), b))
        if z3.is_app(b) and b.decl().kind() == z3.Z3_OP_SEQ_UNIT:
            out.append(("snoc", a, b.arg(0)))
        out.append(("concat", a, b))
    elif k == z3.Z3_OP_SEQ_CONCAT and t.num_args() > 2:
        args = [t.arg(i) for i in range(t.num_args())]
        first, rest = args[0], (z3.Concat(*args[1:]) if len(args) > 2 else args[1])
        out.append(("concat", first, rest))
        if z3.is_app(first) and first.decl().kind() == z3.Z3_OP_SEQ_UNIT:
            out.append(("cons", first.arg(0), rest))
    return out


def shape_term(shape: tuple, sort: Any) -> Any:
    k = shape[0]
    if k == "cons":
        return mk_cons(shape[1], shape[2])
    if k == "snoc":
        return mk_snoc(shape[1], shape[2])
    if k == "concat":
        return z3.Concat(shape[1], shape[2])
    if k == "empty":
        return z3.Empty(sort)
    raise ValueError(k)


class _Matcher:
    def __init__(self, bank: TermBank, lib: SpecLib) -> None:
        self.bank = bank
        self.lib = lib
        self.alias: dict[int, list[Any]] = {}

    def add_alias(self, a: Any, b: Any) -> None:
        for x, y in ((a, b), (b, a)):
            lst = self.alias.setdefault(x.get_id(), [])
            if all(y.get_id() != z.get_id() for z in lst):
                lst.append(y)

    def learn_equalities(self, formulas: Sequence[Any]) -> None:
        for f in formulas:
            try:
                f = z3.simplify(f) if z3.is_not(f) else f
            except Exception:
                pass
            stack = [f]
            while stack:
                g = stack.pop()
                if z3.is_and(g):
                    stack.extend(g.children())
                elif z3.is_eq(g) and _is_seq(g.arg(0)):
                    self.add_alias(g.arg(0), g.arg(1))
                elif (z3.is_le(g) or z3.is_eq(g)) and z3.is_app(g.arg(0)) and g.arg(0).decl().kind() == z3.Z3_OP_SEQ_LENGTH \
                        and z3.is_int_value(g.arg(1)) and g.arg(1).as_long() == 0 and _is_seq(g.arg(0).arg(0)):
                    t = g.arg(0).arg(0)          # len(t) <= 0  /  len(t) == 0   =>   t == []
                    self.add_alias(t, z3.Empty(t.sort()))
                elif (z3.is_ge(g) or z3.is_eq(g)) and z3.is_app(g.arg(1)) and g.arg(1).decl().kind() == z3.Z3_OP_SEQ_LENGTH \
                        and z3.is_int_value(g.arg(0)) and g.arg(0).as_long() == 0 and _is_seq(g.arg(1).arg(0)):
                    t = g.arg(1).arg(0)          # 0 >= len(t)  /  0 == len(t)   =>   t == []
                    self.add_alias(t, z3.Empty(t.sort()))
                elif z3.is_not(g) and z3.is_app(g.arg(0)) and (z3.is_gt(g.arg(0)) or z3.is_ge(g.arg(0))):
                    h = z3.simplify(g)
                    if not z3.is_not(h):
                        stack.append(h)
                elif z3.is_implies(g):
                    # guarded instance: arg == shape => f(args) == rhs ; keep the conclusion as alias
                    c = g.arg(1)
                    if z3.is_eq(c) and _is_seq(c.arg(0)):
                        self.add_alias(c.arg(0), c.arg(1))

    def views(self, t: Any) -> list[Any]:
        out = [t]
        seen = {t.get_id()}
        frontier = [t]
        for _ in range(2):
            nxt = []
            for x in frontier:
                for y in self.alias.get(x.get_id(), []):
                    if y.get_id() not in seen:
                        seen.add(y.get_id())
                        out.append(y)
                        nxt.append(y)
            frontier = nxt
        return out

    def shapes(self, t: Any, kind: str) -> list[tuple]:
        res: list[tuple] = []
        keys: set[tuple] = set()
        for v in self.views(t):
            if kind.startswith("app:"):
                g = kind[4:]
                if z3.is_app(v) and v.decl().name() == g:
                    cand = [("app",) + tuple(v.children())]
                else:
                    cand = []
            else:
                cand = [s for s in syntactic_shapes(v) if s[0] == kind] + self.bank.get(v, kind)
            for s in cand:
                key = (s[0],) + tuple(p.get_id() for p in s[1:])
                if key not in keys:
                    keys.add(key)
                    res.append(s)
        return res


def _walk_apps(formulas: Sequence[Any], lib: SpecLib, seen_terms: set[int]):
    stack = list(formulas)
    while stack:
        t = stack.pop()
        tid = t.get_id()
        if tid in seen_terms:
            continue
        seen_terms.add(tid)
        if z3.is_quantifier(t):
            continue  # bound variables: nothing inside can be instantiated at the top level
        if z3.is_app(t):
            f = lib.by_decl.get(t.decl().get_id())
            if f is not None:
                yield f, t
            stack.extend(t.children())


# ---- shared sub-term index for area instantiators (per VC: reset at the start of instantiate) --------------------------------------------
_SUBTERMS: dict = {"top": set(), "seen": set(), "terms": [], "keep": []}


def subterms(formulas: Sequence[Any]) -> list[Any]:
    """Every application sub-term of the formulas handed to the instantiators of the current VC, each once (quantifier bodies excluded).
    The list of formulas only grows during one VC, so the walk is incremental."""
    st = _SUBTERMS
    stack = []
    for f in formulas:
        if f.get_id() not in st["top"]:
            st["top"].add(f.get_id())
            st["keep"].append(f)
            stack.append(f)
    seen, terms = st["seen"], st["terms"]
    while stack:
        f = stack.pop()
        if not z3.is_app(f) or f.get_id() in seen:
            continue
        seen.add(f.get_id())
        terms.append(f)
        stack.extend(f.children())
    return terms


def new_subterms(formulas: Sequence[Any], owner: str) -> tuple[list[Any], dict]:
    """The sub-terms `owner` has not been handed yet in this VC, and a dictionary in which it may keep what it collected from the earlier ones."""
    terms = subterms(formulas)
    st = _SUBTERMS.setdefault("owners", {}).setdefault(owner, {"pos": 0, "state": {}})
    fresh = terms[st["pos"]:]
    st["pos"] = len(terms)
    return fresh, st["state"]


def _reset_subterms() -> None:
    _SUBTERMS["top"], _SUBTERMS["seen"], _SUBTERMS["terms"], _SUBTERMS["keep"] = set(), set(), [], []
    _SUBTERMS["owners"] = {}


def _walk_contains(formulas: Sequence[Any], seen: set[int]):
    stack = list(formulas)
    while stack:
        t = stack.pop()
        if t.get_id() in seen:
            continue
        seen.add(t.get_id())
        if z3.is_quantifier(t) or not z3.is_app(t):
            continue
        if t.decl().kind() == z3.Z3_OP_SEQ_CONTAINS and _is_seq(t.arg(0)):
            yield t
        stack.extend(t.children())


def instantiate(hyps: Sequence[Any], goal: Any, bank: TermBank, lib: SpecLib, rounds: int = 6, limit: int = 3000,
                lemma_rules: set[str] | None = None):
    # lemma_rules: None = every rule may fire (function proofs; all lemmas are proved separately);
    # a set = only definitions plus the named lemma rules (used while proving a lemma: no circularity)
    """Generator-side E-matching: returns rule instances relevant to this VC."""
    m = _Matcher(bank, lib)
    m.learn_equalities(hyps)
    _reset_subterms()
    for ex in lib.extra_instantiators:
        getattr(ex, "reset", lambda: None)()          # per-VC state of an instantiator (pyvc.qpred)
    instances: list[Any] = []
    inst_keys: set[tuple] = set()
    seen_terms: set[int] = set()
    seen_contains: set[int] = set()
    ex_last: dict[int, int] = {}
    apps: list[tuple[SpecFn, Any]] = []
    frontier: list[Any] = list(hyps) + [goal]
    used: dict[str, int] = {}
    for _ in range(rounds):
        apps.extend(_walk_apps(frontier, lib, seen_terms))
        new_formulas: list[Any] = []
        for f, app in apps:
            args = app.children()
            # an if-then-else in a position rules match on hides the shape of both branches: lift it (pure congruence), the branches are matched next round
            for pos in sorted({r.pos for r in f.rules if r.shape != "always"}):
                for v in m.views(args[pos]):
                    if z3.is_app(v) and v.decl().kind() == z3.Z3_OP_ITE:
                        key = (app.get_id(), "ite-lift", pos, v.get_id())
                        if key in inst_keys:
                            continue
                        inst_keys.add(key)
                        a1 = list(args); a1[pos] = v.arg(1)
                        a2 = list(args); a2[pos] = v.arg(2)
                        concl = app == z3.If(v.arg(0), f.decl(*a1), f.decl(*a2))
                        inst = concl if v.get_id() == args[pos].get_id() else z3.Implies(args[pos] == v, concl)
                        instances.append(inst)
                        new_formulas.append(inst)
                        used["ite-lift"] = used.get("ite-lift", 0) + 1
            for r in f.rules:
                if lemma_rules is not None and r.kind == "lemma" and r.name not in lemma_rules:
                    continue
                if r.shape == "always":
                    shapes: list[tuple] = [("always",)]
                else:
                    shapes = m.shapes(args[r.pos], r.shape)
                for sh in shapes:
                    key = (app.get_id(), r.name) + tuple(p.get_id() for p in sh[1:])
                    if key in inst_keys:
                        continue
                    inst_keys.add(key)
                    rhs = r.rhs(args, sh[1:])
                    if rhs is None:
                        continue
                    concl = rhs if r.raw else app == rhs
                    if sh[0] in ("always", "app"):
                        inst = concl
                    else:
                        st = shape_term(sh, args[r.pos].sort())
                        inst = concl if st.get_id() == args[r.pos].get_id() else z3.Implies(args[r.pos] == st, concl)
                    instances.append(inst)
                    new_formulas.append(inst)
                    used[r.name] = used.get(r.name, 0) + 1
                    if _is_seq(app) and not r.raw:
                        m.add_alias(app, rhs)
            if len(instances) > limit:
                return instances, used
        # membership in a sequence term whose decomposition is known only through an alias (a rule instance f(..) == s ++ [k]): the solvers do not
        # rewrite under `Contains` reliably, so the decomposition is pushed through it here (valid facts of the sequence theory, guarded by the alias)
        for c in _walk_contains(frontier, seen_contains):
            T, u = c.arg(0), c.arg(1)
            if not (z3.is_app(u) and u.decl().kind() == z3.Z3_OP_SEQ_UNIT):
                continue
            if z3.is_app(T) and T.decl().kind() in (z3.Z3_OP_SEQ_CONCAT, z3.Z3_OP_SEQ_UNIT, z3.Z3_OP_SEQ_EMPTY):
                continue            # already syntactic: the solver handles it
            pe = u.arg(0)
            for kind_ in ("snoc", "cons"):
                for sh in m.shapes(T, kind_)[:2]:
                    st = shape_term(sh, T.sort())
                    rest, k_ = (sh[1], sh[2]) if kind_ == "snoc" else (sh[2], sh[1])
                    key = ("contains-lift", c.get_id(), st.get_id())
                    if key in inst_keys:
                        continue
                    inst_keys.add(key)
                    inst = z3.Implies(T == st, c == z3.Or(z3.Contains(rest, u), k_ == pe))
                    instances.append(inst)
                    new_formulas.append(inst)
                    used["contains-lift"] = used.get("contains-lift", 0) + 1
        for ex in lib.extra_instantiators:
            if lemma_rules is not None:
                # while a lemma is being proved only definitions are instantiated: an area instantiator that encodes proved lemmas (attribute `encodes`:
                # their names) is off unless the lemma lists all of them in `uses`, any other area instantiator is off unless marked `definitional` -- no circularity
                enc = getattr(ex, "encodes", None)
                if enc is not None:
                    if not set(enc) <= set(lemma_rules):
                        continue
                elif not getattr(ex, "definitional", False) and not hasattr(ex, "reset"):
                    continue          # neither a definition (QPred instantiators carry `reset`) nor declared: not available to lemma proofs
            allf = list(hyps) + [goal] + instances
            n_terms = len(subterms(allf))
            if ex_last.get(id(ex)) == n_terms:
                continue              # no new sub-term since this instantiator last ran in this VC: it has nothing new to say
            ex_last[id(ex)] = n_terms
            for inst in ex(allf):
                key = ("extra", inst.get_id())
                if key not in inst_keys:
                    inst_keys.add(key)
                    instances.append(inst)
                    new_formulas.append(inst)
                    used["extra"] = used.get("extra", 0) + 1
        if not new_formulas:
            break
        frontier = new_formulas
    return instances, used
