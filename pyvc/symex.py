"""Forward symbolic execution of real pyoak functions against sidecar contracts.

One `Machine` executes one function along one path per call of `run_path`; `core.explore`
replays it over all decision scripts.  See DESIGN.md section 2.3 for the Python semantics assumed.
"""
from __future__ import annotations

import ast
from typing import Any, Callable

import z3

from . import extract
from .contract import Contract, Loop, Registry
from .core import Infeasible, PathCtx, PathEnd, mk_cons, mk_snoc
from .values import (BOOL, INT, NONE, STR, EngineError, OptSort, RecSort, SeqSort, Sort, USort, V,
                     VBool, VBound, VCls, VExc, VHeapRef, VInt, VModule, VNone, VOpt, VPy, VRec,
                     VSeq, VStr, VTerm, VTuple, VU, fresh_name, get_sort, opt_of, same_sort_fresh,
                     seq_of)


class ReturnSig(Exception):
    def __init__(self, value: V) -> None:
        self.value = value


class BreakSig(Exception):
    pass


class ContinueSig(Exception):
    pass


class RaiseSig(Exception):
    def __init__(self, exc: VExc) -> None:
        self.exc = exc


BUILTIN_EXC = {
    "BaseException": None, "Exception": "BaseException", "ValueError": "Exception",
    "TypeError": "Exception", "KeyError": "LookupError", "IndexError": "LookupError",
    "LookupError": "Exception", "RuntimeError": "Exception", "NotImplementedError": "RuntimeError",
    "AttributeError": "Exception", "StopIteration": "Exception", "AssertionError": "Exception",
    "NameError": "Exception", "ZeroDivisionError": "ArithmeticError", "ArithmeticError": "Exception",
    "RecursionError": "RuntimeError", "UnicodeDecodeError": "ValueError",
}

LIST_MUTATORS = {"append", "appendleft", "pop", "popleft", "extend", "extendleft", "reverse", "clear",
                 "insert", "remove", "sort", "update", "add", "discard", "setdefault", "popitem"}


class World:
    """Static context shared by the functions of one verification area."""

    def __init__(self, registry: Registry) -> None:
        self.registry = registry
        self.spec_fns: dict[str, Callable[..., V]] = {}
        self.exc_parents: dict[str, str | None] = dict(BUILTIN_EXC)
        self.class_parents: dict[str, list[str]] = {}  # python class name -> direct bases
        self.class_module: dict[str, str] = {}  # python class name -> module holding its methods
        self.rec_of_class: dict[str, RecSort] = {}
        self.consts: dict[str, V] = {}
        self.axioms: list[Any] = []
        # plugin hooks; each returns None / NotImplemented to decline
        self.attr_hooks: list[Callable[["Machine", V, str], V | None]] = []
        self.call_hooks: list[Callable[["Machine", V, list[V], dict[str, V], ast.Call | None], Any]] = []
        self.isinstance_hooks: list[Callable[["Machine", V, str], Any]] = []
        self.truth_hooks: list[Callable[["Machine", V], Any]] = []
        self.str_hooks: list[Callable[["Machine", V], V | None]] = []
        self.eq_hooks: list[Callable[["Machine", V, V], Any]] = []
        self.name_hooks: list[Callable[["Machine", str], V | None]] = []
        self.trusted_notes: list[str] = []

    def is_subclass(self, a: str, b: str) -> bool:
        if a == b or b == "object":
            return True
        if a in self.exc_parents:
            p = self.exc_parents[a]
            return p is not None and self.is_subclass(p, b)
        return any(self.is_subclass(p, b) for p in self.class_parents.get(a, []))

    def mro_lookup(self, cls: str, name: str) -> str | None:
        """Find 'module:Class.name' contract key following the (linearised) base list."""
        seen: list[str] = []

        def walk(c: str) -> None:
            if c in seen:
                return
            seen.append(c)
            for p in self.class_parents.get(c, []):
                walk(p)

        walk(cls)
        for c in seen:
            mod = self.class_module.get(c)
            if mod is None:
                continue
            key = f"{mod}:{c}.{name}"
            if key in self.registry.contracts:
                return key
        return None


def _loops_in_order(fn: ast.FunctionDef) -> dict[int, int]:
    out: dict[int, int] = {}
    counter = [0]

    def visit(node: ast.AST) -> None:
        for child in ast.iter_child_nodes(node):
            if isinstance(child, (ast.FunctionDef, ast.AsyncFunctionDef, ast.Lambda, ast.ClassDef)):
                continue
            if isinstance(child, (ast.For, ast.While)):
                counter[0] += 1
                out[id(child)] = counter[0]
            visit(child)

    visit(fn)
    return out


_PURE_BUILTINS = {"len", "isinstance", "issubclass", "min", "max", "list", "tuple", "reversed", "enumerate", "zip", "any", "all", "str", "int", "hash", "type", "getattr",
                  "hasattr", "sorted", "set", "dict", "next", "iter", "id", "cast", "bool", "repr", "print", "range", "frozenset", "callable"}


def _assigned_names(stmts: list[ast.stmt]) -> set[str]:
    names: set[str] = set()

    def tgt(t: ast.AST) -> None:
        if isinstance(t, ast.Name):
            names.add(t.id)
        elif isinstance(t, (ast.Tuple, ast.List)):
            for e in t.elts:
                tgt(e)
        elif isinstance(t, ast.Starred):
            tgt(t.value)

    def visit(n: ast.AST) -> None:
        if isinstance(n, (ast.FunctionDef, ast.AsyncFunctionDef, ast.ClassDef)):
            names.add(n.name)
            return
        if isinstance(n, ast.Lambda):
            return
        if isinstance(n, ast.Assign):
            for t in n.targets:
                tgt(t)
        elif isinstance(n, (ast.AugAssign, ast.AnnAssign)):
            tgt(n.target)
        elif isinstance(n, (ast.For,)):
            tgt(n.target)
        elif isinstance(n, ast.NamedExpr):
            tgt(n.target)
        elif isinstance(n, ast.ExceptHandler) and n.name:
            names.add(n.name)
        for c in ast.iter_child_nodes(n):
            visit(c)

    for s in stmts:
        visit(s)
    return names


def _has_yield(node: ast.AST) -> bool:
    for n in ast.walk(node):
        if isinstance(n, (ast.Yield, ast.YieldFrom)):
            return True
    return False


def _fn_has_yield(fn: ast.FunctionDef) -> bool:
    def visit(n: ast.AST) -> bool:
        for c in ast.iter_child_nodes(n):
            if isinstance(c, (ast.FunctionDef, ast.AsyncFunctionDef, ast.Lambda, ast.ClassDef)):
                continue
            if isinstance(c, (ast.Yield, ast.YieldFrom)) or visit(c):
                return True
        return False

    return visit(fn)


def _holds_objects(sort: Any) -> bool:
    """a record sort with a (possibly optional / nested) component of an uninterpreted object sort"""
    if isinstance(sort, RecSort):
        return any(isinstance(fs, USort) or (isinstance(fs, OptSort) and isinstance(fs.elem, USort)) or _holds_objects(fs) for _, fs in sort.fields)
    return False


class Machine:
    def __init__(self, world: World, contract: Contract, mod: extract.ModuleSrc, fn: ast.FunctionDef) -> None:
        self.world = world
        self.contract = contract
        self.mod = mod
        self.fn = fn
        self.loop_ord = _loops_in_order(fn)
        self.is_gen = _fn_has_yield(fn) and not any("contextmanager" in ast.unparse(d) for d in fn.decorator_list)
        self.consts = extract.module_constants(mod)
        self.spec = False
        self.env: dict[str, V] = {}
        self.old_env: dict[str, V] = {}
        self.old_heap: dict[int, V] = {}
        self.ctx: PathCtx = None  # type: ignore[assignment]
        self.result: V | None = None
        self.global_syms: dict[str, V] = {}
        self.loop_fresh_names: dict[int, list[str]] = {}
        self.maybe_unbound: dict[str, Any] = {}
        self.call_ord: dict[str, int] = {}
        self.fn_short = contract.key
        self.entry_snapshot: dict[str, V] = {}
        self.ghost_env: dict[str, V] = {}
        self.in_handler: list[VExc] = []
        self.param_inputs: dict[str, V] = {}

    # ======================================================================================
    # entry
    # ======================================================================================
    def run_path(self, ctx: PathCtx) -> None:
        self.ctx = ctx
        self.env = {}
        self.call_ord = {}
        self.ghost_env = {}
        c = self.contract
        args = self.fn.args
        names = [a.arg for a in args.posonlyargs + args.args + args.kwonlyargs]
        if args.vararg:
            names.append(args.vararg.arg)
        if args.kwarg:
            names.append(args.kwarg.arg)
        for n in names:
            if n not in c.params:
                raise EngineError(f"{c.key}: parameter {n} has no sort in the contract")
            self.env[n] = self.fresh_of(c.params[n], n)
        for g, s in c.ghost.items():
            self.env[g] = self.fresh_of(s, g)
        self.global_syms = {}
        for g, s in c.globals.items():
            self.global_syms[g] = self.fresh_of(s, g.replace(".", "_"))
        self.param_inputs = {k: v for k, v in self.env.items()}
        if c.setup:
            c.setup(self)
        self.snapshot_old()
        for i, r in enumerate(c.requires):
            ctx.assume(self.spec_bool(r))
        if self.is_gen:
            rs = get_sort(c.returns or "Seq[int]")
            assert isinstance(rs, SeqSort)
            ctx.out = rs.empty()
        try:
            self.exec_block(self.fn.body)
            self.finish_normal(NONE)
        except ReturnSig as r:
            self.finish_normal(r.value)
        except RaiseSig as r:
            self.finish_raise(r.exc)

    def fresh_of(self, sortname: str, hint: str) -> V:
        if sortname.startswith("py:"):
            return VPy(sortname[3:])
        if sortname.startswith("cls:"):
            return VCls(sortname[4:])
        if sortname.startswith("Tuple["):
            inner = _split_top(sortname[6:-1])
            return VTuple(self.fresh_of(s, f"{hint}_{i}") for i, s in enumerate(inner))
        if sortname.startswith("List[") or sortname.startswith("Deque["):
            kind = "list" if sortname.startswith("List[") else "deque"
            es = get_sort(sortname[sortname.index("[") + 1:-1])
            return VHeapRef(self.ctx.alloc(kind, seq_of(es).fresh(hint)), kind)
        if sortname.startswith(("Dict[", "ODict[")):
            from .maps import MapSort, parse_container_sort
            ms = parse_container_sort(sortname.replace("ODict[", "Map[").replace("Dict[", "Map["))
            assert isinstance(ms, MapSort)
            extra = {"keys": seq_of(ms.key).fresh(hint + "_keys")} if sortname.startswith("ODict[") else {}
            return VHeapRef(self.ctx.alloc("dict", ms.fresh(hint), extra), "dict")
        if sortname.startswith("Set["):
            from .maps import SetSort, parse_container_sort
            ss = parse_container_sort(sortname)
            assert isinstance(ss, SetSort)
            return VHeapRef(self.ctx.alloc("set", ss.wrap(z3.Const(fresh_name(hint), ss.z3()))), "set")
        if sortname.startswith("Iter["):
            es = get_sort(sortname[5:-1])
            return VHeapRef(self.ctx.alloc("iter", seq_of(es).fresh(hint)), "iter")
        s = get_sort(sortname)
        v = s.fresh(hint)
        return v

    def snapshot_old(self) -> None:
        self.old_env = dict(self.env)
        self.old_heap = {a: c.value for a, c in self.ctx.heap.items()}
        self.old_extra = {a: dict(c.extra) for a, c in self.ctx.heap.items() if getattr(c, "extra", None)}
        self.old_globals = dict(self.global_syms)

    # ======================================================================================
    # exits
    # ======================================================================================
    def finish_normal(self, value: V) -> None:
        c = self.contract
        ctx = self.ctx
        if self.is_gen:
            value = ctx.out  # type: ignore[assignment]
        elif c.returns and isinstance(value, (VTuple, VNone)) and not c.returns.startswith(("Tuple[", "py:", "List[", "Deque[")):
            try:
                value = get_sort(c.returns).coerce(value)
            except EngineError:
                pass
        elif c.returns and isinstance(value, VU) and value.sort.name != c.returns and not c.returns.startswith(("Tuple[", "py:", "List[", "Deque[", "Opt[")):
            for h in getattr(self.world, "coerce_hooks", []):       # an opaque value returned where the contract declares its area model
                alt = h(self, value, c.returns)
                if alt is not None:
                    value = alt
                    break
        self.result = value
        # raising clauses: on a normal return none of the raise conditions held at entry
        for exc, cond in c.raises:
            if cond.strip() == "*" or cond.strip().startswith("only:"):      # "only: c" = may be raised, and only when c held at entry
                continue
            ctx.check(z3.Not(self.spec_bool(cond, old=True)), f"{c.key}/raises[{exc}]/not-on-return", "raises")
        for u in c.use:
            ctx.assume(self.spec_bool(u))
        for i, e in enumerate(c.ensures):
            ctx.check(self.spec_bool(e), f"{c.key}/post[{i}]", "post")
        self.check_global_frame("normal")
        # frame of container parameters: a dict / set parameter that the contract does not list in `modifies` is handed to callers' proofs by reference and
        # assumed untouched there, so the body must leave it as it was
        for pn, sname in c.params.items():
            if sname.startswith(("Dict[", "ODict[", "Set[")) and pn not in c.modifies:
                v0 = self.param_inputs.get(pn)
                if isinstance(v0, VHeapRef) and v0.addr in self.old_heap:
                    cell = ctx.cell(v0.addr)
                    same = cell.value.term == self.old_heap[v0.addr].term
                    k0 = getattr(self, "old_extra", {}).get(v0.addr, {}).get("keys")
                    if k0 is not None and "keys" in cell.extra:
                        same = z3.And(same, cell.extra["keys"].term == k0.term)
                    ctx.check(same, f"{c.key}/frame/parameter-{pn}-unchanged", "frame")
        if c.post_hook is not None:
            for name, goal in c.post_hook(self):
                ctx.check(goal, f"{c.key}/{name}", "post")
        ctx.canary_points += 1

    def check_global_frame(self, which: str) -> None:
        """A symbolic global the contract declares but does not list in `modifies` is assumed untouched by every caller: the body must leave it as it was."""
        c = self.contract
        for g in c.globals:
            if g in c.modifies:
                continue
            v0, v1 = self.old_globals.get(g), self.global_syms.get(g)
            if v0 is None or v1 is None:
                continue
            if isinstance(v1, VHeapRef) and isinstance(v0, VHeapRef):
                if v1.addr != v0.addr:
                    self.ctx.check(z3.BoolVal(False), f"{c.key}/frame/global-{g}-rebound-but-not-in-modifies[{which}]", "frame")
                    continue
                cell = self.ctx.cell(v1.addr)
                if v1.addr in self.old_heap and cell.value is not None and self.old_heap[v1.addr] is not None:
                    same = cell.value.term == self.old_heap[v1.addr].term
                    k0 = getattr(self, "old_extra", {}).get(v1.addr, {}).get("keys")
                    if k0 is not None and "keys" in cell.extra:
                        same = z3.And(same, cell.extra["keys"].term == k0.term)
                    if not z3.is_true(z3.simplify(same)):
                        self.ctx.check(same, f"{c.key}/frame/global-{g}-unchanged[{which}]", "frame")
            elif isinstance(v1, VTerm) and isinstance(v0, VTerm):
                same = v1.term == v0.term
                if not z3.is_true(z3.simplify(same)):
                    self.ctx.check(same, f"{c.key}/frame/global-{g}-unchanged[{which}]", "frame")

    def finish_raise(self, exc: VExc) -> None:
        c = self.contract
        ctx = self.ctx
        matched = False
        self.check_global_frame("raise")
        for i, e in enumerate(c.exc_ensures):
            ctx.check(self.spec_bool(e), f"{c.key}/exc-post[{i}]", "exc-post")
        for ecls, cond in c.raises:
            if self.world.is_subclass(exc.cls, ecls) and ecls == exc.cls or exc.cls == ecls:
                if cond.strip() != "*":
                    condt = self.spec_bool(cond.strip()[5:] if cond.strip().startswith("only:") else cond, old=True)
                    ctx.check(condt, f"{c.key}/raises[{ecls}]/only-when", "raises")
                matched = True
                break
        if not matched:
            if any(self.world.is_subclass(exc.cls, m) for m in c.may_raise):
                return
            ctx.check(z3.BoolVal(False), f"{c.key}/raises[unexpected {exc.cls}]", "raises")

    # ======================================================================================
    # spec-mode evaluation
    # ======================================================================================
    def spec_bool(self, src: str, old: bool = False, extra: dict[str, V] | None = None) -> Any:
        v = self.spec_eval(src, old=old, extra=extra)
        return self.truth(v)

    def spec_eval(self, src: str, old: bool = False, extra: dict[str, V] | None = None) -> V:
        tree = ast.parse(src.strip(), mode="eval").body
        saved = (self.spec, self.env)
        self.spec = True
        env = dict(self.old_env if old else self.env)
        env.update(self.ghost_env)
        if extra:
            env.update(extra)
        self.env = env
        self._spec_old_mode = old
        try:
            return self.eval(tree)
        finally:
            self.spec, self.env = saved
            self._spec_old_mode = False

    _spec_old_mode = False

    # ======================================================================================
    # statements
    # ======================================================================================
    def exec_block(self, stmts: list[ast.stmt]) -> None:
        for s in stmts:
            self.exec_stmt(s)

    def exec_stmt(self, s: ast.stmt) -> None:
        m = getattr(self, "st_" + type(s).__name__, None)
        if m is None:
            raise EngineError(f"{self.contract.key}: statement {type(s).__name__} not modelled (line {s.lineno})")
        m(s)

    def st_Pass(self, s: ast.Pass) -> None:
        pass

    def st_Import(self, s: ast.AST) -> None:
        pass

    st_ImportFrom = st_Import
    st_Global = st_Import
    st_Nonlocal = st_Import

    def st_Expr(self, s: ast.Expr) -> None:
        if isinstance(s.value, ast.Constant):
            return  # docstring
        if self._is_logging(s.value):
            return
        self.eval(s.value)

    def _is_logging(self, e: ast.AST) -> bool:
        return (isinstance(e, ast.Call) and isinstance(e.func, ast.Attribute)
                and isinstance(e.func.value, ast.Name) and e.func.value.id == "logger")

    def st_FunctionDef(self, s: ast.FunctionDef) -> None:
        self.env[s.name] = VPy(("closure", s, self.env))

    def st_Assign(self, s: ast.Assign) -> None:
        hint = None
        if len(s.targets) == 1 and isinstance(s.targets[0], ast.Name):
            hint = self.contract.locals.get(s.targets[0].id)
        elif len(s.targets) == 1 and isinstance(s.targets[0], ast.Attribute):
            hint = self.contract.locals.get("." + s.targets[0].attr)
        v = self.eval(s.value, hint)
        for t in s.targets:
            self.assign(t, v)

    def st_AnnAssign(self, s: ast.AnnAssign) -> None:
        if s.value is None:
            return
        hint = self.contract.locals.get(s.target.id) if isinstance(s.target, ast.Name) else (
            self.contract.locals.get("." + s.target.attr) if isinstance(s.target, ast.Attribute) else None)
        self.assign(s.target, self.eval(s.value, hint))

    def st_AugAssign(self, s: ast.AugAssign) -> None:
        cur = self.eval(s.target)  # type: ignore[arg-type]
        rhs = self.eval(s.value)
        self.assign(s.target, self.binop(s.op, cur, rhs, s))

    def assign(self, t: ast.AST, v: V) -> None:
        if isinstance(t, ast.Name):
            self.maybe_unbound.pop(t.id, None)
            decl = self.contract.locals.get(t.id)
            if decl and not self.spec and not decl.startswith(("List[", "Deque[", "Dict[", "Set[", "Iter[", "py:", "Tuple[")):
                v = self.coerce_decl(v, decl)
            self.env[t.id] = v
        elif isinstance(t, (ast.Tuple, ast.List)):
            items = self.unpack(v, len(t.elts))
            for e, i in zip(t.elts, items):
                self.assign(e, i)
        elif isinstance(t, ast.Subscript):
            self.store_subscript(t, v)
        elif isinstance(t, ast.Attribute):
            self.store_attr(t, v)
        else:
            raise EngineError(f"assignment target {type(t).__name__} not modelled")

    def coerce_decl(self, v: V, decl: str) -> V:
        try:
            return get_sort(decl).coerce(v)
        except EngineError:
            for h in getattr(self.world, "coerce_hooks", []):
                alt = h(self, v, decl)
                if alt is not None:
                    return alt
            return v

    def coerce_elem(self, sort: Any, v: V) -> V:
        """sort.coerce(v), with the area's coerce hooks as fallback (also component-wise for a tuple yielded into a record sort)."""
        try:
            return sort.coerce(v)
        except EngineError:
            hooks = getattr(self.world, "coerce_hooks", [])
            for h in hooks:
                alt = h(self, v, sort.name)
                if alt is not None:
                    return sort.coerce(alt)
            if isinstance(v, VTuple) and isinstance(sort, RecSort) and len(v.items) == len(sort.fields):
                items = []
                for it, (_, fs) in zip(v.items, sort.fields):
                    try:
                        items.append(fs.coerce(it))
                    except EngineError:
                        alt = next((a for a in (h(self, it, fs.name) for h in hooks) if a is not None), None)
                        if alt is None:
                            raise
                        items.append(fs.coerce(alt))
                return sort.coerce(VTuple(items))
            raise

    def unpack(self, v: V, n: int) -> list[V]:
        if isinstance(v, VOpt):
            if not self.spec and not self.ctx.branch(z3.Not(v.sort.is_none(v.term))):
                raise RaiseSig(VExc("TypeError"))
            v = v.sort.elem.wrap(v.sort.val(v.term))
        if isinstance(v, VTuple):
            if len(v.items) != n:
                raise EngineError("tuple unpack arity")
            return v.items
        if isinstance(v, VRec) and v.sort.tuple_like and len(v.sort.fields) == n:
            return [v.sort.get(v.term, fn) for fn, _ in v.sort.fields]
        raise EngineError(f"cannot unpack {v!r} into {n}")

    def store_attr(self, t: ast.Attribute, v: V) -> None:
        obj = self.eval(t.value)
        for h in self.world.call_hooks:
            r = h(self, VPy(("setattr",)), [obj, VPy(t.attr), v], {}, None)
            if r is not NotImplemented:
                return
        raise EngineError(f"store to attribute {t.attr} of {obj!r} not modelled")

    def store_subscript(self, t: ast.Subscript, v: V) -> None:
        obj = self.eval(t.value)
        if isinstance(obj, VHeapRef):
            cell = self.ctx.cell(obj.addr)
            if cell.kind in ("list", "deque"):
                idx = self.eval(t.slice)
                seq: VSeq = cell.value
                n = z3.Length(seq.term)
                if not isinstance(idx, VInt):
                    raise EngineError("list store with non-int index")
                i = z3.simplify(z3.If(idx.term < 0, n + idx.term, idx.term))
                if not self.ctx.branch(z3.And(i >= 0, i < n)):
                    raise RaiseSig(VExc("IndexError"))
                es = seq.sort.elem
                new = z3.Concat(z3.Extract(seq.term, z3.IntVal(0), i), z3.Unit(es.coerce(v).term),
                                z3.Extract(seq.term, i + 1, n - i - 1))
                # common case ret[-1] = x : snoc form
                if z3.is_true(z3.simplify(i == n - 1)):
                    rest = seq.sort.fresh("init")
                    last = es.fresh("last")
                    self.ctx.assume(seq.term == mk_snoc(rest.term, last.term))
                    self.ctx.bank.add(seq.term, ("snoc", rest.term, last.term))
                    new = mk_snoc(rest.term, es.coerce(v).term)
                    self.ctx.bank.add(new, ("snoc", rest.term, es.coerce(v).term))
                cell.value = VSeq(new, seq.sort)
                return
            if cell.kind == "dict":
                from .maps import dict_store
                dict_store(self, cell, self.eval(t.slice), v)
                return
        raise EngineError(f"subscript store on {obj!r} not modelled")

    def st_Return(self, s: ast.Return) -> None:
        hint = self.contract.returns if isinstance(s.value, (ast.Dict, ast.List)) and self.contract.returns and self.contract.returns.startswith(("Dict[", "ODict[", "List[", "Seq[")) else None
        raise ReturnSig(self.eval(s.value, hint) if s.value is not None else NONE)

    def st_Raise(self, s: ast.Raise) -> None:
        if s.exc is None:
            if self.in_handler:
                raise RaiseSig(self.in_handler[-1])
            raise EngineError("bare raise outside handler")
        v = self.eval(s.exc)
        if isinstance(v, VCls):
            v = VExc(v.name)
        if not isinstance(v, VExc):
            raise EngineError(f"raise of {v!r}")
        raise RaiseSig(v)

    def st_Assert(self, s: ast.Assert) -> None:
        t = self.truth(self.eval(s.test))
        if not self.ctx.branch(t):
            raise RaiseSig(VExc("AssertionError"))

    def st_If(self, s: ast.If) -> None:
        if self._is_debug_guard(s.test):
            self.exec_block(s.orelse)
            return
        cond = self.truth(self.eval(s.test))
        if self.ctx.branch(cond):
            self.exec_block(s.body)
        else:
            self.exec_block(s.orelse)

    def _is_debug_guard(self, test: ast.AST) -> bool:
        src = ast.unparse(test)
        return src in ("config.TRACE_LOGGING", "TRACE_LOGGING", "config.CODEGEN_DEBUG", "TYPE_CHECKING", "t.TYPE_CHECKING") or "logger.isEnabledFor" in src

    def st_Try(self, s: ast.Try) -> None:
        def run_final() -> None:
            if s.finalbody:
                self.exec_block(s.finalbody)

        try:
            try:
                self.exec_block(s.body)
            except RaiseSig as r:
                handled = False
                for h in s.handlers:
                    if self.handler_matches(h, r.exc):
                        handled = True
                        if h.name:
                            self.env[h.name] = r.exc
                        self.in_handler.append(r.exc)
                        try:
                            self.exec_block(h.body)
                        finally:
                            self.in_handler.pop()
                        break
                if not handled:
                    raise
            else:
                self.exec_block(s.orelse)
        except (RaiseSig, ReturnSig, BreakSig, ContinueSig):
            run_final()
            raise
        run_final()

    def handler_matches(self, h: ast.ExceptHandler, exc: VExc) -> bool:
        if h.type is None:
            return True
        types = h.type.elts if isinstance(h.type, ast.Tuple) else [h.type]
        for t in types:
            name = t.id if isinstance(t, ast.Name) else (t.attr if isinstance(t, ast.Attribute) else None)
            if name is None:
                raise EngineError("except clause type")
            if self.world.is_subclass(exc.cls, name):
                return True
        return False

    def st_With(self, s: ast.With) -> None:
        """`with helper(args):` where helper is a @contextmanager generator of the same module:
        the helper's body is executed inline and the with-body runs at its `yield`, so exceptions
        of the body propagate through the helper's own try/finally exactly as in Python."""
        if len(s.items) != 1 or not isinstance(s.items[0].context_expr, ast.Call):
            raise EngineError("with statement shape not modelled")
        call = s.items[0].context_expr
        name = call.func.id if isinstance(call.func, ast.Name) else (call.func.attr if isinstance(call.func, ast.Attribute) else None)
        helper = None
        for n in ast.walk(self.mod.tree):
            if isinstance(n, ast.FunctionDef) and n.name == name and any("contextmanager" in ast.unparse(d) for d in n.decorator_list):
                helper = n
        if helper is None:
            raise EngineError(f"with {name}: not a @contextmanager generator of this module")
        args = [self.eval(a) for a in call.args]
        kwargs = {k.arg: self.eval(k.value) for k in call.keywords}
        pos = [a.arg for a in helper.args.posonlyargs + helper.args.args]
        if pos and pos[0] in ("self", "cls") and isinstance(call.func, ast.Attribute):
            args = [self.eval(call.func.value)] + args
        env = dict(zip(pos, args))
        env.update(kwargs)
        defaults = dict(zip(reversed(pos), reversed(helper.args.defaults)))
        for n_, d in defaults.items():
            if n_ not in env:
                env[n_] = self.eval(d)
        for a_, d in zip(helper.args.kwonlyargs, helper.args.kw_defaults):
            if a_.arg not in env and d is not None:
                env[a_.arg] = self.eval(d)
        caller_env = self.env
        saved_hook = getattr(self, "_with_hook", None)
        self._with_hook = (s, caller_env)
        self.env = env
        try:
            try:
                self.exec_block(helper.body)
            except ReturnSig:
                pass
        finally:
            self.env = caller_env
            self._with_hook = saved_hook

    def st_Delete(self, s: ast.Delete) -> None:
        for t in s.targets:
            if isinstance(t, ast.Subscript):
                obj = self.eval(t.value)
                if isinstance(obj, VHeapRef) and self.ctx.cell(obj.addr).kind == "dict":
                    from .maps import dict_delete
                    dict_delete(self, self.ctx.cell(obj.addr), self.eval(t.slice))
                    continue
            raise EngineError("del not modelled")

    # ---- loops ---------------------------------------------------------------------------
    def loop_contract(self, node: ast.AST) -> tuple[int, Loop]:
        k = self.loop_ord[id(node)]
        lc = self.contract.loops.get(k)
        if lc is None:
            raise EngineError(f"{self.contract.key}: loop {k} (line {node.lineno}) has no invariant")  # type: ignore[attr-defined]
        return k, lc

    def mutated_cells(self, body: list[ast.stmt]) -> set[int]:
        cells: set[int] = set()
        for st in body:
            for n in ast.walk(st):
                if isinstance(n, ast.Call):
                    f = n.func
                    if isinstance(f, ast.Attribute) and f.attr in LIST_MUTATORS and isinstance(f.value, ast.Name):
                        v = self.env.get(f.value.id)
                        if isinstance(v, VHeapRef):
                            cells.add(v.addr)
                    elif isinstance(f, ast.Name):
                        v = self.env.get(f.id)
                        if isinstance(v, VBound) and isinstance(v.recv, VHeapRef) and v.name in LIST_MUTATORS:
                            cells.add(v.recv.addr)
                        if f.id == "next" and n.args and isinstance(n.args[0], ast.Name):
                            a = self.env.get(n.args[0].id)
                            if isinstance(a, VHeapRef):
                                cells.add(a.addr)
                elif isinstance(n, (ast.Subscript,)) and isinstance(n.ctx, (ast.Store, ast.Del)) and isinstance(n.value, ast.Name):
                    v = self.env.get(n.value.id)
                    if isinstance(v, VHeapRef):
                        cells.add(v.addr)
                elif isinstance(n, ast.Subscript) and isinstance(n.ctx, (ast.Store, ast.Del)) and isinstance(n.value, ast.Attribute):
                    v = self._try_static_container(n.value)
                    if v is not None:
                        cells.add(v.addr)
                    else:
                        raise EngineError(f"loop body stores into {ast.unparse(n.value)}, which the engine cannot resolve to a container")
                if isinstance(n, ast.Call) and isinstance(n.func, ast.Attribute) and n.func.attr in LIST_MUTATORS and isinstance(n.func.value, ast.Attribute):
                    v = self._try_static_container(n.func.value)
                    if v is not None:
                        cells.add(v.addr)
                elif isinstance(n, ast.For) and isinstance(n.iter, ast.Name):
                    v = self.env.get(n.iter.id)
                    if isinstance(v, VHeapRef) and v.kind == "iter":
                        cells.add(v.addr)
        for g in self.mutated_globals(body):
            v = self.global_syms.get(g)
            if isinstance(v, VHeapRef):
                cells.add(v.addr)
            elif isinstance(v, VTerm):
                self.global_syms[g] = same_sort_fresh(v, g)        # a global held as a value (not a container cell): unconstrained at the loop head
        return cells

    def _try_static_container(self, e: ast.Attribute) -> VHeapRef | None:
        """x.attr where x is a bound name and attr resolves (through the area's hooks) to a container."""
        if not isinstance(e.value, ast.Name) or e.value.id not in self.env:
            return None
        try:
            v = self.getattr(self.env[e.value.id], e.attr)
        except (EngineError, RaiseSig):
            return None
        return v if isinstance(v, VHeapRef) else None

    def mutated_globals(self, body: list[ast.stmt]) -> set[str]:
        out: set[str] = set()
        for st in body:
            for n in ast.walk(st):
                if isinstance(n, ast.Call):
                    f = n.func
                    if isinstance(f, ast.Attribute) and f.attr in LIST_MUTATORS and isinstance(f.value, ast.Name) and f.value.id in self.global_syms:
                        out.add(f.value.id)
                    # calls to contracted functions that modify globals
                    name = ast.unparse(f)
                    key = self.resolve_contract_key_static(name)
                    if key:
                        out.update(self.world.registry.contracts[key].modifies)
                    elif self.contract.modifies and not (isinstance(f, ast.Name) and f.id in _PURE_BUILTINS) \
                            and not (isinstance(f, ast.Attribute) and f.attr in LIST_MUTATORS and isinstance(f.value, ast.Name) and f.value.id not in self.global_syms) \
                            and not self._is_logging(n):
                        # a method call, a call through a hook (object.__setattr__, cls.method) or any other call that is not resolved here: whatever this
                        # function may modify, the loop body may modify (sound over-approximation; a loop that leaves a global alone says so in its invariant)
                        out.update(self.contract.modifies)
                elif isinstance(n, (ast.Assign, ast.AugAssign, ast.AnnAssign)) and self.contract.modifies and any(
                        isinstance(t_, ast.Attribute) for t_ in (n.targets if isinstance(n, ast.Assign) else [n.target])):
                    out.update(self.contract.modifies)
                elif isinstance(n, ast.Subscript) and isinstance(n.ctx, (ast.Store, ast.Del)) and isinstance(n.value, ast.Name) and n.value.id in self.global_syms:
                    out.add(n.value.id)
        return out

    def resolve_contract_key_static(self, name: str) -> str | None:
        k = f"{self.contract.module}:{name}"
        if k in self.world.registry.contracts:
            return k
        return None

    def havoc_for_loop(self, body: list[ast.stmt], extra_cells: set[int], k: int) -> None:
        for n in sorted(_assigned_names(body)):
            if n not in self.env and n in self.contract.locals and self.contract.locals[n].startswith(("List[", "Deque[")):
                # first bound inside the loop: after the havoc it holds the previous iteration's value -- or nothing at all when no
                # iteration has run yet (reads are guarded by `maybe_unbound`, see ex_Name)
                self.env[n] = self.fresh_of(self.contract.locals[n], n)
                self.loop_fresh_names.setdefault(k, []).append(n)
                continue
            if n in self.env:
                v = self.env[n]
                decl = self.contract.locals.get(n)
                if decl and not isinstance(v, VHeapRef):
                    self.env[n] = self.fresh_of(decl, n)
                elif isinstance(v, VHeapRef):
                    # re-bound to a container created in an earlier iteration: a new cell with
                    # unconstrained content (assumes the body does not leak that container elsewhere)
                    old = self.ctx.cell(v.addr)
                    if old.kind == "dict":
                        raise EngineError(f"loop {k}: dict variable {n} is re-assigned in the loop body")
                    self.env[n] = VHeapRef(self.ctx.alloc(old.kind, same_sort_fresh(old.value, n)), old.kind)
                else:
                    self.env[n] = same_sort_fresh(v, n)
        for a in sorted(self.mutated_cells(body) | extra_cells):
            cell = self.ctx.cell(a)
            if cell.kind == "dict":
                from .maps import havoc_dict
                havoc_dict(self, cell)
            else:
                cell.value = same_sort_fresh(cell.value, f"{cell.kind}{a}")
        if self.ctx.out is not None and any(_has_yield(b) for b in body):
            self.ctx.out = same_sort_fresh(self.ctx.out, "out")  # type: ignore[assignment]

    def entry_ghosts(self, k: int) -> None:
        """<name>_at<k>: the value a container held when loop k was entered."""
        for n, v in list(self.env.items()):
            if isinstance(v, VHeapRef):
                self.ghost_env[f"{n}_at{k}"] = self.ctx.cell(v.addr).value
            elif isinstance(v, VTerm):
                self.ghost_env[f"{n}_at{k}"] = v
        if self.ctx.out is not None:
            self.ghost_env[f"out_at{k}"] = self.ctx.out

    def check_inv(self, k: int, lc: Loop, phase: str) -> None:
        for u in lc.use:
            self.ctx.assume(self.spec_bool(u))
        for i, inv in enumerate(lc.inv):
            self.ctx.check(self.spec_bool(inv), f"{self.contract.key}/loop{k}/{phase}[{i}]", "invariant")

    def assume_inv(self, lc: Loop) -> None:
        for inv in lc.inv:
            self.ctx.assume(self.spec_bool(inv))
        for u in lc.use:
            self.ctx.assume(self.spec_bool(u))

    def st_While(self, s: ast.While) -> None:
        k, lc = self.loop_contract(s)
        self.entry_ghosts(k)
        self.check_inv(k, lc, "init")
        self.havoc_for_loop(s.body, set(), k)
        self.assume_inv(lc)
        measure0 = self.spec_eval(lc.decreases) if lc.decreases else None
        head_env = dict(self.env)
        self.ghost_env[f"head{k}"] = VPy(("headenv", head_env, {a: c.value for a, c in self.ctx.heap.items()}))
        cond = self.truth(self.eval(s.test))
        if self.ctx.branch(cond):
            try:
                self.exec_block(s.body)
            except ContinueSig:
                pass
            except BreakSig:
                return
            self.check_inv(k, lc, "preserve")
            if measure0 is not None:
                m1 = self.spec_eval(lc.decreases)  # type: ignore[arg-type]
                assert isinstance(measure0, VInt) and isinstance(m1, VInt)
                self.ctx.check(z3.And(measure0.term >= 0, m1.term < measure0.term), f"{self.contract.key}/loop{k}/decreases", "decreases")
            raise PathEnd()
        else:
            # `while xs:` left because xs is empty: the container is literally []
            if isinstance(s.test, ast.Name):
                v = self.env.get(s.test.id)
                if isinstance(v, VHeapRef) and self.ctx.cell(v.addr).kind in ("list", "deque"):
                    self.ctx.cell(v.addr).value = self.ctx.cell(v.addr).value.sort.empty()
            self.exec_block(s.orelse)

    def st_For(self, s: ast.For) -> None:
        it = self.eval(s.iter)
        # concrete tuples: unroll
        if isinstance(it, VTuple):
            for item in it.items:
                self.assign(s.target, item)
                try:
                    self.exec_block(s.body)
                except ContinueSig:
                    continue
                except BreakSig:
                    return
            self.exec_block(s.orelse)
            return
        k, lc = self.loop_contract(s)
        streams = self.open_streams(it)  # list of (addr of iter cell, elem wrapper)
        seq_sorts = [self.ctx.cell(a).value.sort for a, _ in streams["cells"]]
        for j, (a, _) in enumerate(streams["cells"]):
            suffix = "" if j == 0 else f"_{j + 1}"
            self.ghost_env[f"seq{k}{suffix}"] = self.ctx.cell(a).value
        dones = [ss.empty() for ss in seq_sorts]

        def bind_ghosts() -> None:
            for j, (a, _) in enumerate(streams["cells"]):
                suffix = "" if j == 0 else f"_{j + 1}"
                self.ghost_env[f"done{k}{suffix}"] = dones[j]
                self.ghost_env[f"rest{k}{suffix}"] = self.ctx.cell(a).value

        bind_ghosts()
        self.entry_ghosts(k)
        self.check_inv(k, lc, "init")
        self.havoc_for_loop(s.body + [ast.Assign(targets=[s.target], value=ast.Constant(0), lineno=0)] if False else s.body,
                            {a for a, _ in streams["cells"]}, k)
        for n in _assigned_names([ast.For(target=s.target, iter=s.iter, body=[], orelse=[], lineno=0)]):
            if n in self.env:
                self.env[n] = same_sort_fresh(self.env[n], n)
        dones = [ss.fresh(f"done{k}") for ss in seq_sorts]
        # done ++ rest == the iterated sequence (for streams opened here)
        for j, (a, owned) in enumerate(streams["cells"]):
            if owned:
                full = self.ghost_env[f"seq{k}" + ("" if j == 0 else f"_{j + 1}")]
                self.ctx.assume(full.term == z3.Concat(dones[j].term, self.ctx.cell(a).value.term))  # type: ignore[union-attr]
                self.ctx.bank.add(full.term, ("concat", dones[j].term, self.ctx.cell(a).value.term))  # type: ignore[union-attr]
        bind_ghosts()
        for n in self.loop_fresh_names.get(k, []):
            self.maybe_unbound[n] = z3.Length(dones[0].term) > 0
        self.assume_inv(lc)
        rests = [self.ctx.cell(a).value for a, _ in streams["cells"]]
        nonempty = [z3.Length(r.term) > 0 for r in rests]
        # zip stops at the shortest; strict zip raises on a length mismatch
        go = z3.And(*nonempty) if len(nonempty) > 1 else nonempty[0]
        if self.ctx.branch(go):
            items: list[V] = []
            for j, (a, _) in enumerate(streams["cells"]):
                cell = self.ctx.cell(a)
                r: VSeq = cell.value
                es = r.sort.elem
                x = es.fresh("x")
                r2 = r.sort.fresh("rest")
                self.ctx.assume(r.term == mk_cons(x.term, r2.term))  # type: ignore[union-attr]
                self.ctx.bank.add(r.term, ("cons", x.term, r2.term))  # type: ignore[union-attr]
                self.ctx.bank.add(mk_cons(x.term, r2.term), ("cons", x.term, r2.term))  # type: ignore[union-attr]
                cell.value = r2
                d2 = VSeq(mk_snoc(dones[j].term, x.term), r.sort)  # type: ignore[union-attr]
                self.ctx.bank.add(d2.term, ("snoc", dones[j].term, x.term))  # type: ignore[union-attr]
                items.append(x)
                self.ghost_env[f"prev_done{k}" + ("" if j == 0 else f"_{j + 1}")] = dones[j]
                dones[j] = d2
                if streams["cells"][j][1]:
                    full = self.ghost_env[f"seq{k}" + ("" if j == 0 else f"_{j + 1}")]
                    self.ctx.bank.add(full.term, ("concat", d2.term, r2.term))  # type: ignore[union-attr]
            self.assign(s.target, streams["shape"](items, [self.ghost_env[f"prev_done{k}"]]))
            bind_ghosts()
            try:
                self.exec_block(s.body)
            except ContinueSig:
                pass
            except BreakSig:
                return
            bind_ghosts()
            self.check_inv(k, lc, "preserve")
            raise PathEnd()
        else:
            if len(streams["cells"]) == 1:
                a, owned = streams["cells"][0]
                r = self.ctx.cell(a).value
                self.ctx.assume(z3.Length(r.term) == 0)
                self.ctx.cell(a).value = r.sort.empty()
                if owned:
                    full = self.ghost_env[f"seq{k}"]
                    self.ctx.assume(full.term == dones[0].term)  # type: ignore[union-attr]
            elif streams.get("strict"):
                if not self.ctx.branch(z3.And(*[z3.Length(r.term) == 0 for r in rests])):
                    raise RaiseSig(VExc("ValueError"))
                for j, (a, owned) in enumerate(streams["cells"]):
                    r = self.ctx.cell(a).value
                    self.ctx.cell(a).value = r.sort.empty()
                    if owned:
                        full = self.ghost_env[f"seq{k}" + ("" if j == 0 else f"_{j + 1}")]
                        self.ctx.assume(full.term == dones[j].term)  # type: ignore[union-attr]
            bind_ghosts()
            self.exec_block(s.orelse)

    def open_streams(self, it: V) -> dict[str, Any]:
        """Turn an iterable into iterator cells.  Returns cells [(addr, owned)], a `shape`
        function building the loop target from the popped items, and the strict flag of zip."""
        def cell_of(v: V) -> tuple[int, bool]:
            if isinstance(v, VHeapRef):
                c = self.ctx.cell(v.addr)
                if c.kind == "iter":
                    return v.addr, False
                if c.kind in ("list", "deque"):
                    return self.ctx.alloc("iter", c.value), True
                if c.kind == "dict":
                    from .maps import dict_keys
                    return self.ctx.alloc("iter", dict_keys(self, c)), True
            if isinstance(v, VSeq):
                return self.ctx.alloc("iter", v), True
            if isinstance(v, VPy) and isinstance(v.obj, tuple) and v.obj[0] == "reversed":
                inner = v.obj[1]
                sv0 = self.seq_value(inner) if not isinstance(inner, VSeq) else inner
                revf = self.world.spec_fns.get("rev_of")
                if sv0 is None or revf is None:
                    raise EngineError("iteration over reversed(x) needs the spec function rev_of(sequence)")
                return self.ctx.alloc("iter", revf(sv0)), True
            if isinstance(v, VOpt) and isinstance(v.sort.elem, SeqSort):  # narrowed by an earlier `is None` test
                return self.ctx.alloc("iter", v.sort.elem.wrap(v.sort.val(v.term))), True
            for h in getattr(self.world, "iter_hooks", []):     # area model of an opaque value that is a sequence (list / tuple held in a field)
                r = h(self, v)
                if r is not None:
                    return self.ctx.alloc("iter", r), True
            raise EngineError(f"cannot iterate over {v!r}")

        if isinstance(it, VPy) and isinstance(it.obj, tuple) and it.obj[0] == "enumerate":
            a = cell_of(it.obj[1])
            return {"cells": [a], "shape": lambda items, dones: VTuple([VInt(z3.Length(dones[0].term)), items[0]])}
        if isinstance(it, VPy) and isinstance(it.obj, tuple) and it.obj[0] == "zip":
            cells = [cell_of(x) for x in it.obj[1]]
            return {"cells": cells, "shape": lambda items, dones: VTuple(items), "strict": it.obj[2]}
        if isinstance(it, VPy) and isinstance(it.obj, tuple) and it.obj[0] == "dict_items":
            from .maps import dict_items_stream
            return dict_items_stream(self, it.obj[1])
        a = cell_of(it)
        return {"cells": [a], "shape": lambda items, dones: items[0]}

    def st_Break(self, s: ast.Break) -> None:
        raise BreakSig()

    def st_Continue(self, s: ast.Continue) -> None:
        raise ContinueSig()

    # ======================================================================================
    # expressions
    # ======================================================================================
    def eval(self, e: ast.AST, hint: str | None = None) -> V:
        m = getattr(self, "ex_" + type(e).__name__, None)
        if m is None:
            raise EngineError(f"{self.contract.key}: expression {type(e).__name__} not modelled: {ast.unparse(e)[:80]}")
        if hint is not None and isinstance(e, (ast.List, ast.Dict, ast.Call, ast.Set, ast.Tuple, ast.ListComp, ast.DictComp)):
            return m(e, hint)
        return m(e)

    def ex_Constant(self, e: ast.Constant, hint: str | None = None) -> V:
        v = e.value
        if v is None:
            return NONE
        if isinstance(v, bool):
            return VBool(v)
        if isinstance(v, int):
            return VInt(v)
        if isinstance(v, str):
            return VStr(v)
        if v is Ellipsis:
            return VPy(Ellipsis)
        raise EngineError(f"constant {v!r}")

    def ex_Name(self, e: ast.Name, hint: str | None = None) -> V:
        n = e.id
        if not self.spec and n in self.maybe_unbound:
            cond = self.maybe_unbound[n]
            if not self.ctx.branch(cond):
                raise RaiseSig(VExc("UnboundLocalError"))
            self.maybe_unbound.pop(n, None)
        if n in self.env:
            v = self.env[n]
            if self.spec and isinstance(v, VHeapRef):
                return self.deref_spec(v)
            return v
        if self.spec:
            if n == "result":
                if self.result is None:
                    raise EngineError("`result` used outside a postcondition")
                r = self.result
                return self.deref_spec(r) if isinstance(r, VHeapRef) else r
            if n == "out" and self.ctx.out is not None:
                return self.ctx.out
            if n in self.world.spec_fns:
                return VPy(("specfn", self.world.spec_fns[n]))
            if n in ("old", "implies", "at_head"):
                return VPy((n,))
        return self.resolve_global(n)

    def deref_spec(self, v: VHeapRef) -> V:
        if self._spec_old_mode:
            if v.addr in self.old_heap:
                return self.old_heap[v.addr]
        return self.ctx.cell(v.addr).value

    def resolve_global(self, n: str) -> V:
        for h in self.world.name_hooks:
            r = h(self, n)
            if r is not None:
                return r
        if n in self.global_syms:
            v = self.global_syms[n]
            if self.spec and self._spec_old_mode and n in getattr(self, "old_globals", {}):
                v = self.old_globals[n]
            if self.spec and isinstance(v, VHeapRef):
                return self.deref_spec(v)
            return v
        if n in self.world.consts:
            return self.world.consts[n]
        if n in self.consts:
            c = self.consts[n]
            if isinstance(c, bool):
                return VBool(c)
            if isinstance(c, int):
                return VInt(c)
            if isinstance(c, str):
                return VStr(c)
        if n in self.world.exc_parents or n in self.world.class_parents or n in self.world.rec_of_class:
            return VCls(n)
        key = f"{self.contract.module}:{n}"
        if key in self.world.registry.contracts:
            return VPy(("contract", key))
        # function defined in another module but imported here
        for k in self.world.registry.contracts:
            if k.split(":")[1] == n:
                return VPy(("contract", k))
        if n in ("len", "isinstance", "min", "max", "list", "tuple", "reversed", "enumerate", "zip", "any", "all",
                 "str", "int", "hash", "type", "getattr", "hasattr", "sorted", "set", "dict", "next", "iter", "deque", "id",
                 "cast", "issubclass", "object", "bool", "super", "replace", "print", "id", "Deque", "setattr", "repr"):
            return VPy(("builtin", n))
        if n in ("config", "hashlib", "typing", "t", "logging"):
            return VModule(n)
        raise EngineError(f"{self.contract.key}: unresolved name {n}")

    def ex_Tuple(self, e: ast.Tuple, hint: str | None = None) -> V:
        if any(isinstance(x, ast.Starred) for x in e.elts):
            # (*xs, y, ...) with a symbolic sequence xs: the concatenation, as a sequence value
            parts_v = [(True, self.eval(x.value)) if isinstance(x, ast.Starred) else (False, self.eval(x)) for x in e.elts]
            seqs = [self.seq_value(v) if not isinstance(v, VSeq) else v for st, v in parts_v if st]
            if any(sv is not None for sv in seqs) and not all(isinstance(v, VTuple) for st, v in parts_v if st):
                ssort = next(sv for sv in seqs if sv is not None).sort
                terms = []
                for st, v in parts_v:
                    if st:
                        sv = self.seq_value(v) if not isinstance(v, VSeq) else v
                        if sv is None:
                            sv = ssort.coerce(v)
                        terms.append(sv.term)
                    else:
                        terms.append(z3.Unit(ssort.elem.coerce(v).term))
                t = terms[0] if len(terms) == 1 else z3.Concat(*terms)
                if len(terms) == 2 and not parts_v[1][0]:
                    self.ctx.bank.add(t, ("snoc", terms[0], terms[1].arg(0)))
                return VSeq(t, ssort)
        items: list[V] = []
        for x in e.elts:
            if isinstance(x, ast.Starred):
                sv = self.eval(x.value)
                if isinstance(sv, VTuple):
                    items.extend(sv.items)
                else:
                    raise EngineError("starred non-tuple in tuple display")
            else:
                items.append(self.eval(x))
        return VTuple(items)

    def ex_List(self, e: ast.List, hint: str | None = None) -> V:
        items = [self.eval(x) for x in e.elts]
        return self.new_list(items, hint, "list")

    def new_list(self, items: list[V], hint: str | None, kind: str) -> V:
        if hint and "[" in hint:
            es = get_sort(hint[hint.index("[") + 1:-1])
        elif items and not isinstance(items[0], VTerm):
            return VTuple(items)  # a display of class objects / constants, only ever read: treated as a tuple
        elif items and isinstance(items[0], VTerm):
            es = items[0].sort
        else:
            if self.spec:
                raise EngineError(f"{self.contract.key}: element sort of a new {kind} is unknown")
            # an empty list whose element sort is fixed by the first append
            return VHeapRef(self.ctx.alloc(kind, None, {"untyped": True}), kind)
        sv = seq_of(es).coerce(VTuple(items))
        if self.spec:
            return sv
        return VHeapRef(self.ctx.alloc(kind, sv), kind)

    def ex_Dict(self, e: ast.Dict, hint: str | None = None) -> V:
        hook = getattr(self.world, "dict_display_hook", None)
        if hook is not None:
            r = hook(self, e, hint)
            if r is not None:
                return r
        if hint and hint.startswith("const:") and not e.keys:
            return self.world.consts[hint[6:]]
        if hint is None and not e.keys and "EMPTY_DICT" in self.world.consts:
            return self.world.consts["EMPTY_DICT"]
        from .maps import new_dict
        return new_dict(self, e, hint)

    def ex_JoinedStr(self, e: ast.JoinedStr, hint: str | None = None) -> V:
        if not getattr(self, "_in_fstring_hook", False):
            for h in getattr(self.world, "fstring_hooks", []):     # an area may name the formatted text (after checking it against its definition)
                self._in_fstring_hook = True
                try:
                    r = h(self, e)
                finally:
                    self._in_fstring_hook = False
                if r is not None:
                    return r
        parts: list[Any] = []
        for v in e.values:
            if isinstance(v, ast.Constant):
                parts.append(z3.StringVal(v.value))
            elif isinstance(v, ast.FormattedValue):
                if v.format_spec is not None:
                    raise EngineError("format spec in f-string")
                parts.append(self.to_str(self.eval(v.value), v.conversion).term)
        if not parts:
            return VStr("")
        return VStr(parts[0] if len(parts) == 1 else z3.Concat(*parts))

    def to_str(self, v: V, conversion: int = -1) -> VStr:
        if isinstance(v, VStr) and conversion in (-1, ord("s")):
            return v
        if isinstance(v, VInt):
            t = v.term
            return VStr(z3.If(t >= 0, z3.IntToStr(t), z3.Concat(z3.StringVal("-"), z3.IntToStr(-t))))
        for h in self.world.str_hooks:
            r = h(self, v)
            if r is not None:
                return r  # type: ignore[return-value]
        if isinstance(v, VOpt) and isinstance(v.sort.elem, type(INT)) or (isinstance(v, VOpt) and v.sort.elem == STR):
            inner = self.to_str(v.sort.elem.wrap(v.sort.val(v.term)), conversion)
            return VStr(z3.If(v.sort.is_none(v.term), z3.StringVal("None"), inner.term))
        # str()/repr() of any other object: an unconstrained string (sound over-approximation;
        # areas that need the value install a str hook)
        return VStr(z3.String(fresh_name("str_of")))

    def ex_IfExp(self, e: ast.IfExp, hint: str | None = None) -> V:
        c = self.truth(self.eval(e.test))
        if self.spec:
            a, b = self.eval(e.body), self.eval(e.orelse)
            return self.ite(c, a, b)
        if self.ctx.branch(c):
            return self.eval(e.body)
        return self.eval(e.orelse)

    def ite(self, c: Any, a: V, b: V) -> V:
        if isinstance(a, VTerm) and isinstance(b, VTerm) and a.sort == b.sort:
            return a.sort.wrap(z3.If(c, a.term, b.term))
        if isinstance(a, VTerm) and isinstance(b, VNone):
            o = opt_of(a.sort) if not isinstance(a.sort, OptSort) else a.sort
            return o.wrap(z3.If(c, o.coerce(a).term, o.none().term))
        if isinstance(b, VTerm) and isinstance(a, VNone):
            o = opt_of(b.sort) if not isinstance(b.sort, OptSort) else b.sort
            return o.wrap(z3.If(c, o.none().term, o.coerce(b).term))
        if isinstance(a, VTerm) and isinstance(b, VTerm):
            if isinstance(a.sort, OptSort) and a.sort.elem == b.sort:
                return a.sort.wrap(z3.If(c, a.term, a.sort.coerce(b).term))
            if isinstance(b.sort, OptSort) and b.sort.elem == a.sort:
                return b.sort.wrap(z3.If(c, b.sort.coerce(a).term, b.term))
            if isinstance(a.sort, SeqSort) or isinstance(b.sort, SeqSort):
                pass
        if isinstance(a, VTuple) and isinstance(b, VTerm) and isinstance(b.sort, SeqSort):
            return b.sort.wrap(z3.If(c, b.sort.coerce(a).term, b.term))
        if isinstance(b, VTuple) and isinstance(a, VTerm) and isinstance(a.sort, SeqSort):
            return a.sort.wrap(z3.If(c, a.term, a.sort.coerce(b).term))
        if isinstance(a, VTuple) and isinstance(b, VTuple) and len(a.items) == len(b.items):
            return VTuple(self.ite(c, x, y) for x, y in zip(a.items, b.items))
        raise EngineError(f"if-expression over {a!r} / {b!r}")

    def ex_BoolOp(self, e: ast.BoolOp, hint: str | None = None) -> V:
        is_and = isinstance(e.op, ast.And)
        if self.spec:
            ts = [self.truth(self.eval(v)) for v in e.values]
            return VBool(z3.And(*ts) if is_and else z3.Or(*ts))
        cur: V = NONE
        for i, ve in enumerate(e.values):
            cur = self.eval(ve)
            if i == len(e.values) - 1:
                return cur
            t = self.truth(cur)
            if is_and:
                if not self.ctx.branch(t):
                    return cur
            else:
                if self.ctx.branch(t):
                    return cur
        return cur

    def ex_UnaryOp(self, e: ast.UnaryOp, hint: str | None = None) -> V:
        v = self.eval(e.operand)
        if isinstance(e.op, ast.Not):
            return VBool(z3.Not(self.truth(v)))
        if isinstance(e.op, ast.USub) and isinstance(v, VInt):
            return VInt(-v.term)
        raise EngineError("unary op")

    def ex_BinOp(self, e: ast.BinOp, hint: str | None = None) -> V:
        return self.binop(e.op, self.eval(e.left), self.eval(e.right), e)

    def binop(self, op: ast.operator, a: V, b: V, node: ast.AST) -> V:
        if isinstance(a, VBool):
            a = INT.coerce(a)
        if isinstance(b, VBool):
            b = INT.coerce(b)
        if isinstance(a, VInt) and isinstance(b, VInt):
            if isinstance(op, ast.Add):
                return VInt(a.term + b.term)
            if isinstance(op, ast.Sub):
                return VInt(a.term - b.term)
            if isinstance(op, ast.Mult):
                return VInt(a.term * b.term)
            if isinstance(op, (ast.FloorDiv, ast.Mod)):
                if not self.spec and not self.ctx.branch(b.term != 0):
                    raise RaiseSig(VExc("ZeroDivisionError"))
                # Python floor semantics for positive divisors; general case via z3 div for b>0
                q = z3.If(b.term > 0, a.term / b.term, -((-a.term) / (-b.term)) if False else (a.term / b.term))
                if isinstance(op, ast.FloorDiv):
                    return VInt(q)
                return VInt(a.term - b.term * q)
        if isinstance(op, ast.Mult) and isinstance(a, VStr) and isinstance(b, VInt) and z3.is_string_value(a.term) and z3.is_int_value(z3.simplify(b.term)):
            return VStr(a.term.as_string() * z3.simplify(b.term).as_long())
        if isinstance(op, ast.Add):
            if isinstance(a, VStr) and isinstance(b, VStr):
                return VStr(z3.Concat(a.term, b.term))
            if isinstance(a, VSeq) and isinstance(b, VSeq) and a.sort == b.sort:
                t = z3.Concat(a.term, b.term)
                self.ctx.bank.add(t, ("concat", a.term, b.term))
                return VSeq(t, a.sort)
            if isinstance(a, VSeq) and isinstance(b, VTuple):
                return self.binop(op, a, a.sort.coerce(b), node)
            if isinstance(a, VTuple) and isinstance(b, VSeq):
                return self.binop(op, b.sort.coerce(a), b, node)
            if isinstance(a, VTuple) and isinstance(b, VTuple):
                return VTuple(a.items + b.items)
            # user-defined __add__
            for h in getattr(self.world, "binop_hooks", []):
                r = h(self, op, a, b)
                if r is not None:
                    return r
            r = self.call_dunder(a, "__add__", [b])
            if r is not None:
                return r
        for h in getattr(self.world, "binop_hooks_sub", []):
            r = h(self, op, a, b)
            if r is not None:
                return r
        raise EngineError(f"binary {type(op).__name__} on {a!r}, {b!r}")

    def call_dunder(self, recv: V, name: str, args: list[V]) -> V | None:
        cls = self.py_class_of(recv)
        if cls is None:
            return None
        key = self.world.mro_lookup(cls, name)
        if key is None:
            return None
        return self.call_contract(key, [recv] + args, {})

    def py_class_of(self, v: V) -> str | None:
        if isinstance(v, VRec):
            return v.sort.pycls
        return None

    # ---- truthiness ----------------------------------------------------------------------
    def truth(self, v: V) -> Any:
        if isinstance(v, VBool):
            return v.term
        if isinstance(v, VInt):
            return v.term != 0
        if isinstance(v, VStr):
            return z3.Length(v.term) > 0
        if isinstance(v, VNone):
            return z3.BoolVal(False)
        if isinstance(v, VSeq):
            return z3.Length(v.term) > 0
        if isinstance(v, VTuple):
            return z3.BoolVal(len(v.items) > 0)
        if isinstance(v, VHeapRef):
            c = self.ctx.cell(v.addr)
            if c.kind in ("list", "deque", "iter"):
                if c.kind == "iter":
                    return z3.BoolVal(True)
                if c.value is None:
                    return z3.BoolVal(False)
                return z3.Length(c.value.term) > 0
            if c.kind == "dict":
                from .maps import dict_nonempty
                return dict_nonempty(self, c)
            if c.kind == "set":
                # non-empty iff it has a member: b => w is a member (skolem witness); not b => the set is the empty set
                b = z3.Bool(fresh_name("set_nonempty"))
                w = z3.Const(fresh_name("set_witness"), c.value.sort.key.z3())
                self.ctx.assume(z3.Implies(b, z3.Select(c.value.term, w)))
                self.ctx.assume(z3.Implies(z3.Not(b), c.value.term == z3.K(c.value.sort.key.z3(), z3.BoolVal(False))))
                return b
        for h in self.world.truth_hooks:
            r = h(self, v)
            if r is not None:
                return r
        if isinstance(v, VOpt):
            inner = v.sort.elem.wrap(v.sort.val(v.term))
            return z3.And(z3.Not(v.sort.is_none(v.term)), self.truth(inner))
        if isinstance(v, VRec):
            if v.sort.truthy == "true":
                return z3.BoolVal(True)
        if isinstance(v, VU):
            if v.sort.truthy == "true":
                return z3.BoolVal(True)
        if isinstance(v, (VCls, VPy, VBound, VExc)):
            return z3.BoolVal(True)
        raise EngineError(f"truthiness of {v!r} not modelled")

    # ---- comparisons ---------------------------------------------------------------------
    def ex_Compare(self, e: ast.Compare, hint: str | None = None) -> V:
        left = self.eval(e.left)
        result: Any = None
        for op, rhs_e in zip(e.ops, e.comparators):
            right = self.eval(rhs_e)
            t = self.compare(op, left, right)
            if result is None:
                result = t
            else:
                result = z3.And(result, t)
            if not self.spec and len(e.ops) > 1:
                if not self.ctx.branch(result):
                    return VBool(False)
                result = z3.BoolVal(True)
            left = right
        return VBool(result)

    def is_none_term(self, v: V) -> Any:
        if isinstance(v, VNone):
            return z3.BoolVal(True)
        if isinstance(v, VOpt):
            return v.sort.is_none(v.term)
        for h in getattr(self.world, "none_hooks", []):
            r = h(self, v)
            if r is not None:
                return r
        return z3.BoolVal(False)   # values of the other sorts denote objects (where None is possible the sort is Opt[...] or an area hook says so)

    def compare(self, op: ast.cmpop, a: V, b: V) -> Any:
        if isinstance(op, (ast.Is, ast.IsNot)):
            t = self.identical(a, b)
            return t if isinstance(op, ast.Is) else z3.Not(t)
        if isinstance(op, (ast.Eq, ast.NotEq)):
            t = self.equal(a, b)
            return t if isinstance(op, ast.Eq) else z3.Not(t)
        if isinstance(op, (ast.In, ast.NotIn)):
            t = self.contains(b, a)
            return t if isinstance(op, ast.In) else z3.Not(t)
        a2, b2 = a, b
        if isinstance(a2, VBool):
            a2 = INT.coerce(a2)
        if isinstance(b2, VBool):
            b2 = INT.coerce(b2)
        if isinstance(a2, VInt) and isinstance(b2, VInt):
            return {ast.Lt: a2.term < b2.term, ast.LtE: a2.term <= b2.term,
                    ast.Gt: a2.term > b2.term, ast.GtE: a2.term >= b2.term}[type(op)]
        # rich comparison through the contracted dunder, with CPython's reflected fallback
        name, refl = {ast.Lt: ("__lt__", "__gt__"), ast.LtE: ("__le__", "__ge__"),
                      ast.Gt: ("__gt__", "__lt__"), ast.GtE: ("__ge__", "__le__")}[type(op)]
        for h in getattr(self.world, "order_hooks", []):
            t = h(self, op, a, b)
            if t is not None:
                return t
        r = self.call_dunder(a, name, [b])
        if r is None:
            r = self.call_dunder(b, refl, [a])
        if r is None:
            raise EngineError(f"comparison {name} on {a!r}, {b!r}")
        return self.truth(r)

    def identical(self, a: V, b: V) -> Any:
        if isinstance(a, VNone) or isinstance(b, VNone):
            return z3.And(self.is_none_term(a), self.is_none_term(b))
        if isinstance(a, VOpt) and isinstance(b, VOpt) and a.sort == b.sort:
            return a.term == b.term
        if isinstance(a, VOpt) and isinstance(b, VTerm) and a.sort.elem == b.sort:
            return a.term == a.sort.some(b).term
        if isinstance(b, VOpt) and isinstance(a, VTerm) and b.sort.elem == a.sort:
            return b.term == b.sort.some(a).term
        if isinstance(a, VU) and isinstance(b, VU) and a.sort == b.sort:
            return a.term == b.term
        if isinstance(a, VCls) and isinstance(b, VCls):
            return z3.BoolVal(a.name == b.name)
        if isinstance(a, VBool) and isinstance(b, VBool):
            return a.term == b.term
        for h in self.world.eq_hooks:
            r = h(self, a, b)
            if r is not None and r is not NotImplemented:
                return r
        if isinstance(a, VPy) and isinstance(b, VPy):
            return z3.BoolVal(a.obj is b.obj or a.obj == b.obj)
        if isinstance(a, VTerm) and isinstance(b, VTerm) and a.sort == b.sort and isinstance(a.sort, RecSort):
            # identity of records is not modelled; only singletons may be compared with `is`
            raise EngineError(f"`is` on records of sort {a.sort.name}")
        if isinstance(a, VTerm) and isinstance(b, VTerm) and a.sort != b.sort:
            return z3.BoolVal(False)
        raise EngineError(f"`is` on {a!r}, {b!r}")

    def equal(self, a: V, b: V) -> Any:
        if not self.spec:
            # Python-level == on objects with a user-defined __eq__ (area hook); spec-level == is identity
            for h in getattr(self.world, "py_eq_hooks", []):
                r = h(self, a, b)
                if r is not None and r is not NotImplemented:
                    return r
            # Optional operands: Python compares the objects themselves, so a user-defined __eq__ applies to the wrapped values too
            if (isinstance(a, VOpt) or isinstance(b, VOpt)) and getattr(self.world, "py_eq_hooks", []):
                ua = a.sort.elem.wrap(a.sort.val(a.term)) if isinstance(a, VOpt) else a
                ub = b.sort.elem.wrap(b.sort.val(b.term)) if isinstance(b, VOpt) else b
                inner = None
                for h in self.world.py_eq_hooks:
                    r = h(self, ua, ub)
                    if r is not None and r is not NotImplemented:
                        inner = r
                        break
                if inner is not None:
                    na = a.sort.is_none(a.term) if isinstance(a, VOpt) else z3.BoolVal(False)
                    nb = b.sort.is_none(b.term) if isinstance(b, VOpt) else z3.BoolVal(False)
                    return z3.Or(z3.And(na, nb), z3.And(z3.Not(na), z3.Not(nb), inner))
        for h in self.world.eq_hooks:
            r = h(self, a, b)
            if r is not None and r is not NotImplemented:
                return r
        if isinstance(a, VHeapRef) and self.spec:
            a = self.deref_spec(a)
        if isinstance(b, VHeapRef) and self.spec:
            b = self.deref_spec(b)
        if isinstance(a, VNone) or isinstance(b, VNone):
            return z3.And(self.is_none_term(a), self.is_none_term(b))
        if isinstance(a, VBool) and isinstance(b, VInt):
            a = INT.coerce(a)
        if isinstance(b, VBool) and isinstance(a, VInt):
            b = INT.coerce(b)
        if isinstance(a, VTerm) and isinstance(b, VTerm):
            if a.sort == b.sort:
                return a.term == b.term
            if isinstance(a.sort, OptSort) and a.sort.elem == b.sort:
                return a.term == a.sort.some(b).term
            if isinstance(b.sort, OptSort) and b.sort.elem == a.sort:
                return b.term == b.sort.some(a).term
            return z3.BoolVal(False)
        if isinstance(a, VTuple) and isinstance(b, VTuple):
            if len(a.items) != len(b.items):
                return z3.BoolVal(False)
            return z3.And(*[self.equal(x, y) for x, y in zip(a.items, b.items)]) if a.items else z3.BoolVal(True)
        if isinstance(a, VTuple) and isinstance(b, VTerm):
            return b.sort.coerce(a).term == b.term
        if isinstance(b, VTuple) and isinstance(a, VTerm):
            return a.sort.coerce(b).term == a.term
        if isinstance(a, VCls) and isinstance(b, VCls):
            return z3.BoolVal(a.name == b.name)
        if isinstance(a, VPy) and isinstance(b, VPy):
            return z3.BoolVal(a.obj == b.obj)
        raise EngineError(f"== on {a!r}, {b!r}")

    def contains(self, container: V, item: V) -> Any:
        if isinstance(container, VHeapRef):
            c = self.ctx.cell(container.addr)
            if c.kind == "dict":
                from .maps import dict_contains
                return dict_contains(self, c, item)
            if c.kind == "set":
                from .maps import set_contains
                return set_contains(self, c, item)
            container = c.value
        from .maps import VMap, map_contains
        if isinstance(container, VMap):
            return map_contains(self, container, item)
        if isinstance(container, VTuple):
            if not container.items:
                return z3.BoolVal(False)
            return z3.Or(*[self.equal(item, x) for x in container.items])
        if isinstance(container, VSeq):
            if not self.spec:
                for h in getattr(self.world, "py_in_hooks", []):
                    r = h(self, container, item)
                    if r is not None:
                        return r
            it = container.sort.elem.coerce(item)
            if not self.spec and getattr(self.world, "py_eq_hooks", []) and _holds_objects(container.sort.elem):
                # Python's `in` compares with ==; for records (tuples) holding objects with a user-defined __eq__ that is not term identity
                raise EngineError(f"`in` on a sequence of {container.sort.elem.name} records holding objects with user-defined equality (needs an area hook)")
            return z3.Contains(container.term, z3.Unit(it.term))
        r = self.call_dunder(container, "__contains__", [item])
        if r is not None:
            return self.truth(r)
        for h in getattr(self.world, "contains_hooks", []):
            t = h(self, container, item)
            if t is not None:
                return t
        raise EngineError(f"`in` on {container!r}")

    # ---- attribute / subscript -----------------------------------------------------------
    def ex_Attribute(self, e: ast.Attribute, hint: str | None = None) -> V:
        obj = self.eval(e.value)
        return self.getattr(obj, e.attr)

    def getattr(self, obj: V, name: str) -> V:
        for h in self.world.attr_hooks:
            r = h(self, obj, name)
            if r is not None:
                return r
        if isinstance(obj, VOpt):
            if not self.spec:
                if not self.ctx.branch(z3.Not(obj.sort.is_none(obj.term))):
                    raise RaiseSig(VExc("AttributeError"))
            return self.getattr(obj.sort.elem.wrap(obj.sort.val(obj.term)), name)
        if isinstance(obj, VRec):
            if obj.sort.has(name):
                return obj.sort.get(obj.term, name)
            if name == "__class__" and obj.sort.pycls:
                return VCls(obj.sort.pycls)
            if obj.sort.pycls:
                key = self.world.mro_lookup(obj.sort.pycls, name)
                if key is not None:
                    c = self.world.registry.contracts[key]
                    if "property" in c.note.replace(";", " ").split():
                        return self.call_contract(key, [obj], {})
                    return VBound(obj, name)
        if isinstance(obj, VHeapRef):
            return VBound(obj, name)
        if isinstance(obj, VU):
            cls = getattr(self.world, "usort_class", {}).get(obj.sort.name)
            if cls and self.world.mro_lookup(cls, name):
                key = self.world.mro_lookup(cls, name)
                if "property" in self.world.registry.contracts[key].note.replace(";", " ").split():
                    return self.call_contract(key, [obj], {})
                return VBound(obj, name)
        if isinstance(obj, VModule):
            g = f"{obj.name}.{name}"
            if g in self.global_syms:
                return self.global_syms[g]
            return VPy(("modattr", obj.name, name))
        if isinstance(obj, VCls):
            if name == "__name__":
                return VStr(obj.name)
            return VPy(("clsattr", obj.name, name))
        if isinstance(obj, VPy) and obj.obj == ("builtin", "object"):
            return VPy(("clsattr", "object", name))
        if isinstance(obj, VExc):
            if name == "message":
                return VStr(z3.String(fresh_name("excmsg")))
            if name == "args":
                return VTuple(obj.args)
        if isinstance(obj, VTuple) and name in ("index", "count"):
            return VBound(obj, name)
        if isinstance(obj, (VSeq, VStr)):
            return VBound(obj, name)
        raise EngineError(f"{self.contract.key}: attribute {name} of {obj!r} not modelled")

    def ex_Subscript(self, e: ast.Subscript, hint: str | None = None) -> V:
        obj = self.eval(e.value)
        if isinstance(e.slice, ast.Slice):
            return self.slice(obj, e.slice)
        idx = self.eval(e.slice)
        return self.index(obj, idx)

    def seq_value(self, obj: V) -> VSeq | None:
        if isinstance(obj, VSeq):
            return obj
        if isinstance(obj, VHeapRef):
            c = self.ctx.cell(obj.addr)
            if c.kind in ("list", "deque"):
                return c.value
        for h in getattr(self.world, "iter_hooks", []):         # opaque value that an area models as a sequence
            r = h(self, obj)
            if r is not None:
                return r
        return None

    def index(self, obj: V, idx: V) -> V:
        if isinstance(obj, VTuple):
            if isinstance(idx, VInt) and z3.is_int_value(z3.simplify(idx.term)):
                i = z3.simplify(idx.term).as_long()
                if -len(obj.items) <= i < len(obj.items):
                    return obj.items[i]
                raise RaiseSig(VExc("IndexError"))
            raise EngineError("symbolic index into a Python tuple")
        if isinstance(obj, VRec) and obj.sort.tuple_like and isinstance(idx, VInt):
            i = z3.simplify(idx.term).as_long()
            fn = obj.sort.fields[i][0]
            return obj.sort.get(obj.term, fn)
        if isinstance(obj, VHeapRef) and self.ctx.cell(obj.addr).kind == "dict":
            from .maps import dict_getitem
            return dict_getitem(self, self.ctx.cell(obj.addr), idx)
        from .maps import VMap, map_getitem
        if isinstance(obj, VMap):
            return map_getitem(self, obj, idx)
        s = self.seq_value(obj)
        if s is not None and isinstance(idx, VInt) and z3.is_int_value(z3.simplify(idx.term)) and z3.simplify(idx.term).as_long() == 0 and not self.spec:
            # s[0]: head/tail decomposition instead of an index term
            if not self.ctx.branch(z3.Length(s.term) > 0):
                raise RaiseSig(VExc("IndexError"))
            x = s.sort.elem.fresh("hd")
            r = s.sort.fresh("tl")
            self.ctx.assume(s.term == mk_cons(x.term, r.term))
            self.ctx.bank.add(s.term, ("cons", x.term, r.term))
            return x
        if s is not None and isinstance(idx, VInt) and z3.is_int_value(z3.simplify(idx.term)) and z3.simplify(idx.term).as_long() == -1 and not self.spec:
            # s[-1]: init/last decomposition
            if not self.ctx.branch(z3.Length(s.term) > 0):
                raise RaiseSig(VExc("IndexError"))
            x = s.sort.elem.fresh("last")
            r = s.sort.fresh("init")
            self.ctx.assume(s.term == mk_snoc(r.term, x.term))
            self.ctx.bank.add(s.term, ("snoc", r.term, x.term))
            return x
        if s is not None and isinstance(idx, VInt):
            n = z3.Length(s.term)
            i = z3.simplify(z3.If(idx.term < 0, n + idx.term, idx.term))
            if not self.spec:
                if not self.ctx.branch(z3.And(i >= 0, i < n)):
                    raise RaiseSig(VExc("IndexError"))
            return s.sort.elem.wrap(s.term[i])
        if isinstance(obj, VStr) and isinstance(idx, VInt):
            return VStr(z3.SubString(obj.term, idx.term, 1))
        r = self.call_dunder(obj, "__getitem__", [idx])
        if r is not None:
            return r
        for h in getattr(self.world, "index_hooks", []):
            r = h(self, obj, idx)
            if r is not None:
                return r
        raise EngineError(f"subscript of {obj!r}")

    def slice(self, obj: V, sl: ast.Slice) -> V:
        if sl.step is not None:
            raise EngineError("slice step")
        lo = self.eval(sl.lower) if sl.lower is not None else None
        hi = self.eval(sl.upper) if sl.upper is not None else None
        if isinstance(obj, VOpt):
            if not self.spec and not self.ctx.branch(z3.Not(obj.sort.is_none(obj.term))):
                raise RaiseSig(VExc("TypeError"))
            obj = obj.sort.elem.wrap(obj.sort.val(obj.term))
        if isinstance(obj, VTuple):
            def conc(x: V | None) -> int | None:
                if x is None:
                    return None
                assert isinstance(x, VInt)
                return z3.simplify(x.term).as_long()
            return VTuple(obj.items[conc(lo):conc(hi)])
        if isinstance(obj, VStr):
            n = z3.Length(obj.term)
            lo_t = z3.IntVal(0) if lo is None else self._norm_idx(lo, n)
            hi_t = n if hi is None else self._norm_idx(hi, n)
            return VStr(z3.SubString(obj.term, lo_t, z3.If(hi_t - lo_t < 0, 0, hi_t - lo_t)))
        s = self.seq_value(obj)
        if s is None:
            for h in getattr(self.world, "slice_hooks", []):
                r = h(self, obj, lo, hi)
                if r is not None:
                    return r
            raise EngineError(f"slice of {obj!r}")
        n = z3.Length(s.term)
        # common shapes get a decomposition instead of Extract arithmetic
        if lo is not None and hi is None and isinstance(lo, VInt) and z3.is_true(z3.simplify(lo.term == 1)):
            if self.spec or self.ctx.branch(n > 0):
                x = s.sort.elem.fresh("hd")
                r = s.sort.fresh("tl")
                self.ctx.assume(s.term == mk_cons(x.term, r.term))
                self.ctx.bank.add(s.term, ("cons", x.term, r.term))
                return r
            return s.sort.empty()
        if lo is None and hi is not None and isinstance(hi, VInt) and z3.is_true(z3.simplify(hi.term == -1)):
            if self.spec or self.ctx.branch(n > 0):
                x = s.sort.elem.fresh("last")
                r = s.sort.fresh("init")
                self.ctx.assume(s.term == mk_snoc(r.term, x.term))
                self.ctx.bank.add(s.term, ("snoc", r.term, x.term))
                return r
            return s.sort.empty()
        lo_t = z3.IntVal(0) if lo is None else self._norm_idx(lo, n)
        hi_t = n if hi is None else self._norm_idx(hi, n)
        ln = z3.If(hi_t - lo_t < 0, z3.IntVal(0), hi_t - lo_t)
        return VSeq(z3.Extract(s.term, lo_t, ln), s.sort)

    def _norm_idx(self, v: V, n: Any) -> Any:
        assert isinstance(v, VInt)
        t = z3.If(v.term < 0, n + v.term, v.term)
        return z3.simplify(z3.If(t < 0, z3.IntVal(0), z3.If(t > n, n, t)))

    def ex_NamedExpr(self, e: ast.NamedExpr, hint: str | None = None) -> V:
        v = self.eval(e.value)
        self.assign(e.target, v)
        return v

    def ex_Lambda(self, e: ast.Lambda, hint: str | None = None) -> V:
        return VPy(("lambda", e, self.env))

    def ex_Starred(self, e: ast.Starred, hint: str | None = None) -> V:
        raise EngineError("starred expression")

    def ex_Yield(self, e: ast.Yield, hint: str | None = None) -> V:
        hook = getattr(self, "_with_hook", None)
        if hook is not None:
            w, caller_env = hook
            v = self.eval(e.value) if e.value is not None else NONE
            helper_env = self.env
            self.env = caller_env
            self._with_hook = None
            try:
                if w.items[0].optional_vars is not None:
                    self.assign(w.items[0].optional_vars, v)
                self.exec_block(w.body)
            finally:
                self.env = helper_env
                self._with_hook = hook
            return NONE
        v = self.eval(e.value) if e.value is not None else NONE
        out = self.ctx.out
        assert out is not None
        x = self.coerce_elem(out.sort.elem, v)
        t = mk_snoc(out.term, x.term)
        self.ctx.bank.add(t, ("snoc", out.term, x.term))
        self.ctx.out = VSeq(t, out.sort)
        return NONE

    def ex_YieldFrom(self, e: ast.YieldFrom, hint: str | None = None) -> V:
        v = self.eval(e.value)
        out = self.ctx.out
        assert out is not None
        if isinstance(v, VHeapRef):
            v = self.ctx.cell(v.addr).value
        sv = out.sort.coerce(v)
        t = z3.Concat(out.term, sv.term)
        self.ctx.bank.add(t, ("concat", out.term, sv.term))
        self.ctx.out = VSeq(t, out.sort)
        return NONE

    def ex_GeneratorExp(self, e: ast.GeneratorExp, hint: str | None = None) -> V:
        return VPy(("genexp", e, dict(self.env)))

    def ex_ListComp(self, e: ast.ListComp, hint: str | None = None) -> V:
        from .builtins import eval_listcomp
        return eval_listcomp(self, e, hint)

    def ex_SetComp(self, e: ast.SetComp, hint: str | None = None) -> V:
        return VPy(("setcomp", e, dict(self.env)))

    def ex_DictComp(self, e: ast.DictComp, hint: str | None = None) -> V:
        from .maps import eval_dictcomp
        return eval_dictcomp(self, e, hint)

    def ex_Set(self, e: ast.Set, hint: str | None = None) -> V:
        raise EngineError("set display")

    # ---- calls ---------------------------------------------------------------------------
    def ex_Call(self, e: ast.Call, hint: str | None = None) -> V:
        from .builtins import call_value
        if self._is_logging(e):
            return NONE
        # typing.cast / t.cast are the identity
        fsrc = ast.unparse(e.func)
        if fsrc in ("cast", "t.cast", "typing.cast"):
            return self.eval(e.args[1])
        if self.spec and fsrc == "implies" and len(e.args) == 2:
            # lazy: a consequent under a literally false antecedent is not evaluated (it may mention a local that is not bound yet)
            a0 = self.truth(self.eval(e.args[0]))
            if z3.is_false(z3.simplify(a0)):
                return VBool(True)
            return VBool(z3.Implies(a0, self.truth(self.eval(e.args[1]))))
        if self.spec and fsrc == "keys_of" and len(e.args) == 1:
            # keys_of(d): the insertion-ordered key sequence of a dict cell (spec only)
            a0 = e.args[0]
            if isinstance(a0, ast.Call) and isinstance(a0.func, ast.Name) and a0.func.id == "old" and isinstance(a0.args[0], ast.Name) \
                    and a0.args[0].id in self.global_syms and isinstance(self.global_syms[a0.args[0].id], VHeapRef):
                # keys_of(old(G)): the key list the global dict G had at entry
                addr = self.global_syms[a0.args[0].id].addr
                ks = getattr(self, "old_extra", {}).get(addr, {}).get("keys")
                if ks is None:
                    raise EngineError(f"keys_of(old({a0.args[0].id})): no ordered model at entry")
                return ks
            if isinstance(a0, ast.Name) and a0.id in self.env:
                v = self.env.get(a0.id)
            elif isinstance(a0, ast.Name) and a0.id == "result" and self.result is not None:
                v = self.result
            elif isinstance(a0, ast.Name) and a0.id in self.global_syms and isinstance(self.global_syms[a0.id], VHeapRef):
                v = self.global_syms[a0.id]
                if self._spec_old_mode:
                    ks = getattr(self, "old_extra", {}).get(v.addr, {}).get("keys")
                    if ks is None:
                        raise EngineError("keys_of under old()")
                    return ks
            else:
                v = self.eval(a0)
            if isinstance(v, VHeapRef) and self.ctx.cell(v.addr).kind == "dict":
                from .maps import dict_keys
                if self._spec_old_mode:
                    raise EngineError("keys_of under old()")
                return dict_keys(self, self.ctx.cell(v.addr))
            raise EngineError(f"keys_of({ast.unparse(a0)}): not a dict cell")
        func = self.eval(e.func)
        args: list[V] = []
        for a in e.args:
            if isinstance(a, ast.Starred):
                sv = self.eval(a.value)
                if isinstance(sv, VTuple):
                    args.extend(sv.items)
                else:
                    args.append(VPy(("star", sv)))
            else:
                args.append(self.eval(a))
        kwargs: dict[str, V] = {}
        for kw in e.keywords:
            if kw.arg is None:
                kwargs["**"] = self.eval(kw.value)
            else:
                kwargs[kw.arg] = self.eval(kw.value)
        return call_value(self, func, args, kwargs, e, hint)

    def call_contract(self, key: str, args: list[V], kwargs: dict[str, V], ghost: dict[str, V] | None = None) -> V:
        """Modular call: assert the callee's precondition, take its raise paths, havoc its frame,
        assume its postcondition."""
        c = self.world.registry.contracts[key]
        mod, fn = (None, None)
        try:
            mod, fn = extract.get_function(c.fn)
        except Exception:
            if not c.trusted:
                raise EngineError(f"call of {key}: function not found in source")
        # bind parameters
        pnames = list(c.params.keys())
        bound: dict[str, V] = {}
        if fn is not None:
            a = fn.args
            pos = [x.arg for x in a.posonlyargs + a.args]
            defaults = dict(zip(reversed(pos), reversed(a.defaults)))
            kwdefaults = {x.arg: d for x, d in zip(a.kwonlyargs, a.kw_defaults) if d is not None}
            rest: list[V] = []
            for i, v in enumerate(args):
                if i < len(pos):
                    bound[pos[i]] = v
                else:
                    rest.append(v)
            if a.vararg:
                if rest and isinstance(rest[0], VPy) and isinstance(rest[0].obj, tuple) and rest[0].obj[0] == "star":
                    bound[a.vararg.arg] = rest[0].obj[1]
                else:
                    bound[a.vararg.arg] = VTuple(rest)
            for k, v in kwargs.items():
                bound[k] = v
            for n, d in list(defaults.items()) + list(kwdefaults.items()):
                if n not in bound:
                    bound[n] = self.eval_default(d)
        else:
            for n, v in zip(pnames, args):
                bound[n] = v
            bound.update(kwargs)
        # coerce to the declared sorts
        for n in list(bound):
            v = bound[n]
            if isinstance(v, VPy) and isinstance(v.obj, tuple) and v.obj and v.obj[0] in ("closure", "lambda"):
                hook = getattr(self.world, "closure_coerce", None)
                if hook is None:
                    raise EngineError(f"call of {key}: a local closure is passed as {n}; the area has no closure contract")
                bound[n] = hook(self, v.obj, c.params.get(n, ""))
        for n, sname in c.params.items():
            if n in bound and sname.startswith(("Dict[", "ODict[", "Set[")) and isinstance(bound[n], VHeapRef):
                continue          # a dict / set handed over by reference: the callee's contract speaks about the caller's cell
            if n in bound and not sname.startswith(("py:", "cls:", "Tuple[", "List[", "Deque[", "Iter[")):
                try:
                    bound[n] = get_sort(sname).coerce(bound[n] if not isinstance(bound[n], VHeapRef) else self.ctx.cell(bound[n].addr).value)  # type: ignore[union-attr]
                except EngineError as ex:
                    alt = None
                    for h in getattr(self.world, "coerce_hooks", []):
                        alt = h(self, bound[n], sname)
                        if alt is not None:
                            break
                    if alt is None:
                        raise EngineError(f"call of {key}: argument {n}: {ex}")
                    bound[n] = alt
        if ghost:
            bound.update(ghost)
        # ghost parameters of the callee (universally quantified in its contract): instantiated at the caller's ghost of the same name
        # when there is one, otherwise at a fresh value
        for gname, gsort in c.ghost.items():
            if gname not in bound:
                if gname in self.contract.ghost and gname in self.env:
                    bound[gname] = self.env[gname]
                elif gname in self.ghost_env:
                    bound[gname] = self.ghost_env[gname]
                else:
                    bound[gname] = self.fresh_of(gsort, gname)
        n_ord = self.call_ord.get(key, 0) + 1
        self.call_ord[key] = n_ord
        site = f"{self.contract.key}/call:{key}#{n_ord}"
        if not self.spec:
            extra = {f"arg_{k}": v for k, v in bound.items()}
            for i, r in enumerate(self.contract.call_requires.get(key, [])):
                self.ctx.check(self.spec_bool(r, extra=extra), f"{site}/caller-state[{i}]", "call-state")
        saved_env, saved_old, saved_result, saved_oldheap = self.env, self.old_env, self.result, self.old_heap
        saved_oldextra = getattr(self, "old_extra", {})
        saved_oldglobals = getattr(self, "old_globals", {})
        try:
            self.old_globals = dict(self.global_syms)
            self.env = bound
            self.old_env = dict(bound)
            self.old_heap = {a: cell.value for a, cell in self.ctx.heap.items()}
            self.old_extra = {a: dict(cell.extra) for a, cell in self.ctx.heap.items() if getattr(cell, "extra", None)}     # old() in the callee's clauses = the state at the call
            if not self.spec:
                for i, r in enumerate(c.requires):
                    self.ctx.check(self.spec_bool(r), f"{site}/pre[{i}]", "call-pre")
            # exceptional exits
            if not self.spec:
                for ecls, cond in c.raises:
                    if cond.strip().startswith("only:"):
                        condt = z3.And(z3.Bool(fresh_name("nondet_raise")), self.spec_bool(cond.strip()[5:]))
                    else:
                        condt = z3.Bool(fresh_name("nondet_raise")) if cond.strip() == "*" else self.spec_bool(cond)
                    if self.ctx.branch(condt):
                        self.havoc_modifies(c)
                        for e_ in c.exc_ensures:
                            self.ctx.assume(self.spec_bool(e_))
                        raise RaiseSig(VExc(ecls))
                for ecls in c.may_raise:
                    if self.ctx.branch(z3.Bool(fresh_name("nondet_raise"))):
                        self.havoc_modifies(c)
                        for e_ in c.exc_ensures:
                            self.ctx.assume(self.spec_bool(e_))
                        raise RaiseSig(VExc(ecls))
            # frame
            self.havoc_modifies(c)
            # result
            if c.returns is None:
                res: V = NONE
            else:
                res = self.fresh_of(c.returns, "r_" + c.qualname.split(".")[-1])
            self.result = res
            for e_ in c.ensures:
                self.ctx.assume(self.spec_bool(e_))
            return res
        finally:
            self.env, self.old_env, self.result, self.old_heap = saved_env, saved_old, saved_result, saved_oldheap
            self.old_extra = saved_oldextra
            self.old_globals = saved_oldglobals

    def havoc_modifies(self, c: Contract) -> None:
        for g in c.modifies:
            v = self.global_syms.get(g)
            if v is None:
                raise EngineError(f"{self.contract.key}: callee {c.key} modifies {g}, which this contract does not declare in globals")
            if isinstance(v, VHeapRef):
                cell = self.ctx.cell(v.addr)
                if cell.kind == "dict":
                    from .maps import havoc_dict
                    havoc_dict(self, cell)
                else:
                    cell.value = same_sort_fresh(cell.value, g)
            else:
                self.global_syms[g] = same_sort_fresh(v, g)

    def eval_default(self, d: ast.AST) -> V:
        saved = self.env
        try:
            self.env = {}
            return self.eval(d)
        finally:
            self.env = saved


def _split_top(s: str) -> list[str]:
    out, depth, cur = [], 0, ""
    for ch in s:
        if ch == "[":
            depth += 1
        elif ch == "]":
            depth -= 1
        if ch == "," and depth == 0:
            out.append(cur.strip())
            cur = ""
        else:
            cur += ch
    if cur.strip():
        out.append(cur.strip())
    return out
