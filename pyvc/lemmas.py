"""Reusable induction schemes for sequence-recursive spec functions defined by cons recursion
    f(e.., [])        = []
    f(e.., [x] ++ r)  = U(e.., x) ++ f(e.., r)
Each lemma is proved by a base and a step VC using the definition rules only."""
from __future__ import annotations

from typing import Any, Callable, Sequence

import z3

from .core import mk_cons, mk_snoc
from .verify import Lemma


def snoc_from_cons(name: str, f_t: Callable[..., Any], unit_rhs: Callable[[list, Any], Any], extra_sorts: Sequence[Any],
                   elem_sort: Any, seq_sort: Any, props: list[str]) -> Lemma:
    """f(s ++ [y]) == f(s) ++ U(y)   by induction on s."""
    empty = z3.Empty(seq_sort)

    def consts():
        return ([z3.Const(f"e{i}_{name}", s) for i, s in enumerate(extra_sorts)], z3.Const("x_" + name, elem_sort),
                z3.Const("y_" + name, elem_sort), z3.Const("r_" + name, seq_sort))

    def base(bank):
        ex, x, y, r = consts()
        return [], f_t(*ex, mk_snoc(empty, y)) == z3.Concat(f_t(*ex, empty), unit_rhs(ex, y))

    def step(bank):
        ex, x, y, r = consts()
        ih = f_t(*ex, mk_snoc(r, y)) == z3.Concat(f_t(*ex, r), unit_rhs(ex, y))
        s = mk_cons(x, r)
        whole = mk_snoc(s, y)
        bank.add(whole, ("cons", x, mk_snoc(r, y)))
        return [ih], f_t(*ex, whole) == z3.Concat(f_t(*ex, s), unit_rhs(ex, y))
    return Lemma(name, [("base", base), ("step", step)], props)


def concat_from_cons(name: str, f_t: Callable[..., Any], extra_sorts: Sequence[Any], elem_sort: Any, seq_sort: Any,
                     props: list[str]) -> Lemma:
    """f(a ++ b) == f(a) ++ f(b)   by induction on a."""
    empty = z3.Empty(seq_sort)

    def consts():
        return ([z3.Const(f"e{i}_{name}", s) for i, s in enumerate(extra_sorts)], z3.Const("x_" + name, elem_sort),
                z3.Const("r_" + name, seq_sort), z3.Const("b_" + name, seq_sort))

    def base(bank):
        ex, x, r, b = consts()
        return [], f_t(*ex, z3.Concat(empty, b)) == z3.Concat(f_t(*ex, empty), f_t(*ex, b))

    def step(bank):
        ex, x, r, b = consts()
        ih = f_t(*ex, z3.Concat(r, b)) == z3.Concat(f_t(*ex, r), f_t(*ex, b))
        a = mk_cons(x, r)
        whole = z3.Concat(a, b)
        bank.add(whole, ("cons", x, z3.Concat(r, b)))
        return [ih], f_t(*ex, whole) == z3.Concat(f_t(*ex, a), f_t(*ex, b))
    return Lemma(name, [("base", base), ("step", step)], props)


def length_preserving(name: str, f_t: Callable[..., Any], extra_sorts: Sequence[Any], elem_sort: Any, seq_sort: Any,
                      props: list[str]) -> Lemma:
    """len(f(s)) == len(s)  for maps (U(x) is a unit), by induction on s."""
    empty = z3.Empty(seq_sort)

    def base(bank):
        ex = [z3.Const(f"e{i}_{name}", s) for i, s in enumerate(extra_sorts)]
        return [], z3.Length(f_t(*ex, empty)) == 0

    def step(bank):
        ex = [z3.Const(f"e{i}_{name}", s) for i, s in enumerate(extra_sorts)]
        x, r = z3.Const("x_" + name, elem_sort), z3.Const("r_" + name, seq_sort)
        ih = z3.Length(f_t(*ex, r)) == z3.Length(r)
        return [ih], z3.Length(f_t(*ex, mk_cons(x, r))) == z3.Length(mk_cons(x, r))
    return Lemma(name, [("base", base), ("step", step)], props)
