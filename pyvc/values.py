"""Sorts and symbolic values of pyvc.

Every symbolic value is a small Python wrapper around a z3 term (or around other wrappers, for
Python-level tuples) that remembers its *sort descriptor*.  Sort descriptors know how to make
fresh symbols, how to wrap raw z3 terms and how to coerce Python-level values (None, tuples,
concrete ints / strings) into their z3 encoding.
"""
from __future__ import annotations

import itertools
from typing import Any, Callable, Iterable, Sequence

import z3

_fresh_counter = itertools.count()


def fresh_name(hint: str) -> str:
    return f"{hint}!{next(_fresh_counter)}"


class EngineError(Exception):
    """The engine met something it does not model: the function is 'out of reach' (exit 2),
    never a verdict."""


# --------------------------------------------------------------------------------------------
# Sorts
# --------------------------------------------------------------------------------------------


class Sort:
    name: str

    def z3(self) -> z3.SortRef:  # pragma: no cover - abstract
        raise NotImplementedError

    def wrap(self, term: z3.ExprRef) -> "V":  # pragma: no cover - abstract
        raise NotImplementedError

    def fresh(self, hint: str = "v") -> "V":
        return self.wrap(z3.Const(fresh_name(hint), self.z3()))

    def coerce(self, v: "V") -> "V":
        """Turn a Python-level value into a value of this sort (or raise EngineError)."""
        if isinstance(v, VTerm) and v.sort == self:
            return v
        if isinstance(v, VOpt) and v.sort.elem == self:
            # narrowing after an `is not None` test; a None here would raise in Python as well
            return self.wrap(v.sort.val(v.term))
        raise EngineError(f"cannot coerce {v!r} to sort {self.name}")

    def __eq__(self, other: object) -> bool:
        return isinstance(other, Sort) and other.name == self.name

    def __hash__(self) -> int:
        return hash(self.name)

    def __repr__(self) -> str:
        return f"<{self.name}>"


class _IntSort(Sort):
    name = "int"

    def z3(self) -> z3.SortRef:
        return z3.IntSort()

    def wrap(self, term: z3.ExprRef) -> "V":
        return VInt(term)

    def coerce(self, v: "V") -> "V":
        if isinstance(v, VInt):
            return v
        if isinstance(v, VBool):  # bool is an int in Python
            return VInt(z3.If(v.term, z3.IntVal(1), z3.IntVal(0)))
        return super().coerce(v)


class _BoolSort(Sort):
    name = "bool"

    def z3(self) -> z3.SortRef:
        return z3.BoolSort()

    def wrap(self, term: z3.ExprRef) -> "V":
        return VBool(term)


class _StrSort(Sort):
    name = "str"

    def z3(self) -> z3.SortRef:
        return z3.StringSort()

    def wrap(self, term: z3.ExprRef) -> "V":
        return VStr(term)


INT = _IntSort()
BOOL = _BoolSort()
STR = _StrSort()

_sort_cache: dict[str, Sort] = {"int": INT, "bool": BOOL, "str": STR}


class USort(Sort):
    """Uninterpreted sort (node references, dataclass Field objects, class objects, closures)."""

    def __init__(self, name: str, truthy: str = "true") -> None:
        self.name = name
        self._z3 = z3.DeclareSort(name)
        # how `if x:` behaves: "true" (plain objects) or "unknown" (user classes may define
        # __len__/__bool__: an uninterpreted predicate)
        self.truthy = truthy

    def z3(self) -> z3.SortRef:
        return self._z3

    def wrap(self, term: z3.ExprRef) -> "V":
        return VU(term, self)


def usort(name: str, truthy: str = "true") -> USort:
    if name not in _sort_cache:
        _sort_cache[name] = USort(name, truthy)
    s = _sort_cache[name]
    assert isinstance(s, USort)
    return s


class SeqSort(Sort):
    def __init__(self, elem: Sort) -> None:
        self.elem = elem
        self.name = f"Seq[{elem.name}]"

    def z3(self) -> z3.SortRef:
        return z3.SeqSort(self.elem.z3())

    def wrap(self, term: z3.ExprRef) -> "V":
        return VSeq(term, self)

    def empty(self) -> "VSeq":
        return VSeq(z3.Empty(self.z3()), self)

    def coerce(self, v: "V") -> "V":
        if isinstance(v, VSeq) and v.sort == self:
            return v
        if isinstance(v, VTuple):
            if not v.items:
                return self.empty()
            units = [z3.Unit(self.elem.coerce(i).term) for i in v.items]
            return VSeq(units[0] if len(units) == 1 else z3.Concat(*units), self)
        return super().coerce(v)


def seq_of(elem: Sort) -> SeqSort:
    key = f"Seq[{elem.name}]"
    if key not in _sort_cache:
        _sort_cache[key] = SeqSort(elem)
    s = _sort_cache[key]
    assert isinstance(s, SeqSort)
    return s


class OptSort(Sort):
    def __init__(self, elem: Sort) -> None:
        self.elem = elem
        self.name = f"Opt[{elem.name}]"
        dt = z3.Datatype("Opt_" + _mangle(elem.name))
        dt.declare("none")
        dt.declare("some", ("val", elem.z3()))
        self._dt = dt.create()

    def z3(self) -> z3.SortRef:
        return self._dt

    def wrap(self, term: z3.ExprRef) -> "V":
        return VOpt(term, self)

    def none(self) -> "VOpt":
        return VOpt(self._dt.none, self)

    def some(self, v: "V") -> "VOpt":
        return VOpt(self._dt.some(self.elem.coerce(v).term), self)

    def is_none(self, term: z3.ExprRef) -> z3.BoolRef:
        return self._dt.is_none(term)

    def val(self, term: z3.ExprRef) -> z3.ExprRef:
        return self._dt.val(term)

    def coerce(self, v: "V") -> "V":
        if isinstance(v, VOpt) and v.sort == self:
            return v
        if isinstance(v, VNone):
            return self.none()
        return self.some(v)


def opt_of(elem: Sort) -> OptSort:
    key = f"Opt[{elem.name}]"
    if key not in _sort_cache:
        _sort_cache[key] = OptSort(elem)
    s = _sort_cache[key]
    assert isinstance(s, OptSort)
    return s


class RecSort(Sort):
    """A record: frozen dataclass or NamedTuple whose identity does not matter.

    `positional` is the field order used for tuple unpacking / construction."""

    def __init__(self, name: str, fields: Sequence[tuple[str, Sort]], pycls: str | None = None,
                 truthy: str = "true", tuple_like: bool = False) -> None:
        self.name = name
        self.fields = list(fields)
        self.pycls = pycls
        self.truthy = truthy
        self.tuple_like = tuple_like
        dt = z3.Datatype("Rec_" + _mangle(name))
        dt.declare("mk", *[(f"{_mangle(name)}_{fn}", fs.z3()) for fn, fs in self.fields])
        self._dt = dt.create()

    def z3(self) -> z3.SortRef:
        return self._dt

    def wrap(self, term: z3.ExprRef) -> "V":
        return VRec(term, self)

    def mk(self, *vals: "V") -> "VRec":
        if len(vals) != len(self.fields):
            raise EngineError(f"{self.name}: expected {len(self.fields)} fields, got {len(vals)}")
        terms = [fs.coerce(v).term for (fn, fs), v in zip(self.fields, vals)]
        return VRec(self._dt.mk(*terms), self)

    def get(self, term: z3.ExprRef, field: str) -> "V":
        for i, (fn, fs) in enumerate(self.fields):
            if fn == field:
                return fs.wrap(z3.simplify(self._dt.accessor(0, i)(term)))
        raise EngineError(f"record {self.name} has no field {field}")

    def has(self, field: str) -> bool:
        return any(fn == field for fn, _ in self.fields)

    def coerce(self, v: "V") -> "V":
        if isinstance(v, VRec) and v.sort == self:
            return v
        if isinstance(v, VTuple) and self.tuple_like and len(v.items) == len(self.fields):
            return self.mk(*v.items)
        return super().coerce(v)


def rec_sort(name: str, fields: Sequence[tuple[str, Sort]], **kw: Any) -> RecSort:
    if name not in _sort_cache:
        _sort_cache[name] = RecSort(name, fields, **kw)
    s = _sort_cache[name]
    assert isinstance(s, RecSort)
    return s


def _mangle(s: str) -> str:
    return s.replace("[", "_").replace("]", "").replace(",", "_").replace(" ", "")


def get_sort(name: str) -> Sort:
    """Resolve a sort name such as 'int', 'Opt[Ref]', 'Seq[Info]'."""
    name = name.strip()
    if name in _sort_cache:
        return _sort_cache[name]
    if name.startswith("Seq[") and name.endswith("]"):
        return seq_of(get_sort(name[4:-1]))
    if name.startswith("Opt[") and name.endswith("]"):
        return opt_of(get_sort(name[4:-1]))
    raise EngineError(f"unknown sort {name!r}")


def register_sort(s: Sort) -> Sort:
    _sort_cache[s.name] = s
    return s


# --------------------------------------------------------------------------------------------
# Values
# --------------------------------------------------------------------------------------------


class V:
    """Base of all symbolic values."""


class VTerm(V):
    term: z3.ExprRef
    sort: Sort

    def __repr__(self) -> str:
        return f"{type(self).__name__}({self.term})"


class VInt(VTerm):
    sort = INT

    def __init__(self, term: Any) -> None:
        self.term = z3.IntVal(term) if isinstance(term, int) else term


class VBool(VTerm):
    sort = BOOL

    def __init__(self, term: Any) -> None:
        self.term = z3.BoolVal(term) if isinstance(term, bool) else term


class VStr(VTerm):
    sort = STR

    def __init__(self, term: Any) -> None:
        self.term = z3.StringVal(term) if isinstance(term, str) else term


class VU(VTerm):
    def __init__(self, term: z3.ExprRef, sort: USort) -> None:
        self.term, self.sort = term, sort


class VSeq(VTerm):
    def __init__(self, term: z3.ExprRef, sort: SeqSort) -> None:
        self.term, self.sort = term, sort


class VOpt(VTerm):
    def __init__(self, term: z3.ExprRef, sort: OptSort) -> None:
        self.term, self.sort = term, sort


class VRec(VTerm):
    def __init__(self, term: z3.ExprRef, sort: RecSort) -> None:
        self.term, self.sort = term, sort


class VNone(V):
    def __repr__(self) -> str:
        return "VNone"


NONE = VNone()


class VTuple(V):
    """A Python tuple of statically known length."""

    def __init__(self, items: Iterable[V]) -> None:
        self.items = list(items)

    def __repr__(self) -> str:
        return f"VTuple({self.items})"


class VHeapRef(V):
    """Reference to a mutable container in the path's heap (list, deque, dict, set, iterator)."""

    def __init__(self, addr: int, kind: str) -> None:
        self.addr, self.kind = addr, kind

    def __repr__(self) -> str:
        return f"VHeapRef({self.kind}@{self.addr})"


class VBound(V):
    """A bound method of a heap container or of a contracted object."""

    def __init__(self, recv: V, name: str) -> None:
        self.recv, self.name = recv, name


class VCls(V):
    """A concrete class object named in the source (e.g. CodeRange, ValueError, tuple)."""

    def __init__(self, name: str) -> None:
        self.name = name

    def __repr__(self) -> str:
        return f"VCls({self.name})"


class VModule(V):
    def __init__(self, name: str) -> None:
        self.name = name


class VPy(V):
    """An opaque concrete Python object the engine carries around (strings for getattr names,
    nested function definitions, builtins)."""

    def __init__(self, obj: Any) -> None:
        self.obj = obj

    def __repr__(self) -> str:
        return f"VPy({self.obj!r})"


class VExc(V):
    """An exception instance: class name plus (ignored) arguments."""

    def __init__(self, cls: str, args: Sequence[V] = ()) -> None:
        self.cls, self.args = cls, list(args)

    def __repr__(self) -> str:
        return f"VExc({self.cls})"


def same_sort_fresh(v: V, hint: str) -> V:
    """A fresh unconstrained value shaped like `v` (used to havoc loop-modified variables)."""
    if isinstance(v, VTerm):
        return v.sort.fresh(hint)
    if isinstance(v, VTuple):
        return VTuple(same_sort_fresh(i, hint) for i in v.items)
    return v


def to_bool_term(v: V) -> z3.BoolRef:
    if isinstance(v, VBool):
        return v.term
    raise EngineError(f"expected a bool value, got {v!r}")
