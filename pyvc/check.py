"""Property checks: proof obligations (pyvc) + bounded stand-ins (rt), verdicts, evidence, replay."""
from __future__ import annotations

import hashlib
import importlib
import json
import multiprocessing as mp
import os
import subprocess
import sys
import time
import traceback
from typing import Any

ROOT = os.path.dirname(os.path.dirname(os.path.abspath(__file__)))
LOCK = os.path.join(ROOT, "baseline", "obligations.lock.json")
KNOWN = os.path.join(ROOT, "known_findings.json")


# ------------------------------------------------------------------------------------------------
# worker side
# ------------------------------------------------------------------------------------------------

_AREA_CACHE: dict[str, Any] = {}


def _area(modname: str):
    if modname not in _AREA_CACHE:
        _AREA_CACHE[modname] = importlib.import_module(modname).build()
    return _AREA_CACHE[modname]


def _ob_dict(o: Any) -> dict:
    return {"name": o.name, "status": o.status, "backend": o.backend, "seconds": round(o.seconds, 4),
            "kind": o.kind, "model": o.model[:1500] if o.status != "discharged" else "",
            "info": o.inputs}


def _work(task: tuple) -> dict:
    kind, area, key, timeout_ms = task
    try:
        from pyvc.verify import prove_lemma, verify_function
        world, lib, reg, lemmas = _area(area)
        if kind == "fn":
            c = reg.contracts[key]
            r = verify_function(world, lib, c, timeout_ms)
            sample = ""
            if r.obligations:
                try:
                    from pyvc.solve import smt2_of
                    sample = smt2_of(r.obligations[0], world.axioms)[:3000]
                except Exception:
                    pass
            return {"kind": "fn", "area": area, "key": key, "fn": c.fn, "status": r.status, "error": r.error, "paths": r.paths,
                    "infeasible_paths": r.infeasible_paths, "src_sha": r.src_sha, "fn_hash": r.fn_hash, "canary": r.canary,
                    "seconds": round(r.seconds, 3), "obligations": [_ob_dict(o) for o in r.obligations], "sample_smt2": sample,
                    "props": c.props, "note": c.note, "loops": r.loops}
        else:
            lem = next(l for l in lemmas if l.name == key)
            obs = prove_lemma(lem, world.axioms, lib, timeout_ms)
            return {"kind": "lemma", "area": area, "key": "lemma:" + key, "fn": "lemma:" + key, "status": "ok", "error": "", "paths": len(obs),
                    "infeasible_paths": 0, "src_sha": "", "fn_hash": "", "canary": "", "seconds": round(sum(o.seconds for o in obs), 3),
                    "obligations": [_ob_dict(o) for o in obs], "sample_smt2": "", "props": lem.props, "note": lem.note}
    except Exception as e:
        return {"kind": kind, "area": area, "key": key, "fn": key, "status": "crash", "error": traceback.format_exc()[-1500:], "paths": 0,
                "infeasible_paths": 0, "src_sha": "", "fn_hash": "", "canary": "", "seconds": 0, "obligations": [], "sample_smt2": "",
                "props": [], "note": ""}


def list_tasks(areas: list[str], prop: str, timeout_ms: int) -> tuple[list[tuple], list[dict]]:
    tasks, trusted = [], []
    for a in areas:
        world, lib, reg, lemmas = _area(a)
        for c in reg.all():
            if prop is not None and prop not in c.props:
                continue
            if c.trusted:
                trusted.append({"fn": c.key, "reason": c.trusted_reason, "ensures": c.ensures, "raises": c.raises})
            else:
                tasks.append(("fn", a, c.key, timeout_ms))
        for l in lemmas:
            if prop is None or prop in l.props:
                tasks.append(("lemma", a, l.name, timeout_ms))
        for n in world.trusted_notes:
            trusted.append({"fn": "(area)", "reason": n})
    return tasks, trusted


def run_proofs(areas: list[str], prop: str, timeout_ms: int, procs: int = 16) -> tuple[list[dict], list[dict]]:
    tasks, trusted = list_tasks(areas, prop, timeout_ms)
    if not tasks:
        return [], trusted
    ctx = mp.get_context("fork")
    with ctx.Pool(min(procs, len(tasks))) as pool:
        results = pool.map(_work, tasks, chunksize=1)
    return results, trusted


# ------------------------------------------------------------------------------------------------
# verdicts
# ------------------------------------------------------------------------------------------------


def load_lock() -> dict:
    if os.path.exists(LOCK):
        return json.load(open(LOCK))
    return {"obligations": {}, "functions": {}}


def load_known() -> dict:
    return json.load(open(KNOWN))


def run_witness(path: str, timeout: int = 120) -> tuple[int, str]:
    """Run a native witness script against /repo's working tree."""
    env = dict(os.environ)
    env["PYTHONPATH"] = os.environ.get("PYVC_REPO_SRC", "/repo/src") + (":" + env["PYTHONPATH"] if env.get("PYTHONPATH") else "")
    p = subprocess.run([sys.executable, path], capture_output=True, text=True, timeout=timeout, env=env, cwd=ROOT)
    return p.returncode, (p.stdout + p.stderr)[-2000:]


def write_replay(prop: str, name: str, payload: dict) -> str:
    d = os.path.join(os.environ.get("VERIF_OUT", ROOT), "replays")
    os.makedirs(d, exist_ok=True)
    safe = hashlib.sha1(name.encode()).hexdigest()[:10]
    path = os.path.join(d, f"{prop}-{safe}.json")
    json.dump(payload, open(path, "w"), indent=1, default=str)
    return path


def check_property(prop: str, tier: str, seed: int) -> int:
    from pyvc.props import PROPS

    t0 = time.time()
    spec = PROPS[prop]
    timeout_ms = 60000 if tier == "quick" else 180000
    results, trusted = run_proofs(spec.get("areas", []), prop, timeout_ms)
    if spec.get("custom"):
        try:
            results = results + importlib.import_module(spec["custom"]).run_custom(tier)
        except Exception:
            results.append({"kind": "fn", "area": spec["custom"], "key": spec["custom"], "fn": spec["custom"], "status": "crash",
                            "error": traceback.format_exc()[-1200:], "paths": 0, "infeasible_paths": 0, "src_sha": "", "fn_hash": "",
                            "canary": "", "seconds": 0, "obligations": [], "sample_smt2": "", "props": [], "note": ""})
    lock = load_lock()
    known = load_known()
    lines: list[str] = []
    violations: list[dict] = []
    undecided: list[str] = []
    crashes: list[str] = []
    # guard: every rule of kind "lemma" that function VCs may fire must be proved by a Lemma of the same name in one of this property's areas
    lemma_names: set[str] = set()
    lemma_rules: dict[str, str] = {}
    for a in spec.get("areas", []):
        _w, _lib, _reg, _lems = _area(a)
        lemma_names |= {l.name for l in _lems}
        for _f in _lib.fns.values():
            for _r in _f.rules:
                if _r.kind == "lemma":
                    lemma_rules.setdefault(_r.name, a)
        for _ex in _lib.extra_instantiators:
            for _n in getattr(_ex, "encodes", ()) or ():
                lemma_rules.setdefault(_n, a)
    for _n, _a in sorted(lemma_rules.items()):
        if _n not in lemma_names:
            undecided.append(f"{_a}: rule '{_n}' is used as a lemma but no lemma of that name is proved in the areas of {prop}")
    n_ob = n_dis = 0
    by_backend: dict[str, int] = {}
    solver_s = 0.0
    fns = []
    for r in results:
        fns.append({"fn": r["key"], "status": r["status"], "paths": r["paths"], "obligations": len(r["obligations"]),
                    "src_sha256": r["src_sha"][:16], "ast_hash": r["fn_hash"], "canary": r["canary"], "seconds": r["seconds"]})
        if r["status"] == "crash":
            crashes.append(f"{r['key']}: {r['error'][-300:]}")
            continue
        # loop invariants are keyed by the ordinal of the loop in the body: when the number of loops differs from the baseline the
        # invariants were written for, failing invariant obligations say nothing about the property -- the function is undecided
        base_loops = lock.get("loops", {}).get(r["key"])
        if r["status"] == "ok" and base_loops is not None and r.get("loops", -1) not in (-1, base_loops) and any(o["status"] != "discharged" for o in r["obligations"]):
            undecided.append(f"{r['key']}: loop structure changed ({r.get('loops')} loops, the contract's invariants are written for {base_loops}); not decided")
            continue
        if r["status"] in ("out-of-reach", "vacuous"):
            undecided.append(f"{r['key']}: {r['status']}: {r['error']}")
            continue
        for o in r["obligations"]:
            n_ob += 1
            solver_s += o["seconds"]
            if o["status"] == "discharged":
                n_dis += 1
                by_backend[o["backend"]] = by_backend.get(o["backend"], 0) + 1
            elif o["status"] == "refuted":
                violations.append({"source": "proof", "obligation": o["name"], "function": r["key"], "solver": o["backend"],
                                   "model": o["model"], "info": o["info"],
                                   "in_lock": o["name"] in lock["obligations"] or r["key"] in lock["functions"]})
            else:
                undecided.append(f"{o['name']}: solver {o['status']} ({o['model']})")

    # ---- bounded stand-in / witness search ------------------------------------------------------
    rt_report: dict[str, Any] = {}
    rt_fail: list[dict] = []
    if spec.get("rt"):
        try:
            rt_mod = importlib.import_module(spec["rt"])
            rt_report = rt_mod.run(tier=tier, seed=seed)
            rt_fail = rt_report.pop("failures", [])
        except Exception:
            crashes.append("rt " + spec["rt"] + ": " + traceback.format_exc()[-800:])

    # ---- known findings ---------------------------------------------------------------------------
    kf_lines = []
    open_kf = [k for k in known.get("open", []) if k["property"] == prop]
    kf_report = []
    for k in open_kf:
        rc, out = run_witness(os.path.join(ROOT, k["witness"]))
        kf_report.append({"id": k["id"], "witness_rc": rc, "what": k["what"]})
        if rc == 1:
            kf_lines.append(f"KNOWN-FINDING: property={prop} {k['what']}")
        elif rc != 0:
            crashes.append(f"known-finding witness {k['witness']} crashed: {out[-300:]}")
    fixed_report = []
    for k in known.get("fixed", []):
        if k["property"] != prop and prop not in k["what"]:
            continue
        rc, out = run_witness(os.path.join(ROOT, k["witness"]))
        fixed_report.append({"commit": k["commit"], "witness": k["witness"], "rc": rc})
        if rc == 1:
            rt_fail.append({"what": f"regression of fixed defect: {k['what']}", "repro": k["witness"], "output": out[-500:], "kf": None})
        elif rc != 0:
            crashes.append(f"fixed-defect witness {k['witness']} crashed: {out[-300:]}")

    # ---- combine ----------------------------------------------------------------------------------
    final_violations: list[str] = []
    # rt failures covered by an open known finding are not violations
    for f in rt_fail:
        if f.get("kf") and any(k["id"] == f["kf"] for k in open_kf):
            continue
        path = write_replay(prop, f["what"], {"property": prop, "kind": "native-witness", **f})
        final_violations.append(f"VIOLATION property={prop} replay={path}")
    for v in violations:
        if v.get("kf") and any(k["id"] == v["kf"] for k in open_kf):
            continue
        # a refuted obligation with a native witness already reported above is one violation
        if not v["in_lock"]:
            undecided.append(f"{v['obligation']}: refuted, but the obligation/function is not in the baseline lock")
            continue
        path = write_replay(prop, v["obligation"], {"property": prop, "kind": "failed-obligation", **v,
                                                    "native_witnesses": [f["what"] for f in rt_fail][:5]})
        if rt_fail:
            final_violations.append(f"VIOLATION property={prop} replay={path}")
        else:
            final_violations.append(f"VIOLATION property={prop} replay={path} no-failing-input-found")

    level = spec["level"]
    cov: dict[str, Any] = {
        "obligations": n_ob, "discharged": n_dis, "by_backend": by_backend, "solver_s": round(solver_s, 3),
        "checker_cmd": f"./vp check {prop} --tier {tier}",
        "functions_under_contract": fns,
        "trusted_base": [f"{t['fn']}: {t['reason']}" for t in trusted] + spec.get("trusted", []),
        "samples": [o["name"] for r in results for o in r["obligations"]][:40] + ([{"smt2": results[0]["sample_smt2"]}] if results and results[0]["sample_smt2"] else []),
        "bounded": rt_report,
        "programs": len({r["key"].split(".")[0] for r in results if r["key"].startswith("generated:")}),
        "known_findings": kf_report, "fixed_defects_rechecked": fixed_report,
        "undecided": undecided, "crashes": crashes,
        "explanation": spec.get("explanation", ""),
    }
    if level in ("exploration", "fault_enumeration") or (level == "other" and rt_report):
        cov["evaluations"] = int(rt_report.get("evaluations", 0))
        cov["distinct_nontrivial"] = int(rt_report.get("distinct_nontrivial", 0))
        cov["rule"] = rt_report.get("rule", "")
        if rt_report.get("samples"):
            cov["samples"] = rt_report["samples"][:10] + cov["samples"][:10]
    ev = {"property_id": prop, "tier": tier, "seed": seed, "level": level, "coverage": cov,
          "assumptions": spec.get("assumptions", []), "wall_s": round(time.time() - t0, 2), "violations": len(final_violations)}
    out_root = os.environ.get("VERIF_OUT", ROOT)
    os.makedirs(os.path.join(out_root, "evidence"), exist_ok=True)
    json.dump(ev, open(os.path.join(out_root, "evidence", f"{prop}.json"), "w"), indent=1, default=str)

    for l in kf_lines:
        print(l)
    print(f"{prop}: obligations={n_ob} discharged={n_dis} functions={len(fns)} bounded_evaluations={rt_report.get('evaluations', 0)} wall={ev['wall_s']}s")
    if crashes:
        for c in crashes:
            print("CHECKER-CRASH", c)
    shown = []
    for v in final_violations:
        if v not in shown:
            shown.append(v)
    for v in shown[:5]:
        print(v)
    if len(shown) > 5:
        print(f"({len(shown) - 5} more violations of {prop} recorded under /verif/replays)")
    if final_violations:
        return 1
    if crashes:
        return 3
    if undecided:
        for u in undecided:
            print("UNDECIDED", u)
        return 2
    if n_ob == 0 and not rt_report:
        print("CHECKER-CRASH no obligations and no bounded check")
        return 3
    return 0


def make_lock() -> None:
    from pyvc.props import PROPS
    obligations: dict[str, str] = {}
    functions: dict[str, str] = {}
    loops: dict[str, int] = {}
    for prop, spec in PROPS.items():
        results, _ = run_proofs(spec.get("areas", []), prop, 20000)
        if spec.get("custom"):
            results = results + importlib.import_module(spec["custom"]).run_custom("quick")
        for r in results:
            if r["status"] == "ok" and all(o["status"] == "discharged" for o in r["obligations"]) and r["obligations"]:
                functions[r["key"]] = r["fn_hash"]
                if r.get("loops", -1) >= 0:
                    loops[r["key"]] = r["loops"]
            for o in r["obligations"]:
                if o["status"] == "discharged":
                    obligations[o["name"]] = r["key"]
    os.makedirs(os.path.dirname(LOCK), exist_ok=True)
    json.dump({"obligations": obligations, "functions": functions, "loops": loops}, open(LOCK, "w"), indent=0, sort_keys=True)
    print(f"lock: {len(obligations)} obligations, {len(functions)} functions")
