"""Object sorts: instances of (possibly user-extended) class families, encoded as an uninterpreted
sort with one pure function per field and an integer class tag.

isinstance(o, C) becomes a disjunction over the class ids of C's known subclasses; every family
gets an extra open-world class "<Family>Other" standing for subclasses the library does not know."""
from __future__ import annotations

from typing import Any, Callable

import z3

from .values import (EngineError, Sort, USort, V, VBool, VCls, VInt, VOpt, VStr, VTerm, VU, get_sort, opt_of,
                     register_sort, usort)


class ObjFamily:
    def __init__(self, world: Any, sort_name: str, classes: dict[str, list[str]], fields: dict[str, Sort],
                 truthy: str = "true") -> None:
        self.world = world
        self.sort = usort(sort_name, truthy)
        self.classes = classes
        self.ids = {c: i for i, c in enumerate(classes)}
        self.fields = dict(fields)
        self.fn: dict[str, Any] = {n: z3.Function(f"{sort_name}_{n}", self.sort.z3(), s.z3()) for n, s in fields.items()}
        self.cls_fn = z3.Function(f"cls_{sort_name}", self.sort.z3(), z3.IntSort())
        for c, ps in classes.items():
            world.class_parents.setdefault(c, list(ps))
        world.attr_hooks.append(self._attr)
        world.isinstance_hooks.append(self._isinstance)
        self.class_attr: dict[tuple[str, str], Callable[[Any, V], V]] = {}

    def subclasses(self, c: str) -> list[str]:
        return [k for k in self.classes if self.world.is_subclass(k, c)]

    def is_class(self, term: Any, c: str) -> Any:
        subs = self.subclasses(c)
        if len(subs) == len(self.classes):
            return z3.BoolVal(True)
        if not subs:
            return z3.BoolVal(False)
        return z3.Or(*[self.cls_fn(term) == self.ids[s] for s in subs])

    def exact_class(self, term: Any, c: str) -> Any:
        return self.cls_fn(term) == self.ids[c]

    def wf_cls(self, term: Any) -> Any:
        return z3.And(self.cls_fn(term) >= 0, self.cls_fn(term) < len(self.classes))

    def get(self, v: VU, name: str) -> V:
        return self.fields[name].wrap(self.fn[name](v.term))

    def _attr(self, m: Any, obj: V, name: str) -> V | None:
        if isinstance(obj, VU) and obj.sort == self.sort:
            if name in self.fields:
                return self.get(obj, name)
            return None
        return None

    def _isinstance(self, m: Any, v: V, cls: V) -> Any:
        if isinstance(v, VU) and v.sort == self.sort and isinstance(cls, VCls):
            if cls.name in self.classes or any(self.world.is_subclass(k, cls.name) for k in self.classes):
                return self.is_class(v.term, cls.name)
            return z3.BoolVal(False)
        return None

    def fresh(self, hint: str, cls: str | None = None, m: Any = None) -> VU:
        o = self.sort.fresh(hint)
        assert isinstance(o, VU)
        if m is not None:
            m.ctx.assume(self.wf_cls(o.term))
            if cls is not None:
                m.ctx.assume(self.exact_class(o.term, cls))
        return o
