from __future__ import annotations

import argparse
import json
import os
import sys


def main() -> int:
    ap = argparse.ArgumentParser(prog="vp")
    sub = ap.add_subparsers(dest="cmd", required=True)
    c = sub.add_parser("check")
    c.add_argument("prop")
    c.add_argument("--tier", default=os.environ.get("VERIF_TIER", "quick"), choices=["quick", "thorough"])
    r = sub.add_parser("replay")
    r.add_argument("path")
    sub.add_parser("lock")
    sub.add_parser("validate")
    a = ap.parse_args()
    seed = int(os.environ.get("VERIF_SEED", "0") or 0)
    if a.cmd == "check":
        from pyvc.check import check_property
        return check_property(a.prop, a.tier, seed)
    if a.cmd == "lock":
        from pyvc.check import make_lock
        make_lock()
        return 0
    if a.cmd == "replay":
        from pyvc.check import ROOT, run_witness
        d = json.load(open(a.path))
        print(json.dumps({k: d[k] for k in d if k not in ("model",)}, indent=1)[:4000])
        if d.get("repro") and os.path.exists(os.path.join(ROOT, d["repro"])):
            rc, out = run_witness(os.path.join(ROOT, d["repro"]))
            print(out)
            return 1 if rc == 1 else 0
        if d.get("snippet"):
            import subprocess
            p = subprocess.run([sys.executable, "-c", d["snippet"]], capture_output=True, text=True)
            print(p.stdout + p.stderr)
            return 1 if p.returncode != 0 else 0
        return 1
    if a.cmd == "validate":
        import jsonschema
        root = os.path.dirname(os.path.dirname(os.path.abspath(__file__)))
        jsonschema.validate(json.load(open(f"{root}/MANIFEST.json")), json.load(open("/root/.vp/MANIFEST.schema.json")))
        es = json.load(open("/root/.vp/EVIDENCE.schema.json"))
        for f in sorted(os.listdir(f"{root}/evidence")):
            jsonschema.validate(json.load(open(f"{root}/evidence/{f}")), es)
            print("ok", f)
        return 0
    return 3


sys.exit(main())
