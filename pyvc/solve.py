"""Discharging obligations: z3 (Python API) first, /usr/bin/cvc5 on z3's unknowns."""
from __future__ import annotations

import os
import subprocess
import tempfile
import time
from typing import Any, Sequence

import z3

from .core import Obligation
from .specfn import SpecLib, instantiate

Z3_VERSION = z3.get_version_string()


def discharge(ob: Obligation, axioms: Sequence[Any], lib: SpecLib | None, timeout_ms: int, use_cvc5: bool = True,
              input_terms: dict[str, Any] | None = None, lemma_rules: set[str] | None = None, prefer_cvc5: bool = False) -> Obligation:
    t0 = time.time()
    hyps = list(ob.hyps)
    inst_used: dict[str, int] = {}
    if lib is not None and ob.bank is not None:
        insts, inst_used = instantiate(hyps + list(axioms), ob.goal, ob.bank, lib, lemma_rules=lemma_rules)
        hyps = hyps + insts
    s = z3.Solver()
    s.set("timeout", timeout_ms)
    for a in axioms:
        s.add(a)
    for h in hyps:
        s.add(h)
    s.add(z3.Not(ob.goal))
    if prefer_cvc5 and os.path.exists("/usr/bin/cvc5"):
        # string-heavy lemmas: cvc5 decides the alphabet / delimiter steps that z3's seq solver times out on
        st = _cvc5(s.to_smt2(), max(2, timeout_ms // 2000))
        if st == "unsat":
            ob.status, ob.backend, ob.seconds = "discharged", "cvc5-1.0", time.time() - t0
            ob.inputs = {"rule_instances": inst_used}
            return ob
    r = s.check()
    ob.seconds = time.time() - t0
    ob.backend = f"z3-{Z3_VERSION}"
    ob.inputs = {"rule_instances": inst_used}
    if r == z3.unsat:
        ob.status = "discharged"
        return ob
    if r == z3.sat:
        ob.status = "refuted"
        mdl = s.model()
        ob.model = str(mdl)[:4000]
        if input_terms:
            vals = {}
            for k, t in input_terms.items():
                try:
                    vals[k] = str(mdl.eval(t, model_completion=True))
                except Exception:
                    pass
            ob.inputs["model_inputs"] = vals
        return ob
    ob.status = "unknown"
    ob.model = s.reason_unknown()
    if use_cvc5 and os.path.exists("/usr/bin/cvc5"):
        smt = s.to_smt2()
        st = _cvc5(smt, max(2, timeout_ms // 1000))
        if st == "unsat":
            ob.status = "discharged"
            ob.backend = "cvc5-1.0"
        elif st == "sat":
            ob.status = "refuted"
            ob.backend = "cvc5-1.0"
        ob.seconds = time.time() - t0
    return ob


def _cvc5(smt: str, timeout_s: int) -> str:
    with tempfile.NamedTemporaryFile("w", suffix=".smt2", delete=False, dir=os.environ.get("TMPDIR", "/tmp")) as f:
        f.write("(set-logic ALL)\n" + smt)
        path = f.name
    try:
        p = subprocess.run(["/usr/bin/cvc5", "--strings-exp", f"--tlimit={timeout_s * 1000}", path],
                           capture_output=True, text=True, timeout=timeout_s + 5)
        out = p.stdout.strip().split("\n")[0] if p.stdout.strip() else ""
        return out if out in ("sat", "unsat") else "unknown"
    except Exception:
        return "unknown"
    finally:
        try:
            os.unlink(path)
        except OSError:
            pass


def smt2_of(ob: Obligation, axioms: Sequence[Any]) -> str:
    s = z3.Solver()
    for a in axioms:
        s.add(a)
    for h in ob.hyps:
        s.add(h)
    s.add(z3.Not(ob.goal))
    return s.to_smt2()
