"""Sidecar contracts: pre/postconditions, exceptional postconditions, loop invariants, frames.

Clauses are Python expressions (strings) evaluated by the *same* evaluator that executes the real
code, in "spec mode" (pure, total, no path splitting), over the parameters, `result`, `old(...)`,
ghost names and the spec functions of /verif/spec.
"""
from __future__ import annotations

from dataclasses import dataclass, field
from typing import Any, Callable


@dataclass
class Loop:
    inv: list[str] = field(default_factory=list)
    decreases: str | None = None
    # extra lemma / unfolding instances, evaluated where the invariant is checked or assumed
    use: list[str] = field(default_factory=list)
    # sorts of locals first assigned inside the loop and read by the invariant
    note: str = ""


@dataclass
class Contract:
    fn: str  # "module:qualname"
    params: dict[str, str] = field(default_factory=dict)  # name -> sort name
    requires: list[str] = field(default_factory=list)
    ensures: list[str] = field(default_factory=list)
    # exceptional postconditions: (exception class name, condition over the entry state).
    # The function raises E exactly when cond holds (first matching clause wins).
    raises: list[tuple[str, str]] = field(default_factory=list)
    # exceptions that may escape without a stated condition (e.g. propagated from callbacks)
    may_raise: list[str] = field(default_factory=list)
    # postconditions that must hold on *every* exceptional exit (e.g. "options are reset")
    exc_ensures: list[str] = field(default_factory=list)
    # clauses checked in the caller's state right before each call of the named callee
    call_requires: dict[str, list[str]] = field(default_factory=dict)
    loops: dict[int, Loop] = field(default_factory=dict)
    locals: dict[str, str] = field(default_factory=dict)  # declared sorts of locals
    globals: dict[str, str] = field(default_factory=dict)  # symbolic module globals, e.g. config.X
    modifies: list[str] = field(default_factory=list)
    returns: str | None = None  # result sort (needed when the function is only *called*)
    generator: bool = False  # result denotes the whole yielded sequence
    trusted: bool = False  # contract is assumed, the body is not verified (dependency / builtin)
    trusted_reason: str = ""
    props: list[str] = field(default_factory=list)  # properties this contract serves
    use: list[str] = field(default_factory=list)  # lemma instances for the postcondition
    decreases: str | None = None
    variant_of: str | None = None  # verify the same body under another parameter typing
    ghost: dict[str, str] = field(default_factory=dict)  # ghost params: name -> sort
    pure: bool = True
    note: str = ""
    # verified text supplied directly (run-time generated code captured from exec): (ModuleSrc, FunctionDef)
    source: Any = None
    # extra obligations computed from the final state: hook(machine) -> [(name, z3 Bool)]
    post_hook: Callable[..., Any] | None = None
    # optional hook run by the machine at function entry (plugins: symbolic self.__class__ etc.)
    setup: Callable[..., Any] | None = None

    @property
    def def_index(self) -> int | None:
        v = self.variant_of or ""
        return int(v[3:]) if v.startswith("def") and v[3:].isdigit() else None

    @property
    def module(self) -> str:
        return self.fn.split(":")[0]

    @property
    def qualname(self) -> str:
        return self.fn.split(":")[1]

    @property
    def key(self) -> str:
        return self.variant_of and f"{self.fn}#{self.variant_of}" or self.fn


class Registry:
    def __init__(self) -> None:
        self.contracts: dict[str, Contract] = {}

    def add(self, c: Contract) -> Contract:
        self.contracts[c.key] = c
        return c

    def get(self, fn: str) -> Contract | None:
        return self.contracts.get(fn)

    def by_short(self, module: str, name: str) -> Contract | None:
        return self.contracts.get(f"{module}:{name}")

    def all(self) -> list[Contract]:
        return list(self.contracts.values())
