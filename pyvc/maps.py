"""dict / set models: z3 arrays K -> Opt[V] (dict) and K -> Bool (set), plus an insertion-ordered
key sequence when order is observable."""
from __future__ import annotations

import ast
from typing import Any

import z3

from .core import mk_snoc
from .values import (NONE, EngineError, OptSort, SeqSort, Sort, V, VBool, VHeapRef, VInt, VNone, VOpt,
                     VPy, VSeq, VTerm, VTuple, _sort_cache, get_sort, opt_of, register_sort, seq_of)


class MapSort(Sort):
    def __init__(self, key: Sort, val: Sort) -> None:
        self.key, self.val = key, val
        self.opt = opt_of(val)
        self.name = f"Map[{key.name},{val.name}]"

    def z3(self) -> z3.SortRef:
        return z3.ArraySort(self.key.z3(), self.opt.z3())

    def wrap(self, term: Any) -> "VMap":
        return VMap(term, self)

    def empty(self) -> "VMap":
        return VMap(z3.K(self.key.z3(), self.opt.none().term), self)


class SetSort(Sort):
    def __init__(self, key: Sort) -> None:
        self.key = key
        self.name = f"Set[{key.name}]"

    def z3(self) -> z3.SortRef:
        return z3.ArraySort(self.key.z3(), z3.BoolSort())

    def wrap(self, term: Any) -> "VSet":
        return VSet(term, self)

    def empty(self) -> "VSet":
        return VSet(z3.K(self.key.z3(), z3.BoolVal(False)), self)


class VMap(VTerm):
    def __init__(self, term: Any, sort: MapSort) -> None:
        self.term, self.sort = term, sort


class VSet(VTerm):
    def __init__(self, term: Any, sort: SetSort) -> None:
        self.term, self.sort = term, sort


def map_sort(k: Sort, v: Sort) -> MapSort:
    name = f"Map[{k.name},{v.name}]"
    if name not in _sort_cache:
        _sort_cache[name] = MapSort(k, v)
    return _sort_cache[name]  # type: ignore[return-value]


def set_sort(k: Sort) -> SetSort:
    name = f"Set[{k.name}]"
    if name not in _sort_cache:
        _sort_cache[name] = SetSort(k)
    return _sort_cache[name]  # type: ignore[return-value]


def parse_container_sort(name: str) -> Sort:
    """'Map[str,Ref]' / 'Set[str]' / anything get_sort knows."""
    name = name.strip()
    if name.startswith("Map[") or name.startswith("Dict["):
        inner = name[name.index("[") + 1:-1]
        depth, cut = 0, -1
        for i, ch in enumerate(inner):
            depth += ch == "["
            depth -= ch == "]"
            if ch == "," and depth == 0:
                cut = i
                break
        return map_sort(parse_container_sort(inner[:cut]), parse_container_sort(inner[cut + 1:]))
    if name.startswith("Set["):
        return set_sort(parse_container_sort(name[4:-1]))
    return get_sort(name)


# ---- dict cells --------------------------------------------------------------------------------


def new_dict_cell(m: Any, hint: str, ordered: bool = False) -> VHeapRef:
    ms = parse_container_sort(hint.replace("ODict[", "Map[").replace("Dict[", "Map["))
    assert isinstance(ms, MapSort)
    extra = {"keys": seq_of(ms.key).empty()} if ordered or hint.startswith("ODict[") else {}
    return VHeapRef(m.ctx.alloc("dict", ms.empty(), extra), "dict")


def new_dict(m: Any, e: ast.Dict, hint: str | None) -> V:
    if hint is None:
        raise EngineError(f"{m.contract.key}: dict display needs a declared sort in contract.locals")
    ref = new_dict_cell(m, hint)
    cell = m.ctx.cell(ref.addr)
    for k, v in zip(e.keys, e.values):
        if k is None:
            raise EngineError("dict unpacking in display")
        dict_store(m, cell, m.eval(k), m.eval(v))
    return ref


def eval_dictcomp(m: Any, e: ast.DictComp, hint: str | None) -> V:
    h = getattr(m.world, "dictcomp_hook", None)
    if h is not None:
        r = h(m, e, hint)
        if r is not None:
            return r
    raise EngineError("dict comprehension (needs an area hook)")


def havoc_dict(m: Any, cell: Any) -> None:
    cell.value = cell.value.sort.fresh("dict")
    if "keys" in cell.extra:
        cell.extra["keys"] = cell.extra["keys"].sort.fresh("keys")


def _key(cell: Any, k: V) -> Any:
    return cell.value.sort.key.coerce(k).term


def dict_lookup(cell: Any, k: V) -> VOpt:
    ms: MapSort = cell.value.sort
    return VOpt(z3.Select(cell.value.term, _key(cell, k)), ms.opt)


def dict_contains(m: Any, cell: Any, k: V) -> Any:
    o = dict_lookup(cell, k)
    return z3.Not(o.sort.is_none(o.term))


def map_contains(m: Any, mp: VMap, k: V) -> Any:
    o = z3.Select(mp.term, mp.sort.key.coerce(k).term)
    return z3.Not(mp.sort.opt.is_none(o))


def map_getitem(m: Any, mp: VMap, k: V) -> V:
    o = z3.Select(mp.term, mp.sort.key.coerce(k).term)
    if m.spec:
        return VOpt(o, mp.sort.opt)
    raise EngineError("subscript of a map value outside spec mode")


def dict_store(m: Any, cell: Any, k: V, v: V) -> None:
    ms: MapSort = cell.value.sort
    kt = _key(cell, k)
    try:
        ms.val.coerce(v if not isinstance(v, VHeapRef) else m.ctx.cell(v.addr).value)
    except EngineError:
        for h in getattr(m.world, "coerce_hooks", []):
            alt = h(m, v, ms.val.name)
            if alt is not None:
                v = alt
                break
    if "keys" in cell.extra:
        keys: VSeq = cell.extra["keys"]
        present = z3.Not(ms.opt.is_none(z3.Select(cell.value.term, kt)))
        sp = z3.simplify(present)
        if z3.is_true(sp):
            pass
        elif z3.is_false(sp) or (not m.spec and not m.ctx.branch(present)):
            # a new key goes to the end of the insertion order (a path split keeps the key list a syntactic snoc)
            t = mk_snoc(keys.term, kt)
            m.ctx.bank.add(t, ("snoc", keys.term, kt))
            cell.extra["keys"] = VSeq(t, keys.sort)
        elif m.spec:
            cell.extra["keys"] = VSeq(z3.If(present, keys.term, mk_snoc(keys.term, kt)), keys.sort)
    cell.value = VMap(z3.Store(cell.value.term, kt, ms.opt.some(v).term), ms)


def dict_delete(m: Any, cell: Any, k: V) -> None:
    from .symex import RaiseSig
    from .values import VExc

    if not m.ctx.branch(dict_contains(m, cell, k)):
        raise RaiseSig(VExc("KeyError"))
    _remove(cell, k)


def _remove(cell: Any, k: V) -> None:
    ms: MapSort = cell.value.sort
    if "keys" in cell.extra:
        raise EngineError("removal from an order-observed dict")
    cell.value = VMap(z3.Store(cell.value.term, _key(cell, k), ms.opt.none().term), ms)


def dict_getitem(m: Any, cell: Any, k: V) -> V:
    from .symex import RaiseSig
    from .values import VExc

    o = dict_lookup(cell, k)
    if not m.spec and not m.ctx.branch(z3.Not(o.sort.is_none(o.term))):
        raise RaiseSig(VExc("KeyError"))
    return o.sort.elem.wrap(o.sort.val(o.term))


def dict_len(m: Any, cell: Any) -> V:
    if "keys" in cell.extra:
        return VInt(z3.Length(cell.extra["keys"].term))
    raise EngineError("len() of an unordered dict model")


def dict_nonempty(m: Any, cell: Any) -> Any:
    if "keys" in cell.extra:
        return z3.Length(cell.extra["keys"].term) > 0
    raise EngineError("truthiness of an unordered dict model")


def dict_keys(m: Any, cell: Any) -> VSeq:
    if "keys" in cell.extra:
        return cell.extra["keys"]
    raise EngineError("iteration over an unordered dict model")


def dict_items_stream(m: Any, cell: Any) -> dict:
    """for k, v in d.items(): iterate the insertion-ordered key list; v is the value stored under k.
    Needs the ordered model (ODict); that every listed key is present is the area's data-structure invariant."""
    if "keys" not in cell.extra:
        raise EngineError("dict.items() iteration over an unordered dict model")
    a = m.ctx.alloc("iter", cell.extra["keys"])
    mp = cell.value
    ms: MapSort = mp.sort

    def shape(items: list, dones: list) -> V:
        from .values import VTuple
        k = items[0]
        return VTuple([k, ms.val.wrap(ms.opt.val(z3.Select(mp.term, ms.key.coerce(k).term)))])
    return {"cells": [(a, True)], "shape": shape}


def dict_method(m: Any, cell: Any, name: str, args: list[V], kwargs: dict[str, V]) -> V:
    ms: MapSort = cell.value.sort
    if name == "get":
        o = dict_lookup(cell, args[0])
        if len(args) == 1 or isinstance(args[1], VNone):
            return o
        d = ms.val.coerce(args[1]) if not isinstance(args[1], VOpt) else args[1]
        if isinstance(d, VOpt):
            return VOpt(z3.If(o.sort.is_none(o.term), d.term, o.term), o.sort)
        return ms.val.wrap(z3.If(o.sort.is_none(o.term), d.term, o.sort.val(o.term)))
    if name == "pop":
        o = dict_lookup(cell, args[0])
        if len(args) == 1:
            from .symex import RaiseSig
            from .values import VExc
            if not m.ctx.branch(z3.Not(o.sort.is_none(o.term))):
                raise RaiseSig(VExc("KeyError"))
            _remove(cell, args[0])
            return o.sort.elem.wrap(o.sort.val(o.term))
        _remove(cell, args[0])
        if isinstance(args[1], VNone):
            return o
        raise EngineError("dict.pop with non-None default")
    if name == "setdefault" and len(args) == 2:
        # d.setdefault(k, v): keep the present value, otherwise store v; returns the value now stored
        if m.ctx.branch(dict_contains(m, cell, args[0])):
            o = dict_lookup(cell, args[0])
            return o.sort.elem.wrap(o.sort.val(o.term))
        dict_store(m, cell, args[0], args[1])
        return ms.val.coerce(args[1])
    if name == "keys":
        return dict_keys(m, cell)
    if name == "items":
        return VPy(("dict_items", cell))
    if name == "update":
        raise EngineError("dict.update (needs an area hook)")
    raise EngineError(f"dict method {name} not modelled")


# ---- set cells ---------------------------------------------------------------------------------


def new_set_cell(m: Any, hint: str) -> VHeapRef:
    ss = parse_container_sort(hint)
    assert isinstance(ss, SetSort)
    return VHeapRef(m.ctx.alloc("set", ss.empty()), "set")


def set_contains(m: Any, cell: Any, k: V) -> Any:
    return z3.Select(cell.value.term, cell.value.sort.key.coerce(k).term)


def set_method(m: Any, cell: Any, name: str, args: list[V]) -> V:
    ss: SetSort = cell.value.sort
    if name == "add":
        cell.value = VSet(z3.Store(cell.value.term, ss.key.coerce(args[0]).term, z3.BoolVal(True)), ss)
        return NONE
    if name == "discard":
        cell.value = VSet(z3.Store(cell.value.term, ss.key.coerce(args[0]).term, z3.BoolVal(False)), ss)
        return NONE
    raise EngineError(f"set method {name} not modelled")
