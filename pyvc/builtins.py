"""Calls: builtins, container methods, closures, constructors, contracted functions."""
from __future__ import annotations

import ast
from typing import Any

import z3

from .core import mk_cons, mk_snoc
from .values import (BOOL, INT, NONE, STR, EngineError, OptSort, RecSort, SeqSort, V, VBool, VBound,
                     VCls, VExc, VHeapRef, VInt, VModule, VNone, VOpt, VPy, VRec, VSeq, VStr, VTerm,
                     VTuple, VU, fresh_name, get_sort, opt_of, seq_of)


def call_value(m: Any, func: V, args: list[V], kwargs: dict[str, V], node: ast.Call | None, hint: str | None = None) -> V:
    from .symex import RaiseSig

    for h in m.world.call_hooks:
        r = h(m, func, args, kwargs, node)
        if r is not NotImplemented:
            return r
    if isinstance(func, VPy) and isinstance(func.obj, tuple):
        tag = func.obj[0]
        if tag == "builtin":
            return call_builtin(m, func.obj[1], args, kwargs, node, hint)
        if tag == "contract":
            return m.call_contract(func.obj[1], args, kwargs)
        if tag == "specfn":
            return func.obj[1](*args)
        if tag == "old":
            # re-evaluate the argument expression in the entry state
            assert node is not None
            saved = (m.env, m._spec_old_mode)
            try:
                env = dict(m.old_env)
                env.update({k: v for k, v in m.ghost_env.items()})
                m.env = env
                m._spec_old_mode = True
                return m.eval(node.args[0])
            finally:
                m.env, m._spec_old_mode = saved
        if tag == "implies":
            return VBool(z3.Implies(m.truth(args[0]), m.truth(args[1])))
        if tag in ("closure", "lambda"):
            return call_closure(m, func.obj, args, kwargs)
        if tag == "clsattr":
            cls, name = func.obj[1], func.obj[2]
            key = m.world.mro_lookup(cls, name)
            if key is not None:
                return m.call_contract(key, args, kwargs)
            if cls == "object" and name == "__setattr__":
                return call_value(m, VPy(("setattr",)), args, kwargs, node)
        if tag == "modattr":
            ext = getattr(m.world, "extern_calls", {}).get((func.obj[1], func.obj[2]))
            if ext is not None:
                from .symex import RaiseSig as _RS
                ret_sort, may_raise = ext
                if may_raise and not m.spec and m.ctx.branch(z3.Bool(fresh_name("extern_raises"))):
                    raise _RS(VExc(may_raise))
                fn_model = getattr(m.world, "extern_fns", {}).get((func.obj[1], func.obj[2]))
                if fn_model is not None:
                    return fn_model(m, args, kwargs)       # a deterministic (uninterpreted) function of the arguments
                return NONE if ret_sort is None else m.fresh_of(ret_sort, func.obj[2])
            raise EngineError(f"call of {func.obj[1]}.{func.obj[2]} not modelled")
    if isinstance(func, VBound):
        return call_method(m, func.recv, func.name, args, kwargs, node)
    if isinstance(func, VCls):
        return construct(m, func.name, args, kwargs)
    raise EngineError(f"{m.contract.key}: call of {func!r} not modelled ({ast.unparse(node)[:60] if node else ''})")


def call_closure(m: Any, obj: tuple, args: list[V], kwargs: dict[str, V]) -> V:
    """Local closures and lambdas are executed inline (they have no identity of their own in the
    properties; their enclosing function's contract covers them)."""
    from .symex import ReturnSig

    tag, node, defenv = obj
    env = dict(defenv)
    a = node.args
    pos = [x.arg for x in a.posonlyargs + a.args]
    for n, v in zip(pos, args):
        env[n] = v
    env.update(kwargs)
    defaults = dict(zip(reversed(pos), reversed(a.defaults)))
    for n, d in defaults.items():
        if n not in env:
            env[n] = m.eval(d)
    saved = m.env
    try:
        m.env = env
        if tag == "lambda":
            return m.eval(node.body)
        try:
            m.exec_block(node.body)
        except ReturnSig as r:
            return r.value
        return NONE
    finally:
        m.env = saved


def construct(m: Any, cls: str, args: list[V], kwargs: dict[str, V]) -> V:
    from .symex import RaiseSig

    w = m.world
    if cls in w.exc_parents:
        return VExc(cls, args)
    rs = w.rec_of_class.get(cls)
    if rs is not None:
        init_fields = [f for f in rs.fields if not rs_meta(rs).get("noinit", {}).get(f[0])]
        vals: dict[str, V] = {}
        for (fn, _), v in zip(init_fields, args):
            vals[fn] = v
        vals.update(kwargs)
        missing = [fn for fn, _ in rs.fields if fn not in vals]
        defaults = rs_meta(rs).get("defaults", {})
        for fn in list(missing):
            if fn in defaults:
                vals[fn] = defaults[fn](m)
                missing.remove(fn)
        if missing:
            raise EngineError(f"constructor {cls}: missing fields {missing}")
        obj = rs.mk(*[vals[fn] for fn, _ in rs.fields])
        key = w.mro_lookup(cls, "__post_init__")
        if key is not None:
            r = m.call_contract(key, [obj], {})
            # a __post_init__ contract may return the (normalised) object
            if isinstance(r, VRec):
                return r
        return obj
    raise EngineError(f"{m.contract.key}: constructor {cls} not modelled")


def rs_meta(rs: RecSort) -> dict:
    return getattr(rs, "meta", {})


# ------------------------------------------------------------------------------------------------
# builtins
# ------------------------------------------------------------------------------------------------


def call_builtin(m: Any, name: str, args: list[V], kwargs: dict[str, V], node: ast.Call | None, hint: str | None) -> V:
    from .symex import RaiseSig

    if name == "id" and len(args) == 1 and isinstance(args[0], (VU, VOpt)):
        # id(x) of an object: injective on live objects; modelled as the object itself (only ever used as a dictionary / set key or compared)
        return args[0]
    if name == "set" and not args:
        if not (hint and hint.startswith("Set[")):
            raise EngineError(f"{m.contract.key}: set() needs a declared sort in contract.locals")
        from .maps import new_set_cell
        return new_set_cell(m, hint)
    if name == "len":
        v = args[0]
        if isinstance(v, VTuple):
            return VInt(len(v.items))
        if isinstance(v, VStr):
            return VInt(z3.Length(v.term))
        s = m.seq_value(v)
        if s is not None:
            return VInt(z3.Length(s.term))
        if isinstance(v, VHeapRef) and m.ctx.cell(v.addr).kind == "dict":
            from .maps import dict_len
            return dict_len(m, m.ctx.cell(v.addr))
        r = m.call_dunder(v, "__len__", [])
        if r is not None:
            return r
        raise EngineError(f"len of {v!r}")
    if name == "isinstance":
        return VBool(isinstance_term(m, args[0], args[1]))
    if name == "issubclass":
        a, b = args
        if isinstance(a, VCls) and isinstance(b, VCls):
            return VBool(m.world.is_subclass(a.name, b.name))
        raise EngineError("issubclass on symbolic classes (needs an area hook)")
    if name in ("min", "max"):
        if len(args) == 2:
            a, b = args
            # CPython: max(a, b) keeps a unless b > a ; min(a, b) keeps a unless b < a
            cond = m.compare(ast.Gt() if name == "max" else ast.Lt(), b, a)
            if m.spec:
                return m.ite(cond, b, a)
            return b if m.ctx.branch(cond) else a
        raise EngineError(f"{name} with {len(args)} args")
    if name in ("list", "tuple", "deque", "Deque"):
        if not args:
            if name == "tuple":
                return VTuple([])
            return m.new_list([], hint, "deque" if name in ("deque", "Deque") else "list")
        v = args[0]
        if isinstance(v, VPy) and isinstance(v.obj, tuple) and v.obj[0] == "genexp":
            v = eval_listcomp(m, v.obj[1], hint, env=v.obj[2], as_value=True)
        if isinstance(v, VPy) and isinstance(v.obj, tuple) and v.obj[0] == "reversed":
            v = v.obj[1]
            sv0 = m.seq_value(v) if not isinstance(v, VSeq) else v
            rev = m.world.spec_fns.get("rev")
            if rev is None or sv0 is None:
                raise EngineError("list(reversed(x)) needs spec function rev")
            v = rev(sv0)
        if isinstance(v, VTuple):
            if name == "tuple":
                return v
            return m.new_list(v.items, hint, "list")
        sv = m.seq_value(v) if not isinstance(v, VSeq) else v
        if isinstance(v, VHeapRef) and m.ctx.cell(v.addr).kind == "iter":
            sv = m.ctx.cell(v.addr).value
            m.ctx.cell(v.addr).value = sv.sort.empty()
        if isinstance(v, VHeapRef) and m.ctx.cell(v.addr).kind == "dict":
            from .maps import dict_keys
            sv = dict_keys(m, m.ctx.cell(v.addr))
        if sv is None:
            raise EngineError(f"{name}() of {v!r}")
        if name == "tuple" or m.spec:
            return sv
        kind = "deque" if name in ("deque", "Deque") else "list"
        return VHeapRef(m.ctx.alloc(kind, sv), kind)
    if name == "reversed":
        # an area that declares rev_for_iter gets a real (stateful, shareable) iterator over the reversed sequence
        revf = m.world.spec_fns.get("rev_for_iter")
        sv0 = m.seq_value(args[0]) if not isinstance(args[0], VSeq) else args[0]
        if revf is not None and sv0 is not None and not m.spec:
            try:
                return VHeapRef(m.ctx.alloc("iter", revf(sv0)), "iter")
            except EngineError:
                pass
        return VPy(("reversed", args[0]))
    if name == "iter":
        sv = m.seq_value(args[0]) if not isinstance(args[0], VSeq) else args[0]
        if sv is None:
            raise EngineError("iter()")
        return VHeapRef(m.ctx.alloc("iter", sv), "iter")
    if name == "next":
        it = args[0]
        if isinstance(it, VSeq):  # a generator's output, consumed through a fresh iterator
            it = VHeapRef(m.ctx.alloc("iter", it), "iter")
        if not (isinstance(it, VHeapRef) and m.ctx.cell(it.addr).kind == "iter"):
            raise EngineError("next() on a non-iterator")
        cell = m.ctx.cell(it.addr)
        r: VSeq = cell.value
        if m.ctx.branch(z3.Length(r.term) > 0):
            x = r.sort.elem.fresh("nx")
            r2 = r.sort.fresh("rest")
            m.ctx.assume(r.term == mk_cons(x.term, r2.term))
            m.ctx.bank.add(r.term, ("cons", x.term, r2.term))
            cell.value = r2
            m.ghost_env["last_next"] = x
            return x
        m.ctx.assume(z3.Length(r.term) == 0)
        cell.value = r.sort.empty()
        if len(args) > 1:
            return args[1]
        raise RaiseSig(VExc("StopIteration"))
    if name == "enumerate":
        return VPy(("enumerate", args[0]))
    if name == "zip":
        strict = kwargs.get("strict")
        st = isinstance(strict, VBool) and z3.is_true(strict.term)
        return VPy(("zip", list(args), st))
    if name in ("any", "all"):
        return any_all(m, name, args[0])
    if name == "str":
        return m.to_str(args[0])
    if name == "int":
        v = args[0]
        if isinstance(v, VInt):
            return v
        if isinstance(v, VStr):
            # int(s) for a string of decimal digits; other strings raise ValueError
            ok = z3.And(z3.Length(v.term) > 0, z3.StrToInt(v.term) >= 0)
            if not m.spec and not m.ctx.branch(ok):
                raise RaiseSig(VExc("ValueError"))
            return VInt(z3.StrToInt(v.term))
        raise EngineError("int()")
    if name == "bool":
        return VBool(m.truth(args[0]))
    if name == "type":
        v = args[0]
        cls = m.py_class_of(v)
        if cls is not None:
            return VCls(cls)
        raise EngineError(f"type() of {v!r} (needs an area hook)")
    if name in ("getattr", "hasattr", "setattr"):
        if name == "getattr" and isinstance(args[1], VStr) and z3.is_string_value(args[1].term):
            # an attribute the model does not know is *not* known to be absent: never fall back to the default
            return m.getattr(args[0], args[1].term.as_string())
        raise EngineError(f"{name} with a symbolic name (needs an area hook)")
    if name == "sorted":
        raise EngineError("sorted() (needs an area hook)")
    if name == "hash":
        raise EngineError("hash() (needs an area hook)")
    if name == "print":
        return NONE
    if name == "repr":
        return m.to_str(args[0], ord("r"))
    raise EngineError(f"{m.contract.key}: builtin {name} not modelled")


def isinstance_term(m: Any, v: V, cls: V) -> Any:
    if isinstance(cls, VTuple):
        ts = [isinstance_term(m, v, c) for c in cls.items]
        return z3.Or(*ts) if ts else z3.BoolVal(False)
    if isinstance(cls, VPy) and isinstance(cls.obj, tuple) and cls.obj[0] == "builtin":
        cls = VCls(cls.obj[1])
    for h in m.world.isinstance_hooks:
        r = h(m, v, cls)
        if r is not None and r is not NotImplemented:
            return r
    if isinstance(v, VOpt):
        inner = v.sort.elem.wrap(v.sort.val(v.term))
        return z3.And(z3.Not(v.sort.is_none(v.term)), isinstance_term(m, inner, cls))
    if not isinstance(cls, VCls):
        raise EngineError(f"isinstance against {cls!r}")
    c = cls.name
    if isinstance(v, VNone):
        return z3.BoolVal(c in ("NoneType", "object"))
    if isinstance(v, VBool):
        return z3.BoolVal(c in ("bool", "int", "object"))
    if isinstance(v, VInt):
        return z3.BoolVal(c in ("int", "object"))
    if isinstance(v, VStr):
        return z3.BoolVal(c in ("str", "object", "Sequence", "Collection", "Iterable"))
    if isinstance(v, VTuple):
        return z3.BoolVal(c in ("tuple", "object", "Sequence", "Collection", "Iterable", "Tuple"))
    if isinstance(v, VRec):
        if v.sort.pycls is None:
            if v.sort.tuple_like:
                return z3.BoolVal(c in ("tuple", "object"))
            raise EngineError(f"isinstance on record {v.sort.name} without a Python class")
        return z3.BoolVal(m.world.is_subclass(v.sort.pycls, c))
    if isinstance(v, VSeq):
        kind = getattr(v.sort, "pykind", "tuple")
        return z3.BoolVal(c in (kind, "object", "Sequence", "Collection", "Iterable"))
    if isinstance(v, VHeapRef):
        k = m.ctx.cell(v.addr).kind
        return z3.BoolVal(c in (k, "object", "Sequence", "Collection", "Iterable") or (k == "dict" and c in ("Mapping", "dict")))
    if isinstance(v, VExc):
        return z3.BoolVal(m.world.is_subclass(v.cls, c))
    if isinstance(v, VCls):
        return z3.BoolVal(c in ("type", "object"))
    raise EngineError(f"isinstance({v!r}, {c}) not modelled (needs an area hook)")


def any_all(m: Any, name: str, arg: V) -> V:
    """any/all over a generator expression with a single `for` over a sequence.

    Two-implication skolem form (DESIGN section 2.5): for r = all(P(x) for x in xs)
      not r  =>  exists witness index w with not P(xs[w])          (fresh w)
      r      =>  P(xs[t]) for every instantiation term t, supplied later through `forall_facts`
    Implemented by branching on a fresh Bool and recording the universal half as a deferred
    fact that the executor instantiates whenever it indexes / iterates the same sequence."""
    if not (isinstance(arg, VPy) and isinstance(arg.obj, tuple) and arg.obj[0] == "genexp"):
        raise EngineError(f"{name}() of a non-generator")
    ge: ast.GeneratorExp = arg.obj[1]
    env = arg.obj[2]
    for h in getattr(m.world, "anyall_hooks", []):
        r = h(m, name, ge, env)
        if r is not None:
            return r
    if len(ge.generators) != 1:
        raise EngineError(f"{name}(): nested comprehension")
    gen = ge.generators[0]
    saved = m.env
    try:
        m.env = dict(env)
        it = m.eval(gen.iter)
        # concrete tuple: plain unrolling with Python's short-circuit order
        if isinstance(it, VTuple):
            acc: list[Any] = []
            for item in it.items:
                m.assign(gen.target, item)
                conds = [m.truth(m.eval(c)) for c in gen.ifs]
                body = m.truth(m.eval(ge.elt))
                g = z3.And(*conds) if conds else z3.BoolVal(True)
                acc.append(z3.Implies(g, body) if name == "all" else z3.And(g, body))
            if not acc:
                return VBool(name == "all")
            return VBool(z3.And(*acc) if name == "all" else z3.Or(*acc))
        streams = None
        if isinstance(it, VPy) and isinstance(it.obj, tuple) and it.obj[0] == "zip":
            seqs = [m.seq_value(x) if not isinstance(x, VSeq) else x for x in it.obj[1]]
            seqs = [s if s is not None else _tuple_as_seq(m, x) for s, x in zip(seqs, it.obj[1])]
        else:
            sv = m.seq_value(it) if not isinstance(it, VSeq) else it
            if sv is None:
                raise EngineError(f"{name}() over {it!r}")
            seqs = [sv]
        n = z3.Length(seqs[0].term)
        for s in seqs[1:]:
            n = z3.If(z3.Length(s.term) < n, z3.Length(s.term), n)

        def body_at(idx: Any) -> Any:
            items = [s.sort.elem.wrap(s.term[idx]) for s in seqs]
            m.assign(gen.target, items[0] if len(items) == 1 else VTuple(items))
            was = m.spec
            m.spec = True  # the element predicate is evaluated as a pure term
            try:
                conds = [m.truth(m.eval(c)) for c in gen.ifs]
                b = m.truth(m.eval(ge.elt))
            finally:
                m.spec = was
            g = z3.And(*conds) if conds else z3.BoolVal(True)
            return z3.Implies(g, b) if name == "all" else z3.And(g, b)

        r = z3.Bool(fresh_name(name))
        w = z3.Int(fresh_name("w"))
        if name == "all":
            # not r => witness violates
            m.ctx.assume(z3.Implies(z3.Not(r), z3.And(w >= 0, w < n, z3.Not(body_at(w)))))
            m.forall_facts.append((seqs, n, lambda i: z3.Implies(r, body_at(i))))
        else:
            m.ctx.assume(z3.Implies(r, z3.And(w >= 0, w < n, body_at(w))))
            m.forall_facts.append((seqs, n, lambda i: z3.Implies(z3.Not(r), z3.Not(body_at(i)))))
        return VBool(r)
    finally:
        m.env = saved


def _tuple_as_seq(m: Any, v: V) -> VSeq:
    raise EngineError(f"zip over {v!r}")


def eval_listcomp(m: Any, e: Any, hint: str | None, env: dict | None = None, as_value: bool = False) -> V:
    """[f(x) for x in xs]: a fresh sequence r with len(r) == len(xs) (no `if`), whose elements are
    related to xs through a map spec function when the area registers one for this comprehension
    (keyed by the unparsed element expression); otherwise only concrete tuples are supported."""
    if len(e.generators) != 1:
        raise EngineError("nested comprehension")
    gen = e.generators[0]
    saved = m.env
    try:
        if env is not None:
            m.env = dict(env)
        it = m.eval(gen.iter)
        if isinstance(it, VTuple):
            out: list[V] = []
            for item in it.items:
                m.assign(gen.target, item)
                if all(z3.is_true(z3.simplify(m.truth(m.eval(c)))) for c in gen.ifs):
                    out.append(m.eval(e.elt))
                elif gen.ifs:
                    raise EngineError("comprehension filter over symbolic condition")
            if as_value:
                return VTuple(out)
            return m.new_list(out, hint, "list") if out or hint else VTuple(out)
        key = ast.unparse(e.elt) + " for " + ast.unparse(gen.target) + " in"
        hook = m.world.comp_hooks.get(key) if hasattr(m.world, "comp_hooks") else None
        if hook is None:
            raise EngineError(f"comprehension {key!r} over a symbolic sequence needs an area hook")
        sv = m.seq_value(it) if not isinstance(it, VSeq) else it
        res = hook(m, sv, gen, e)
        if as_value or m.spec:
            return res
        return VHeapRef(m.ctx.alloc("list", res), "list")
    finally:
        m.env = saved


# ------------------------------------------------------------------------------------------------
# methods of containers and contracted objects
# ------------------------------------------------------------------------------------------------


def call_method(m: Any, recv: V, name: str, args: list[V], kwargs: dict[str, V], node: ast.Call | None) -> V:
    from .symex import RaiseSig

    if isinstance(recv, VHeapRef):
        cell = m.ctx.cell(recv.addr)
        if cell.kind in ("list", "deque"):
            return list_method(m, cell, name, args)
        if cell.kind == "dict":
            from .maps import dict_method
            return dict_method(m, cell, name, args, kwargs)
        if cell.kind == "set":
            from .maps import set_method
            return set_method(m, cell, name, args)
    if isinstance(recv, VStr):
        if name == "startswith" and isinstance(args[0], VStr):
            return VBool(z3.PrefixOf(args[0].term, recv.term))
        if name == "endswith" and isinstance(args[0], VStr):
            return VBool(z3.SuffixOf(args[0].term, recv.term))
        if name == "join":
            v = args[0]
            items = None
            if isinstance(v, VTuple):
                items = v.items
            else:
                sv = m.seq_value(v) if not isinstance(v, VSeq) else v
                if isinstance(v, VHeapRef) and m.ctx.cell(v.addr).value is None:
                    return VStr("")
                if sv is not None:
                    flat = _concrete_units(z3.simplify(sv.term))
                    if flat is not None:
                        items = [sv.sort.elem.wrap(t) for t in flat]
            jh = getattr(m.world, "join_hook", None)
            if items is None and jh is not None and sv is not None:
                r = jh(m, recv, sv)
                if r is not None:
                    return r
            if items is None or not all(isinstance(i, VStr) for i in items):
                # symbolic length: an unconstrained string (sound over-approximation; used for messages)
                return VStr(z3.String(fresh_name("joined")))
            out = []
            for k, it in enumerate(items):
                if k:
                    out.append(recv.term)
                out.append(it.term)
            return VStr(out[0] if len(out) == 1 else z3.Concat(*out)) if out else VStr("")
        if name == "encode":
            return recv
    if isinstance(recv, VRec) and recv.sort.pycls:
        key = m.world.mro_lookup(recv.sort.pycls, name)
        if key is not None:
            return m.call_contract(key, [recv] + args, kwargs)
    if isinstance(recv, VU):
        cls = getattr(m.world, "usort_class", {}).get(recv.sort.name)
        key = m.world.mro_lookup(cls, name) if cls else None
        if key is not None:
            return m.call_contract(key, [recv] + args, kwargs)
    if isinstance(recv, VOpt):
        if not m.spec and not m.ctx.branch(z3.Not(recv.sort.is_none(recv.term))):
            raise RaiseSig(VExc("AttributeError"))
        return call_method(m, recv.sort.elem.wrap(recv.sort.val(recv.term)), name, args, kwargs, node)
    raise EngineError(f"{m.contract.key}: method {name} of {recv!r} not modelled")


def _concrete_units(t: Any):
    """[t1, .., tn] if the sequence term is a concatenation of units (statically known length)."""
    if z3.is_app(t):
        k = t.decl().kind()
        if k == z3.Z3_OP_SEQ_EMPTY:
            return []
        if k == z3.Z3_OP_SEQ_UNIT:
            return [t.arg(0)]
        if k == z3.Z3_OP_SEQ_CONCAT:
            out = []
            for c in t.children():
                sub = _concrete_units(c)
                if sub is None:
                    return None
                out.extend(sub)
            return out
    return None


def list_method(m: Any, cell: Any, name: str, args: list[V]) -> V:
    from .symex import RaiseSig

    if cell.value is None:  # untyped empty list: typed by the first element
        if name in ("append", "appendleft") and isinstance(args[0], VTerm):
            cell.value = seq_of(args[0].sort).empty()
            cell.extra.pop("untyped", None)
        else:
            raise EngineError(f"list method {name} on a list whose element sort is unknown")
    s: VSeq = cell.value
    es = s.sort.elem
    bank = m.ctx.bank
    if name == "append":
        x = es.coerce(args[0])
        t = mk_snoc(s.term, x.term)
        bank.add(t, ("snoc", s.term, x.term))
        cell.value = VSeq(t, s.sort)
        return NONE
    if name == "appendleft":
        x = es.coerce(args[0])
        t = mk_cons(x.term, s.term)
        bank.add(t, ("cons", x.term, s.term))
        cell.value = VSeq(t, s.sort)
        return NONE
    if name in ("pop", "popleft"):
        if args:
            raise EngineError("pop(i)")
        if not m.ctx.branch(z3.Length(s.term) > 0):
            raise RaiseSig(VExc("IndexError"))
        x = es.fresh("x")
        r = s.sort.fresh("rest")
        if name == "pop":
            m.ctx.assume(s.term == mk_snoc(r.term, x.term))
            bank.add(s.term, ("snoc", r.term, x.term))
            bank.add(mk_snoc(r.term, x.term), ("snoc", r.term, x.term))
        else:
            m.ctx.assume(s.term == mk_cons(x.term, r.term))
            bank.add(s.term, ("cons", x.term, r.term))
            bank.add(mk_cons(x.term, r.term), ("cons", x.term, r.term))
        cell.value = r
        return x
    if name == "extend":
        v = args[0]
        if isinstance(v, VPy) and isinstance(v.obj, tuple) and v.obj[0] == "genexp":
            v = eval_listcomp(m, v.obj[1], None, env=v.obj[2], as_value=True)
        if isinstance(v, VHeapRef):
            v = m.ctx.cell(v.addr).value
        o = s.sort.coerce(v)
        t = z3.Concat(s.term, o.term)
        bank.add(t, ("concat", s.term, o.term))
        cell.value = VSeq(t, s.sort)
        return NONE
    if name == "reverse":
        rev = m.world.spec_fns.get("rev")
        if rev is None:
            raise EngineError("list.reverse needs spec function rev")
        cell.value = rev(s)
        return NONE
    if name == "clear":
        cell.value = s.sort.empty()
        return NONE
    raise EngineError(f"list method {name} not modelled")
