"""Bounded stand-in for C03: registry = exactly the live, not-detached nodes under unique ids.

Histories of public operations are run against a shadow model (which objects must / must not be
returned by lookup).  Exhaustive over short operation words, seeded sampling beyond."""
from __future__ import annotations

import dataclasses
import gc
import itertools
import zlib
import random
from typing import Any

from pyoak import config
from pyoak.node import NODE_REGISTRY, ASTNode

from . import models as M

OPS = ["leaf", "twin", "inner", "dup", "dcreplace", "replace_ok", "replace_nc", "replace_fail", "detach", "detach_self", "roundtrip", "roundtrip_dead", "drop"]


class Shadow:
    def __init__(self) -> None:
        self.nodes: list[ASTNode] = []       # strong refs we hold
        self.expected: dict[int, bool] = {}  # id(obj) -> must be registered

    def add(self, n: ASTNode, reg: bool = True) -> None:
        for x in M.ref_nodes(n):
            if id(x) not in self.expected:
                self.nodes.append(x)
                self.expected[id(x)] = reg

    def forget(self, n: ASTNode) -> None:
        self.nodes = [x for x in self.nodes if x is not n]
        self.expected.pop(id(n), None)


def check(sh: Shadow, ctx: str) -> str | None:
    seen: dict[str, ASTNode] = {}
    for n in sh.nodes:
        got = ASTNode.get_any(n.id)
        if sh.expected[id(n)]:
            if got is not n:
                return f"{ctx}: live registered node {type(n).__name__}#{n.id} not returned by get_any (got {got!r:.60})"
            if type(n).get(n.id) is not n:
                return f"{ctx}: get() of own class does not return the node"
            if ASTNode.get(n.id, strict=False) is not n or ASTNode.get(n.id, strict=True) is not None and type(n) is not ASTNode:
                return f"{ctx}: get() strict / non-strict class rule violated"
            if n.id in seen and seen[n.id] is not n:
                return f"{ctx}: two registered nodes share id {n.id}"
            seen[n.id] = n
        else:
            if got is n:
                return f"{ctx}: detached node {type(n).__name__}#{n.id} is still returned by get_any"
    return None


def apply(op: str, sh: Shadow, rnd: random.Random, log: list[str]) -> str | None:
    """Returns an error string or None."""
    live = [n for n in sh.nodes]
    pick = (lambda: rnd.choice(live)) if live else (lambda: None)
    if op == "leaf":
        v = rnd.randrange(2)
        n = M.RtLeaf(v)
        log.append(f"n{len(log)} = RtLeaf({v})")
        sh.add(n)
    elif op == "twin":
        n0 = pick()
        if not isinstance(n0, M.RtLeaf) or type(n0) is not M.RtLeaf:
            n = M.RtLeaf(0)
        else:
            n = M.RtLeaf(n0.v, n0.s)
        log.append("twin = RtLeaf(same content)")
        sh.add(n)
    elif op == "inner":
        kids = [n for n in live if type(n) is M.RtLeaf][:2]
        if not kids:
            return None
        n = M.RtList(tuple(kids))
        log.append("inner = RtList(<existing leaves>)")
        sh.add(n)
    elif op == "dup":
        n0 = pick()
        if n0 is None:
            return None
        d = n0.duplicate()
        log.append("d = <node>.duplicate()")
        if d.id == n0.id and sh.expected[id(n0)]:
            return "duplicate of a registered node re-uses its id"
        sh.add(d)
    elif op == "dcreplace":
        n0 = pick()
        if not isinstance(n0, M.RtLeaf):
            return None
        d = dataclasses.replace(n0, tag="t")
        log.append("d = dataclasses.replace(<leaf>, tag='t')")
        sh.add(d)
    elif op in ("replace_ok", "replace_nc"):
        n0 = pick()
        if not isinstance(n0, M.RtLeaf):
            return None
        was = sh.expected[id(n0)]
        d = n0.replace(v=n0.v + 1) if op == "replace_ok" else n0.replace(tag=n0.tag + "x")
        log.append(f"d = <leaf>.{op}()")
        sh.expected[id(n0)] = False if was else sh.expected[id(n0)]
        sh.add(d)
    elif op == "replace_fail":
        n0 = pick()
        if n0 is None:
            return None
        before = dict(NODE_REGISTRY)
        try:
            n0.replace(id="forced")  # init=False field -> ValueError from dataclasses.replace
            return "replace(id=...) did not raise"
        except ValueError:
            pass
        log.append("<node>.replace(id=...) raised")
        after = dict(NODE_REGISTRY)
        if {k: id(v) for k, v in before.items()} != {k: id(v) for k, v in after.items()}:
            return "a replace() that raised changed the registry"
    elif op == "detach":
        n0 = pick()
        if n0 is None:
            return None
        n0.detach()
        log.append("<node>.detach()")
        for x in M.ref_nodes(n0):
            sh.expected[id(x)] = False
    elif op == "detach_self":
        n0 = pick()
        if n0 is None:
            return None
        r = n0.detach_self()
        log.append("<node>.detach_self()")
        if r != sh.expected[id(n0)]:
            return f"detach_self returned {r}, node was {'registered' if sh.expected[id(n0)] else 'not registered'}"
        sh.expected[id(n0)] = False
    elif op == "roundtrip":
        n0 = pick()
        if n0 is None or not all(sh.expected[id(x)] for x in M.ref_nodes(n0)):
            return None
        back = type(n0).as_obj(n0.as_dict())
        log.append("back = as_obj(<registered node>.as_dict())")
        if back is not n0:
            return "round trip of a registered node did not return the same object"
    elif op == "roundtrip_dead":
        n0 = pick()
        if n0 is None or not isinstance(n0, M.RtLeaf):
            return None
        d = n0.as_dict()
        nid = n0.id
        other = ASTNode.get_any(nid)
        if sh.expected[id(n0)]:
            n0.detach_self()
            sh.expected[id(n0)] = False
            other = None
        if other is not None:
            return None  # someone else holds the id now
        back = type(n0).as_obj(d)
        log.append("back = as_obj(dict of a node that is no longer registered)")
        if back.id != nid:
            return f"deserialized node has id {back.id}, serialized id was {nid}"
        extra = [k for k, v in NODE_REGISTRY.items() if v is back and k != nid]
        if extra:
            return f"deserialized node is registered under extra keys {extra}"
        sh.add(back)
    elif op == "drop":
        cand = [n for n in live if sh.expected[id(n)] and not any(n is c for p in live for c, _, _ in M.ref_children(p))]
        if not cand:
            return None
        n0 = rnd.choice(cand)
        nid = n0.id
        kids = M.ref_nodes(n0)[1:]
        sh.forget(n0)
        del n0, cand, live
        gc.collect()
        log.append("del <root>; gc.collect()")
        if ASTNode.get_any(nid) is not None and not any(x.id == nid for x in sh.nodes):
            return f"a node that is no longer referenced is still returned under {nid}"
    return None


def run(tier: str = "quick", seed: int = 0) -> dict:
    failures: list[dict] = []
    evals = 0
    distinct: set = set()
    samples: list[Any] = []
    rnd = random.Random(seed)
    words: list[tuple[str, ...]] = []
    L = 3 if tier == "quick" else 4
    base = ["leaf", "twin", "detach_self", "replace_nc", "replace_fail", "roundtrip_dead", "dup", "drop"]
    for n in range(1, L + 1):
        words.extend(("leaf",) + w for w in itertools.product(base, repeat=n))
    nrand = 300 if tier == "quick" else 3000
    for _ in range(nrand):
        words.append(tuple(rnd.choice(OPS) for _ in range(rnd.randrange(4, 9))))
    for size in (config.ID_DIGEST_SIZE, 1):
        saved = config.ID_DIGEST_SIZE
        config.ID_DIGEST_SIZE = size
        try:
            for w in (words if size != 1 else words[:: 4]):
                gc.collect()
                evals += 1
                distinct.add((size, w))
                sh = Shadow()
                log: list[str] = []
                err = None
                wr = random.Random(zlib.crc32(repr(w).encode()) ^ seed)
                for i, op in enumerate(w):
                    try:
                        err = apply(op, sh, wr, log)
                    except Exception as e:  # no public operation of a valid history may blow up
                        err = f"operation {op} raised {type(e).__name__}: {e}"
                    if err is None:
                        err = check(sh, f"after {' ; '.join(w[: i + 1])}")
                    if err:
                        break
                if err and len(failures) < 10:
                    failures.append({"what": f"digest_size={size}: {err}", "history": list(w), "log": log, "kf": None,
                                     "snippet": f"import rt.c03 as c, sys\nsys.exit(1 if c.replay_word({w!r}, {size}, {seed}) else 0)"})
                for n in list(sh.nodes):
                    n.detach_self()
                sh.nodes.clear()
        finally:
            config.ID_DIGEST_SIZE = saved
    # same id every time when no twin is registered
    for v in range(3):
        evals += 1
        a = M.RtLeaf(v, "sid")
        i1 = a.id
        a.detach_self()
        b = M.RtLeaf(v, "sid")
        if b.id != i1:
            failures.append({"what": f"construction with no registered twin gave id {b.id}, earlier {i1}", "kf": None,
                             "snippet": M.HEADER + f"a=RtLeaf({v},'sid'); i=a.id; a.detach_self(); b=RtLeaf({v},'sid'); sys.exit(0 if b.id==i else 1)"})
        b.detach_self()
    samples.append({"history": list(words[5]), "digest_size": 8})
    samples.append({"history": list(words[-1]), "digest_size": 1})
    return {"evaluations": evals, "distinct_nontrivial": len(distinct),
            "rule": f"all operation words of length <= {L + 1} over {base} (prefixed by one construction), plus {nrand} seeded random words of length 4-8 over {OPS}; each for ID_DIGEST_SIZE 8 and (every 4th) 1; after every step a shadow model of which objects must be returned by lookup is compared with get_any/get; distinct = (digest size, word)",
            "samples": samples, "failures": failures, "bound": f"word length <= {L + 1} exhaustive, 8 random"}


def replay_word(w: tuple, size: int, seed: int) -> str | None:
    saved = config.ID_DIGEST_SIZE
    config.ID_DIGEST_SIZE = size
    try:
        sh = Shadow()
        wr = random.Random(zlib.crc32(repr(w).encode()) ^ seed)
        log: list[str] = []
        for i, op in enumerate(w):
            try:
                err = apply(op, sh, wr, log)
            except Exception as e:
                err = f"operation {op} raised {type(e).__name__}: {e}"
            err = err or check(sh, f"after step {i}")
            if err:
                print(err)
                return err
        return None
    finally:
        config.ID_DIGEST_SIZE = saved
