"""History driver for the legacy parent-aware nodes (C18 consistency, C19 rejected operations).

Operations are chosen on a *shadow* admissibility check before the call (never one object at two
positions, replacement not inside / above the receiver), every call runs under a watchdog, and after
each call either the consistency invariant (success) or an unchanged snapshot (documented rejection)
is checked.  A failure is summarised by a signature (operation, argument category, violated clause)."""
from __future__ import annotations

import random
import signal
from typing import Any

from . import lmodels as L
from pyoak.legacy import error as LE
from pyoak.legacy.node import ASTTransformVisitor, AwareASTNode

DOCUMENTED = (LE.ASTNodeDuplicateChildrenError, LE.ASTNodeParentCollisionError, LE.ASTNodeRegistryCollisionError, LE.ASTNodeIDCollisionError,
              LE.ASTNodeReplaceError, LE.ASTNodeReplaceWithError, LE.ASTTransformError)


class Timeout(Exception):
    pass


def _alarm(signum, frame):
    raise Timeout()


def attached(n: AwareASTNode) -> bool:
    return AwareASTNode._nodes.get(n.id) is n


def rebuild_cid(n: AwareASTNode) -> str:
    """content_id of an independently built, detached, equal tree"""
    kw: dict[str, Any] = {}
    for fname, is_seq in L.CHILD_FIELDS[type(n)]:
        v = object.__getattribute__(n, fname)
        if is_seq:
            kw[fname] = type(v)(_rebuild(c) for c in v)
        else:
            kw[fname] = _rebuild(v) if v is not None else None
    return _make(n, kw).content_id


_rb = [0]


def _make(n: AwareASTNode, kw: dict) -> AwareASTNode:
    _rb[0] += 1  # explicit distinct ids: detached twins would otherwise share one id (content_id does not depend on it)
    if isinstance(n, L.LgLeaf):
        extra = {"w": n.w} if isinstance(n, L.LgSub) else {}
        return type(n)(n.v, origin=n.origin, create_detached=True, id=f"rebuild-{_rb[0]}", **extra)
    return type(n)(origin=n.origin, create_detached=True, id=f"rebuild-{_rb[0]}", **kw)


def _rebuild(n: AwareASTNode) -> AwareASTNode:
    kw: dict[str, Any] = {}
    for fname, is_seq in L.CHILD_FIELDS[type(n)]:
        v = object.__getattribute__(n, fname)
        if is_seq:
            kw[fname] = type(v)(_rebuild(c) for c in v)
        else:
            kw[fname] = _rebuild(v) if v is not None else None
    return _make(n, kw)


def invariant(universe: list[AwareASTNode]) -> str | None:
    """-> name of the first violated clause"""
    for n in universe:
        if not attached(n):
            continue
        if AwareASTNode.get_any(n.id) is not n:
            return "lookup"
        for c, f, i in L.ref_children(n):
            if not attached(c):
                return "child-detached"
            if c.parent is not n:
                return "child-parent-link"
            if c.parent_field is None or c.parent_field.name != f or c.parent_index != i:
                return "child-field-index"
        p = n.parent
        if p is not None:
            if not any(c is n and p.parent_field_ok(n, f, i) if False else (c is n and n.parent_field is not None and n.parent_field.name == f and n.parent_index == i) for c, f, i in L.ref_children(p)):
                return "parent-does-not-hold-node"
        # structure queries
        chain = []
        cur = n.parent
        guard = 0
        while cur is not None and guard < 50:
            chain.append(cur)
            cur = cur.parent
            guard += 1
        if guard >= 50:
            return "parent-cycle"
        anc = list(n.ancestors())
        if len(anc) != len(chain) or any(a is not b for a, b in zip(anc, chain)):
            return "ancestors"
        if n.get_depth() != len(chain):
            return "depth"
        for m_ in universe:
            if not attached(m_):
                continue
            pos = [j for j, a in enumerate(chain) if a is m_]
            if m_.is_ancestor(n) != bool(pos):
                return "is-ancestor"
            try:
                d_rel = n.get_depth(relative_to=m_)
            except ValueError:
                d_rel = None
            if d_rel != (pos[0] + 1 if pos else None):
                return "relative-depth"
    for n in universe:
        if attached(n):
            try:
                if n.content_id != rebuild_cid(n):
                    return "content-id-not-propagated"
            except Exception:
                return "rebuild-failed"
    return None


def snapshot(universe: list[AwareASTNode]) -> list[tuple]:
    out = []
    for n in universe:
        kids = tuple((fname, tuple(id(c) for c in object.__getattribute__(n, fname)) if is_seq else id(object.__getattribute__(n, fname)))
                     for fname, is_seq in L.CHILD_FIELDS[type(n)])
        out.append((attached(n), id(n.parent) if n.parent is not None else None, n.parent_field.name if n.parent_field else None, n.parent_index,
                    getattr(n, "v", None), kids, n.id, n.original_id, n.content_id))
    return out


class Bump(ASTTransformVisitor):
    def visit_LgLeaf(self, node):
        return node.replace(v=node.v + 1)


class Drop(ASTTransformVisitor):
    def visit_LgSub(self, node):
        return None


def in_subtree(root: AwareASTNode, x: AwareASTNode) -> bool:
    return any(x is y for y in L.ref_nodes(root))


def overlap(a: AwareASTNode, b: AwareASTNode) -> bool:
    """some node object lies in both trees (a detached container still references its former children, which may meanwhile live elsewhere)"""
    ids = {id(y) for y in L.ref_nodes(a)}
    return any(id(y) in ids for y in L.ref_nodes(b))


def root_of(n: AwareASTNode) -> AwareASTNode:
    guard = 0
    while n.parent is not None and guard < 60:
        n, guard = n.parent, guard + 1
    return n


def stale_flag(*incoming: AwareASTNode | None) -> str:
    """'+stale-content-id' when a detached node handed to the operation (or one of its descendants) carries a content_id that is not the one of an
    equal tree built now (its content changed while it was detached) -- the characterisation of KF-C18-stale-content-id, evaluated before the call"""
    for x in incoming:
        if x is None:
            continue
        for y in L.ref_nodes(x):
            try:
                if not attached(y) and y.content_id != rebuild_cid(y):
                    return "+stale-content-id"
            except Exception:
                return ""
    return ""


def twin_flag(*incoming: AwareASTNode | None) -> str:
    """'+reattaches-id-twin' when an existing node handed to the operation (or one of its descendants) is detached while its id is registered for
    another object -- the characterisation of KF-C18-id-twin, evaluated before the call"""
    seen: dict[str, int] = {}
    for x in incoming:
        if x is None:
            continue
        for y in L.ref_nodes(x):
            reg = AwareASTNode._nodes.get(y.id)
            if not attached(y) and reg is not None and reg is not y:
                return "+reattaches-id-twin" + stale_flag(*incoming)
            # two distinct objects with one id among the nodes the operation puts into one tree (detached twins of each other, or an id taken over
            # through replace_with): the second one cannot be registered
            if seen.setdefault(y.id, id(y)) != id(y):
                return "+reattaches-id-twin" + stale_flag(*incoming)
    return stale_flag(*incoming)


LAST: dict[str, list] = {"incoming": []}      # the existing nodes handed to the operation chosen last (replacement, new children)


def ops_for(universe: list[AwareASTNode], rnd: random.Random):
    r = _ops_for(universe, rnd)
    return r


def _ops_for(universe: list[AwareASTNode], rnd: random.Random):
    """Yields one admissible (name, category, thunk, new_nodes_fn) choice."""
    LAST["incoming"] = []
    roots_or_detached = [n for n in universe if n.parent is None]
    att = [n for n in universe if attached(n)]
    det = [n for n in universe if not attached(n)]
    choice = rnd.choice(["leaf", "leaf", "unary", "list", "attach", "detach", "detach_self", "replace_v", "replace_child", "replace_with", "replace_with_none",
                         "duplicate", "transform", "bad_replace_key", "dup_children", "parent_collision", "replace_with_attached_sub"])
    if choice == "leaf":
        v = rnd.randrange(3)
        return "construct-leaf", "fresh", lambda: [L.LgLeaf(v, origin=L.NO_ORIGIN)]
    if choice == "unary" and roots_or_detached:
        c = rnd.choice(roots_or_detached)
        o = rnd.choice([None] + [x for x in roots_or_detached if x is not c and not overlap(c, x)])
        cat = ("att" if attached(c) else "det") + ("+" + ("att" if attached(o) else "det") if o is not None else "") + twin_flag(c, o)
        LAST["incoming"] = [x for x in (c, o) if x is not None]
        return "construct-unary", cat, lambda: [L.LgUnary(c, o, origin=L.NO_ORIGIN)]
    if choice == "list" and roots_or_detached:
        picks = []
        for x in rnd.sample(roots_or_detached, min(len(roots_or_detached), rnd.randrange(1, 4))):
            if all(not overlap(p, x) for p in picks):
                picks.append(x)
        k = rnd.randrange(len(picks) + 1)
        cat = "".join("a" if attached(x) else "d" for x in picks) + twin_flag(*picks)
        LAST["incoming"] = list(picks)
        return "construct-list", cat, lambda: [L.LgList(tuple(picks[:k]), list(picks[k:]), origin=L.NO_ORIGIN)]
    if choice == "attach" and det:
        n = rnd.choice([x for x in det if x.parent is None] or det)
        if n.parent is None:
            LAST["incoming"] = [n]
            return "attach", "detached-root" + twin_flag(n), lambda: (n.attach(), [])[1]
    if choice == "detach" and att:
        n = rnd.choice(att)
        return "detach", "root" if n.parent is None else "subtree", lambda: (n.detach(), [])[1]
    if choice == "detach_self" and att:
        n = rnd.choice(att)
        return "detach_self", "root" if n.parent is None else "subtree", lambda: (n.detach_self(), [])[1]
    leaves = [n for n in universe if isinstance(n, L.LgLeaf)]
    if choice == "replace_v" and leaves:
        n = rnd.choice(leaves)
        cat = ("att" if attached(n) else "det") + ("-child" if n.parent is not None else "-root")
        return "replace-value", cat, lambda: [n.replace(v=n.v + 1)]
    unaries = [n for n in universe if isinstance(n, L.LgUnary)]
    if choice == "replace_child" and unaries:
        n = rnd.choice(unaries)
        # the new node is n with `opt` exchanged: the incoming tree must share no object with what stays (n's child subtree) nor with the tree around n
        cands = [x for x in roots_or_detached if not overlap(root_of(n), x)]
        new = rnd.choice(cands + [None])
        cat = ("att" if attached(n) else "det") + ":" + ("none" if new is None else ("att" if attached(new) else "det")) + twin_flag(new, *[c for c, f, i in L.ref_children(n) if f != "opt"])
        LAST["incoming"] = [x for x in (new,) if x is not None]
        return "replace-opt-child", cat, lambda: [n.replace(opt=new)]
    if choice in ("replace_with", "replace_with_none") and universe:
        n = rnd.choice([x for x in universe if attached(x)] or universe)
        if choice == "replace_with_none":
            ok = n.parent is not None and (n.parent_index is not None or n.parent_field.name == "opt")
            if ok:
                return "replace_with-none", "seq" if n.parent_index is not None else "optional", lambda: (n.replace_with(None), [])[1]
            return None
        cands = [x for x in roots_or_detached if x is not n and not overlap(root_of(n), x)]
        if cands:
            new = rnd.choice(cands)
            cat = ("root" if n.parent is None else "child") + ":" + ("att" if attached(new) else "det") + ("-inner" if L.ref_children(new) else "-leaf") + twin_flag(new)
            if any(x is not new and x.id == n.id for x in L.ref_nodes(new)):
                # the replacement's subtree holds a node with the receiver's id (e.g. a detached duplicate of the receiver): replace_with gives the
                # replacement that very id -- characterisation of KF-C18-id-flip-inside
                cat += "+receiver-id-inside"
            LAST["incoming"] = [new]
            return "replace_with", cat, lambda: (n.replace_with(new), [])[1]
    if choice == "duplicate" and universe:
        n = rnd.choice(universe)
        return "duplicate", "att" if attached(n) else "det", lambda: [n.duplicate()]
    if choice == "transform" and att:
        n = rnd.choice(att)
        tv = rnd.choice([Bump, Drop])
        return "transform-" + tv.__name__, "root" if n.parent is None else "child", lambda: [x for x in [tv().transform(n)] if x is not None]
    # ---- operations the library must reject (C19) --------------------------------------------------
    if choice == "bad_replace_key" and universe:
        n = rnd.choice(universe)
        return "reject:replace-forbidden-key", "att" if attached(n) else "det", lambda: [n.replace(id="zzz")]
    if choice == "dup_children" and roots_or_detached:
        c = rnd.choice(roots_or_detached)
        return "reject:duplicate-children", "att" if attached(c) else "det", lambda: [L.LgUnary(c, c, origin=L.NO_ORIGIN)]
    inner_kids = [n for n in universe if n.parent is not None and attached(n)]
    if choice == "parent_collision" and inner_kids:
        c = rnd.choice(inner_kids)
        first = rnd.choice([None] + [x for x in roots_or_detached if not overlap(x, c)])
        LAST["incoming"] = [x for x in (first, c) if x is not None]
        return "reject:parent-collision", "first-child" if first is None else "later-child", \
            lambda: [L.LgUnary(c, origin=L.NO_ORIGIN)] if first is None else [L.LgUnary(first, c, origin=L.NO_ORIGIN)]
    if choice == "replace_with_attached_sub" and inner_kids and att:
        new = rnd.choice(inner_kids)
        n = rnd.choice([x for x in att if x is not new and not overlap(root_of(x), new)] or [None])
        if n is not None:
            return "reject:replace_with-has-parent", "x", lambda: (n.replace_with(new), [])[1]
    return None


def id_twin_present(universe: list[AwareASTNode]) -> bool:
    """some detached node shares its id with a registered node (content twins re-use ids of detached nodes)"""
    return any(not attached(x) and AwareASTNode._nodes.get(x.id) is not None for x in universe)


def classify(sig: tuple, twin: bool) -> str | None:
    """Open findings of the legacy module (deprecated; recorded, not repaired) -- see known_findings.json."""
    op, cat, clause = sig
    where = ""
    if "@" in clause:
        clause, where = clause.split("@", 1)
    if op == "replace_with" and clause.startswith("C19:ASTNodeReplaceWithError:") and where == "incoming-only" and \
            not set(clause.split(":")[2].split("+")) <= {"id", "original_id"}:
        # attaching the replacement failed half-way: what _attach_inner had re-parented / registered inside the replacement's own tree stays (the receiver's
        # tree is restored) -- the constructor finding, reached through new._attach()
        return "KF-C19-ctor-partial"
    if clause.startswith("C19:") and (op.startswith("construct-") or op in ("reject:parent-collision", "attach", "replace-opt-child", "replace-value")) and \
            ("ASTNodeParentCollisionError" in clause or "ASTNodeRegistryCollisionError" in clause) and where in ("incoming-only", ""):
        # _attach_inner (constructor, attach) re-parents / registers what it visited before it meets the collision
        return "KF-C19-ctor-partial"
    if clause.startswith("C18:") and "+reattaches-id-twin" in cat and op in ("replace_with", "replace-opt-child", "construct-unary", "construct-list", "attach"):
        return "KF-C18-id-twin"
    if op == "replace_with" and clause in ("C19:ASTNodeReplaceWithError:id+original_id", "C19:ASTNodeReplaceWithError:original_id", "C19:ASTNodeReplaceWithError:id"):
        # the rejected replacement keeps the id fields replace_with wrote before attaching it (only these two fields of the replacement differ;
        # when it already had the receiver's id only original_id shows)
        return "KF-C19-replace-with-new-id"
    if op == "replace_with" and "+receiver-id-inside" in cat and clause.startswith("C18:"):
        return "KF-C18-id-flip-inside"
    if op == "replace_with" and "+receiver-id-inside" in cat and clause.startswith("C19:ASTNodeRegistryCollisionError"):
        # the rollback's self._attach() collides with the receiver's twin that the failed attach of the replacement has registered
        return "KF-C19-replace-with-rollback-blocked"
    if clause == "C18:content-id-not-propagated" and "+stale-content-id" in cat:
        return "KF-C18-stale-content-id"
    return None


def run_history(seed: int, length: int, timeout_s: int = 3) -> dict | None:
    """Runs one seeded history; returns a failure record or None."""
    rnd = random.Random(seed)
    L.clear_registry()
    universe: list[AwareASTNode] = []
    log: list[str] = []
    signal.signal(signal.SIGALRM, _alarm)
    for step in range(length):
        pick = None
        for _ in range(6):
            pick = ops_for(universe, rnd)
            if pick is not None:
                break
        if pick is None:
            continue
        name, cat, thunk = pick
        before = snapshot(universe)
        log.append(f"{name}[{cat}]")
        signal.alarm(timeout_s)
        try:
            new = thunk()
            signal.alarm(0)
            outcome = "ok"
        except Timeout:
            return {"sig": (name, cat, "timeout"), "log": list(log), "seed": seed, "step": step}
        except DOCUMENTED as e:
            signal.alarm(0)
            outcome = type(e).__name__
            new = []
        except Exception as e:
            signal.alarm(0)
            return {"sig": (name, cat, "raised-" + type(e).__name__), "log": list(log), "seed": seed, "step": step}
        if outcome == "ok":
            if name.startswith("reject:"):
                return {"sig": (name, cat, "not-rejected"), "log": list(log), "seed": seed, "step": step}
            for n in new:
                for x in L.ref_nodes(n):
                    if all(x is not y for y in universe):
                        universe.append(x)
            signal.alarm(timeout_s)
            try:
                bad = invariant(universe)
            except Timeout:
                bad = "invariant-check-timeout"
            except Exception as e:
                bad = "invariant-check-raised-" + type(e).__name__
            signal.alarm(0)
            if bad:
                return {"sig": (name, cat, "C18:" + bad), "log": list(log), "seed": seed, "step": step, "twin": id_twin_present(universe)}
        else:
            after = snapshot(universe)
            if after != before:
                diffs = [i for i, (a, b) in enumerate(zip(before, after)) if a != b]
                diff = diffs[0]
                fields = ["attached", "parent", "parent_field", "parent_index", "value", "children", "id", "original_id", "content_id"]
                which = [fields[k] for k in range(9) if before[diff][k] != after[diff][k]]
                # where the changes are: only inside the trees that were handed to the rejected operation (what a failed _attach_inner leaves behind), or elsewhere
                inc = {id(y) for x in LAST["incoming"] for y in L.ref_nodes(x)}
                where = "@incoming-only" if all(id(universe[i]) in inc for i in diffs) else "@elsewhere"
                return {"sig": (name, cat, "C19:" + outcome + ":" + "+".join(which) + where), "log": list(log), "seed": seed, "step": step}
    return None


# ---- deterministic rejection scenarios (C19): faults that random histories reach only rarely ----------------


def scenarios() -> list[tuple[str, Any]]:
    """Each scenario: () -> (universe, rejected_thunk).  The thunk must raise a documented error."""
    def mk_leaf(v):
        return L.LgLeaf(v, origin=L.NO_ORIGIN)

    def s_reorder_tuple(registry_collision: bool):
        def setup():
            L.clear_registry()
            a, b, c = mk_leaf(101), mk_leaf(102), mk_leaf(103)
            holder = L.LgList((a, b, c), [], origin=L.NO_ORIGIN)
            taken = mk_leaf(104)
            other = L.LgUnary(taken, origin=L.NO_ORIGIN)       # `taken` has another parent
            if registry_collision:
                ghost = mk_leaf(105); ghost.detach()
                blocker = mk_leaf(105)                          # registered twin of the detached `ghost`
                late = ghost
                uni = [a, b, c, holder, taken, other, ghost, blocker]
            else:
                late = taken
                uni = [a, b, c, holder, taken, other]
            return uni, (lambda: holder.replace(items=(c, a, b, late)))
        return setup

    def s_swap_fields():
        def setup():
            L.clear_registry()
            x, y = mk_leaf(201), mk_leaf(202)
            u = L.LgUnary(x, y, origin=L.NO_ORIGIN)
            root = L.LgList((u,), [], origin=L.NO_ORIGIN)       # u is a subtree, not a root
            taken = mk_leaf(203)
            other = L.LgUnary(taken, origin=L.NO_ORIGIN)
            return [x, y, u, root, taken, other], (lambda: u.replace(child=y, opt=taken))
        return setup

    def s_replace_with_attach_fails(shape: str):
        def setup():
            L.clear_registry()
            k1, k2 = mk_leaf(301), mk_leaf(302)
            if shape == "leaf":
                old = mk_leaf(303)
                uni = [old]
            elif shape == "middle":
                old = L.LgUnary(k1, k2, origin=L.NO_ORIGIN)
                left, right = mk_leaf(304), mk_leaf(305)
                root = L.LgList((left, old, right), [], origin=L.NO_ORIGIN)
                uni = [k1, k2, old, left, right, root]
            else:
                gk = mk_leaf(306)
                mid = L.LgUnary(gk, origin=L.NO_ORIGIN)
                old = L.LgList((mid, k1), [k2], origin=L.NO_ORIGIN)
                uni = [gk, mid, k1, k2, old]
            inner = mk_leaf(399)
            new = L.LgUnary(inner, origin=L.NO_ORIGIN)
            new.detach()
            blocker = mk_leaf(399)                              # takes the detached inner's id
            uni += [blocker]                                    # `new` / `inner` are covered by KF-C19-replace-with-new-id, not snapshotted
            return uni, (lambda: old.replace_with(new))
        return setup

    return [("replace-reorder-own-children/parent-collision", s_reorder_tuple(False)), ("replace-reorder-own-children/registry-collision", s_reorder_tuple(True)),
            ("replace-swap-single-fields/parent-collision", s_swap_fields()),
            ("replace_with-attach-fails/old-leaf", s_replace_with_attach_fails("leaf")), ("replace_with-attach-fails/old-middle-child", s_replace_with_attach_fails("middle")),
            ("replace_with-attach-fails/old-root-with-grandchildren", s_replace_with_attach_fails("root"))]


def run_scenario(name: str, setup: Any) -> dict | None:
    universe, thunk = setup()
    before = snapshot(universe)
    signal.signal(signal.SIGALRM, _alarm)
    signal.alarm(3)
    try:
        thunk()
        signal.alarm(0)
        return {"sig": (name, "scenario", "not-rejected"), "log": [name], "seed": -1, "step": 0}
    except Timeout:
        return {"sig": (name, "scenario", "timeout"), "log": [name], "seed": -1, "step": 0}
    except DOCUMENTED as e:
        signal.alarm(0)
        after = snapshot(universe)
        if after != before:
            fields = ["attached", "parent", "parent_field", "parent_index", "value", "children", "id", "original_id", "content_id"]
            which = sorted({fields[k] for a, b in zip(before, after) for k in range(9) if a[k] != b[k]})
            return {"sig": (name, "scenario", "C19:" + type(e).__name__ + ":" + "+".join(which)), "log": [name], "seed": -1, "step": 0}
        return None
    except Exception as e:
        signal.alarm(0)
        return {"sig": (name, "scenario", "raised-" + type(e).__name__), "log": [name], "seed": -1, "step": 0}
