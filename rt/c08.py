"""Bounded stand-in for C08 (pattern semantics, exact captured objects) and part of C17
(acceptance of grammar-derived patterns): patterns are generated as ASTs, rendered to text, compiled
by the library and compared with a reference interpreter written from the statement."""
from __future__ import annotations

import random
import re
from typing import Any

from pyoak.match.pattern import MultiPatternMatcher, NodeMatcher, validate_pattern
from pyoak.node import ASTNode

from . import models as M

CLASSES = {"RtLeaf": M.RtLeaf, "RtSubLeaf": M.RtSubLeaf, "RtFalsy": M.RtFalsy, "RtUnary": M.RtUnary, "RtList": M.RtList, "RtProps": M.RtProps}
REGEXES = ["1", "^a", "a.*c", "[0-9]+$", "None", "s", ""]
FIELDS = {"RtLeaf": ["v", "s", "tag"], "RtUnary": ["child", "opt", "name"], "RtList": ["items", "label"], "any": ["v", "child", "items", "opt", "s", "nosuch"]}


# ---- pattern ASTs ---------------------------------------------------------------------------------

def gen_tree(rnd: random.Random, depth: int, caps: list[str], fresh: list[int]) -> tuple:
    classes = rnd.choice([["*"], ["RtLeaf"], ["RtUnary"], ["RtList"], ["RtLeaf", "RtFalsy"], ["RtSubLeaf"], ["RtUnary", "RtList"]])
    pool = FIELDS.get(classes[0], FIELDS["any"])
    fields = []
    for _ in range(rnd.choice([0, 1, 1, 2, 3])):
        fname = rnd.choice(pool + FIELDS["any"][:1])
        spec = gen_spec(rnd, depth, caps, fresh, fname)
        cap = None
        if rnd.random() < 0.4:
            cap = new_cap(fresh)
        fields.append((fname, spec, cap))
        if cap:
            caps.append(cap)
    return ("tree", classes, fields)


def new_cap(fresh: list[int]) -> str:
    fresh[0] += 1
    return "c" + "abcdefghijklmnopqrstuvwxyz"[fresh[0] % 26] + "abcdefghijklmnopqrstuvwxyz"[(fresh[0] // 26) % 26]


def gen_spec(rnd, depth, caps, fresh, fname) -> Any:
    kinds = ["any", "re", "none", "empty", "var"]
    if depth > 0:
        kinds += ["tree", "seq", "seq"]
    k = rnd.choice(kinds)
    if k == "any":
        return None
    if k == "re":
        return ("re", rnd.choice(REGEXES))
    if k == "none":
        return ("none",)
    if k == "empty":
        return ("empty",)
    if k == "var":
        return ("var", rnd.choice(caps)) if caps else None
    if k == "tree":
        return gen_tree(rnd, depth - 1, caps, fresh)
    elems = []
    for _ in range(rnd.choice([0, 1, 2, 3])):
        kind = rnd.choice(["re", "none", "tree", "star"])
        v = ("re", rnd.choice(REGEXES)) if kind == "re" else ("none",) if kind == "none" else gen_tree(rnd, depth - 1, caps, fresh) if kind == "tree" else ("tree", ["*"], [])
        cap = new_cap(fresh) if rnd.random() < 0.3 else None
        if cap:
            caps.append(cap)
        elems.append((v, cap))
    tail = None
    if rnd.random() < 0.5:
        tcap = new_cap(fresh) if rnd.random() < 0.5 else None
        if tcap:
            caps.append(tcap)
        tail = ("any", tcap)
    if not elems and tail is None:
        return ("empty",)
    return ("seq", elems, tail)


def render(p: Any, ws: str = " ") -> str:
    k = p[0]
    if k == "tree":
        out = "(" + ("|".join(p[1])) + "".join(ws + "@" + f + ("=" + render(s, ws) if s is not None else "") + ((ws + "->" + ws + c) if c else "") for f, s, c in p[2]) + ")"
        return out
    if k == "re":
        return '"' + p[1] + '"'
    if k == "none":
        return "None"
    if k == "empty":
        return "[]"
    if k == "var":
        return "$" + p[1]
    if k == "seq":
        parts = [render(v, ws) + ((ws + "->" + ws + c) if c else "") for v, c in p[1]]
        if p[2] is not None:
            parts.append("*" + ((ws + "->" + ws + p[2][1]) if p[2][1] else ""))
        return "[" + ws.join(parts) + "]"
    raise ValueError(p)


# ---- reference semantics --------------------------------------------------------------------------

class Fail(Exception):
    pass


class Silent(Exception):
    pass


def sem_value(spec: Any, value: Any, ctx: dict) -> dict:
    """returns new captures or raises Fail"""
    if spec is None:
        return {}
    k = spec[0]
    if k == "re":
        if re.match(spec[1], str(value)) is None:
            raise Fail()
        return {}
    if k == "none":
        if value is not None:
            raise Fail()
        return {}
    if k == "empty":
        if not (isinstance(value, tuple) and len(value) == 0):
            raise Fail()
        return {}
    if k == "var":
        cv = ctx[spec[1]]
        same = cv.is_equal(value) if isinstance(cv, ASTNode) else (cv == value)
        if not same:
            raise Fail()
        return {}
    if k == "tree":
        return sem_tree(spec, value, ctx)
    if k == "seq":
        if isinstance(value, str):
            raise Silent()  # a str is a Sequence for Python; the statement does not say how brackets treat it
        if not isinstance(value, (tuple, list)):
            raise Fail()
        elems, tail = spec[1], spec[2]
        if tail is None and len(value) != len(elems) or tail is not None and len(value) < len(elems):
            raise Fail()
        new: dict = {}
        local = dict(ctx)
        for (vs, cap), item in zip(elems, value):
            got = sem_value(vs, item, local)
            if cap:
                got = {cap: item, **got}
            new.update(got)
            local.update(got)
        if tail is not None and tail[1]:
            new[tail[1]] = value[len(elems):]
        return new
    raise ValueError(spec)


def sem_tree(p: Any, node: Any, ctx: dict) -> dict:
    classes = p[1]
    if classes != ["*"]:
        if not isinstance(node, tuple(CLASSES[c] for c in classes)):
            raise Fail()
    elif not isinstance(node, ASTNode):
        raise Fail()
    new: dict = {}
    local = dict(ctx)
    for fname, spec, cap in p[2]:
        if not hasattr(node, fname):
            raise Fail()
        val = getattr(node, fname)
        got = sem_value(spec, val, local)
        if cap:
            got = {cap: val, **got}
        new.update(got)
        local.update(got)
    return new


def same_caps(got: dict, want: dict) -> bool:
    if set(got) != set(want):
        return False
    for k in got:
        a, b = got[k], want[k]
        if isinstance(b, tuple) and isinstance(a, tuple):
            if len(a) != len(b) or any(x is not y for x, y in zip(a, b)):
                return False
        elif a is not b and not (not isinstance(b, ASTNode) and a == b and type(a) is type(b)):
            return False
    return True


def node_pool() -> list[ASTNode]:
    a = M.RtLeaf(1, "abc", tag="t1")
    a2 = M.RtLeaf(1, "abc", tag="t2", origin=M.origin_pool()[1])  # content-equal, other origin
    b = M.RtSubLeaf(12, "s")
    f = M.RtFalsy(0)
    u1 = M.RtUnary(a, None, name="n1")
    u2 = M.RtUnary(a, a2, name="abc")
    u3 = M.RtUnary(b, f, name="")
    l0 = M.RtList((), label="e")
    l1 = M.RtList((a,), label="1")
    l2 = M.RtList((a, a2), label="2")
    l3 = M.RtList((a, b, u1), label="3")
    l4 = M.RtList((u2, l1, f, a2), label="4")
    return [a, a2, b, f, u1, u2, u3, l0, l1, l2, l3, l4, M.RtUnary(l3, u2, name="deep"), M.RtUnary(f, None, name="a b"), M.RtUnary(f, None, name="a  b")]


def run(tier: str = "quick", seed: int = 0) -> dict:
    rnd = random.Random(seed)
    failures: list[dict] = []
    evals = 0
    distinct: set = set()
    samples: list[Any] = []
    nodes = node_pool()

    def fail(what, text=""):
        if len(failures) < 10:
            failures.append({"what": what, "kf": None, "snippet": f"import rt.c08 as c, sys\nr = c.run(seed={seed})\nfor f in r['failures'][:5]: print(f['what'])\nsys.exit(1 if r['failures'] else 0)"})

    n_pat = 500 if tier == "quick" else 4000
    pats: list[tuple[Any, str]] = []
    fixed = [("tree", ["RtList"], [("items", ("seq", [(("tree", ["RtLeaf"], []), None), (("tree", ["RtLeaf"], []), None)], ("any", "rest")), None)]),
             ("tree", ["RtList"], [("items", ("seq", [], ("any", "rest")), "whole")]),
             ("tree", ["RtList"], [("items", ("seq", [(("tree", ["*"], []), "first")], ("any", None)), "c")]),
             ("tree", ["RtUnary"], [("child", None, "x"), ("opt", ("var", "x"), None)]),
             ("tree", ["RtUnary"], [("name", ("re", "a b"), None)]), ("tree", ["RtUnary"], [("name", ("re", "a  b"), None)]),
             ("tree", ["RtList"], [("items", ("seq", [(("tree", ["RtLeaf"], [("v", None, "v")]), None)], ("any", "tail")), None)])]
    for p in fixed:
        pats.append((p, render(p)))
    while len(pats) < n_pat:
        p = gen_tree(rnd, rnd.choice([1, 2, 2, 3]), [], [rnd.randrange(600)])
        pats.append((p, render(p, rnd.choice([" ", "  ", "\n ", " "]))))
    compiled_before: dict[str, Any] = {}
    for p, text in pats:
        ok_v, msg_v = validate_pattern(text)
        m, msg = NodeMatcher.from_pattern(text)
        evals += 1
        distinct.add(text)
        if not ok_v or m is None:
            fail(f"well-formed pattern rejected: validate={ok_v} ({msg_v!r:.60}) from_pattern={'ok' if m else msg!r:.60}: {text!r:.200}")
            continue
        try:
            MultiPatternMatcher([("r", text)])
        except Exception as e:
            fail(f"MultiPatternMatcher rejects a pattern the other entry points accept: {type(e).__name__}: {text!r:.150}")
        compiled_before[text] = m
        for n in nodes:
            evals += 1
            try:
                want_caps = sem_tree(p, n, {})
                want_ok = True
            except Fail:
                want_ok, want_caps = False, {}
            except Silent:
                continue
            try:
                got_ok, got_caps = m.match(n)
            except Exception as e:
                fail(f"match raised {type(e).__name__}: {e} for {text!r:.150} on {type(n).__name__}")
                continue
            if got_ok != want_ok:
                fail(f"pattern {text!r:.200} on {n!r:.80}: match={got_ok}, documented semantics says {want_ok}")
            elif not same_caps(dict(got_caps), want_caps):
                fail(f"pattern {text!r:.200} on {type(n).__name__}: captures {sorted(got_caps)} (objects differ or keys differ), expected {sorted(want_caps)}")
        if len(samples) < 4:
            samples.append({"pattern": text})
    # results never depend on earlier matches / compiles / the cache: re-evaluate the first 80 patterns after everything else
    for p, text in pats[:80]:
        m1 = compiled_before.get(text)
        if m1 is None:
            continue
        m2, _ = NodeMatcher.from_pattern(text)
        for n in nodes:
            evals += 1
            try:
                want_caps = sem_tree(p, n, {})
                want_ok = True
            except Fail:
                want_ok, want_caps = False, {}
            except Silent:
                continue
            for mm in (m1, m2):
                ok, caps = mm.match(n)
                if ok != want_ok or not same_caps(dict(caps), want_caps):
                    fail(f"after compiling other patterns, {text!r:.150} on {type(n).__name__}: match={ok} captures={sorted(caps)}, expected {want_ok} {sorted(want_caps)}")
    # MultiPatternMatcher: first matching rule in the given order
    rules = [(f"r{i}", text) for i, (p, text) in enumerate(pats[:12])]
    mp = MultiPatternMatcher(rules)
    for order in (None, [r for r, _ in reversed(rules)], [rules[3][0], rules[0][0]]):
        for n in nodes:
            evals += 1
            names = [r for r, _ in rules] if order is None else order
            want = None
            for rn in names:
                pp = pats[int(rn[1:])][0]
                try:
                    want = (rn, sem_tree(pp, n, {}))
                    break
                except Fail:
                    continue
                except Silent:
                    want = "skip"
                    break
            if want == "skip":
                continue
            got = mp.match(n, order)
            if (got is None) != (want is None) or (got and (got[0] != want[0] or not same_caps(dict(got[1]), want[1]))):
                fail(f"MultiPatternMatcher order {order}: got {got and got[0]}, expected {want and want[0]} on {type(n).__name__}")
    M.detach_all(*nodes)
    return {"evaluations": evals, "distinct_nontrivial": len(distinct),
            "rule": f"{len(pats)} patterns generated as ASTs from the grammar (class alternatives / '*' / subclasses, 0-3 field specs, regex / None / [] / nested / variables / sequences with and without tail, captures at every admissible place, depth <= 3, varied whitespace) x 15 nodes (content-equal nodes with different origins, sequences of length 0-4); reference interpreter from the statement compares verdict and identity of captured objects; re-evaluation after all compiles (cache / history independence); MultiPatternMatcher rule order; distinct = pattern text",
            "samples": samples, "failures": failures, "bound": f"{len(pats)} seeded patterns, depth <= 3"}
