"""Bounded stand-in for C17: arbitrary text is compiled or rejected with the definition error only;
the three pattern entry points agree; grammar-derived texts are accepted; whitespace is irrelevant;
recompiling (cached or not) gives the same matching behaviour."""
from __future__ import annotations

import random
import re
from typing import Any

from pyoak.match.error import ASTPatternDefinitionError, ASTXpathDefinitionError
from pyoak.match.pattern import _MATCHER_CACHE, MultiPatternMatcher, NodeMatcher, validate_pattern
from pyoak.match.xpath import ASTXpath
from pyoak.origin import NoOrigin  # a serializable non-node class name

from . import c07, c08
from . import models as M


def tokens_pattern(text: str) -> list[str]:
    return re.findall(r'"[^"]*"|->|\$\w+|@\w+|\w+|\S', text)


def tokens_xpath(text: str) -> list[str]:
    return re.findall(r"//|/|@\w+|\[\d*\]|\w+|\S", text)


def mutations(toks: list[str], rnd: random.Random, n: int, joiner: str) -> list[str]:
    out = []
    alphabet = ["(", ")", "[", "]", "@", "->", "*", "|", "$", "=", '"', "None", "/", "//", "-", ".", "#", "x", "1", "RtLeaf", "NoSuchClass", "NoOrigin"]
    for _ in range(n):
        t = list(toks)
        if not t:
            break
        i = rnd.randrange(len(t))
        kind = rnd.choice(["del", "dup", "swap", "rep"])
        if kind == "del":
            del t[i]
        elif kind == "dup":
            t.insert(i, t[i])
        elif kind == "swap" and len(t) > 1:
            j = rnd.randrange(len(t))
            t[i], t[j] = t[j], t[i]
        else:
            t[i] = rnd.choice(alphabet)
        out.append(joiner.join(t))
    return out


def behaviour(m: Any, nodes: list) -> list:
    out = []
    for n in nodes:
        ok, caps = m.match(n)
        # captured objects are compared by identity; the "rest" of a sequence is a fresh slice each time: a tuple is compared by the identities of its
        # elements, a str (brackets applied to a text field) by value
        ident = lambda x: ("str", x) if isinstance(x, str) else id(x)
        out.append((ok, tuple(sorted(((k, ident(v) if not isinstance(v, tuple) else tuple(ident(x) for x in v)) for k, v in caps.items()), key=repr))))
    return out


def run(tier: str = "quick", seed: int = 0) -> dict:
    rnd = random.Random(seed)
    failures: list[dict] = []
    evals = 0
    distinct: set = set()
    samples: list[Any] = []
    nodes = c08.node_pool()

    def fail(what):
        if len(failures) < 10:
            failures.append({"what": what, "kf": None, "snippet": f"import rt.c17 as c, sys\nr = c.run(seed={seed})\nfor f in r['failures'][:5]: print(f['what'])\nsys.exit(1 if r['failures'] else 0)"})

    def check_pattern(text: str, must_accept: bool | None) -> bool | None:
        nonlocal evals
        evals += 1
        distinct.add(("p", text))
        try:
            v = validate_pattern(text)
            f = NodeMatcher.from_pattern(text)
        except BaseException as e:
            fail(f"validate_pattern / from_pattern raised {type(e).__name__}: {e!s:.80} for {text!r:.120}")
            return None
        try:
            MultiPatternMatcher([("r", text)])
            mp_ok = True
        except ASTPatternDefinitionError:
            mp_ok = False
        except BaseException as e:
            fail(f"MultiPatternMatcher raised {type(e).__name__} (not the definition error) for {text!r:.120}")
            return None
        if not (v[0] == (f[0] is not None) == mp_ok):
            fail(f"entry points disagree on {text!r:.120}: validate={v[0]} from_pattern={f[0] is not None} multi={mp_ok}")
        if must_accept is True and not v[0]:
            fail(f"grammar-derived pattern rejected ({v[1]!r:.80}): {text!r:.150}")
        return v[0]

    def check_xpath(text: str, must_accept: bool | None) -> None:
        nonlocal evals
        evals += 1
        distinct.add(("x", text))
        try:
            x = ASTXpath(text)
            ok = True
            x.match  # usable
        except ASTXpathDefinitionError:
            ok = False
        except BaseException as e:
            fail(f"ASTXpath({text!r:.100}) raised {type(e).__name__}: {e!s:.80}")
            return
        if must_accept is True and not ok:
            fail(f"grammar-derived xpath rejected: {text!r:.100}")

    # ---- patterns -------------------------------------------------------------------------------------
    n_pat = 150 if tier == "quick" else 1000
    pats = []
    while len(pats) < n_pat:
        p = c08.gen_tree(rnd, rnd.choice([1, 2, 3]), [], [rnd.randrange(600)])
        pats.append(p)
    for p in pats:
        t1 = c08.render(p, " ")
        if check_pattern(t1, True):
            # extra whitespace between tokens never changes the meaning
            t2 = c08.render(p, "  \n\t ")
            t3 = " " + t1.replace("(", "( ").replace(")", " )").replace("[", "[ ").replace("]", " ]").replace("=", " = ").replace("|", " | ") + " "
            b1 = behaviour(NodeMatcher.from_pattern(t1)[0], nodes)
            for tv in (t2, t3):
                if check_pattern(tv, True):
                    if behaviour(NodeMatcher.from_pattern(tv)[0], nodes) != b1:
                        fail(f"whitespace changes the meaning: {t1!r:.100} vs {tv!r:.100}")
            # compiling again, cached or not, gives the same behaviour
            _MATCHER_CACHE.pop(t1, None)
            if behaviour(NodeMatcher.from_pattern(t1)[0], nodes) != b1 or behaviour(NodeMatcher.from_pattern(t1)[0], nodes) != b1:
                fail(f"recompiling {t1!r:.100} changes its behaviour")
        for mt in mutations(tokens_pattern(t1), rnd, 4, " "):
            check_pattern(mt, None)
    for text in ("(NoSuchClass)", "(NoOrigin)", "(RtLeaf @v -> a @s -> a)", "(RtLeaf @v=$x)", "(RtLeaf @v=$x -> x)", "(* @v -> x @s=$x)", "", "(", "()", "(*", "(* @)",
                 "(RtLeaf @v=\"(\")", "(RtLeaf @v=\"[\")", "(RtLeaf|)", "(RtLeaf @items=[*] -> c)", "(RtLeaf @items=[* -> a * -> b])", "(Source)", "(* @v=[None -> A])"):
        r = check_pattern(text, None)
    for text, want in (("(NoSuchClass)", False), ("(NoOrigin)", False), ("(RtLeaf @v -> a @s -> a)", False), ("(RtLeaf @v=$x)", False), ("(* @v -> x @s=$x)", True),
                       ("(RtLeaf @items=[*] -> c)", True), ("(RtLeaf @v=\"(\")", False)):
        got = validate_pattern(text)[0]
        evals += 1
        if got != want:
            fail(f"validate_pattern({text!r}) = {got}, expected {want} (unknown / non-node class, repeated capture, variable before capture, bad regex are definition errors)")
    # whitespace inside a quoted regex is part of the token: texts differing only there are different patterns
    import re as _re
    from . import models as _M
    probes = [_M.RtUnary(_M.RtFalsy(0), None, name=nm) for nm in ("a b", "a  b", "a\tb", "ab")]
    for rx in ("a b$", "a  b$", "a\tb$", "a *b$"):
        text = f'(RtUnary @name="{rx}")'
        m, msg = NodeMatcher.from_pattern(text)
        evals += 1
        if m is None:
            fail(f"pattern {text!r} rejected: {msg}")
            continue
        for pn in probes:
            want = _re.match(rx, pn.name) is not None
            if m.match(pn)[0] != want:
                fail(f"pattern {text!r} on name {pn.name!r}: match={m.match(pn)[0]}, re.match says {want} (compiled after patterns differing only in regex whitespace)")
    _M.detach_all(*probes)
    # ---- xpaths ---------------------------------------------------------------------------------------
    paths = c07.gen_paths(rnd, 250 if tier == "quick" else 1500)
    for steps in paths:
        t1 = c07.render(steps)
        check_xpath(t1, True)
        check_xpath(t1.replace("/", " / ").replace("[", " [").replace("@", "@"), True)
        for mt in mutations(tokens_xpath(t1), rnd, 3, ""):
            check_xpath(mt, None)
    for text in ("", "/", "//", "/NoSuchClass", "/NoOrigin", "/@x", "/[1]", "/R/@items[-1]L", "/R.items", "/R/*", "/A|B", "#", "/RtLeaf/", "RtLeaf", "@items RtLeaf", "/[x]RtLeaf",
                 "/RtLeaf[1]", "/@1 RtLeaf", "/RtLeaf//", "/ RtLeaf", "\t/RtLeaf\n"):
        check_xpath(text, None)
    alphabet = list("/@[]()|*$=->\" \n") + ["RtLeaf", "RtList", "items", "child", "1", "12", "None", "x"]
    for _ in range(600 if tier == "quick" else 10000):
        s = "".join(rnd.choice(alphabet) for _ in range(rnd.randrange(1, 12)))
        check_xpath(s, None)
        check_pattern(s, None)
    samples.append({"pattern": c08.render(pats[0]), "mutation": mutations(tokens_pattern(c08.render(pats[0])), random.Random(1), 1, " ")})
    samples.append({"xpath": c07.render(paths[-1])})
    M.detach_all(*nodes)
    return {"evaluations": evals, "distinct_nontrivial": len(distinct),
            "rule": f"{n_pat} grammar-derived patterns (3 whitespace renderings, recompilation with and without cache, 4 single-token mutations each), fixed ill-formed texts (unknown / non-node classes, repeated captures, variable before capture, bad regex), {len(paths)} grammar-derived xpaths (2 renderings, 3 mutations each), fixed malformed xpaths incl. characters outside the alphabet, seeded random strings over the grammars' alphabet at all four entry points; distinct = text",
            "samples": samples, "failures": failures, "bound": "seeded; depth <= 3"}
