"""Bounded stand-in for C02: == is content equality plus origin equality at every position."""
from __future__ import annotations

import itertools
from typing import Any

from . import models as M


def run(tier: str = "quick", seed: int = 0) -> dict:
    failures: list[dict] = []
    evals = 0
    distinct: set = set()
    samples: list[Any] = []
    pool = M.origin_pool()
    maxn = 4 if tier == "quick" else 5
    descs = [d for d in M.all_descs(maxn) if M.size(d) >= 2] + [("U", ("T", (("L", 0), ("U", ("F", 1), ("L", 2)))), ("L", 3))]
    if tier == "quick":
        descs = descs[::3] + descs[-1:]

    def fail(what, snippet=""):
        if len(failures) < 10:
            failures.append({"what": what, "kf": None, "snippet": snippet})

    for desc in descs:
        positions = M.desc_positions(desc)
        base = M.build(desc, lambda p: pool[1])
        same = M.build(desc, lambda p: pool[1])
        evals += 1
        if not (base == same and same == base and not (base != same) and base == base):
            fail(f"equal trees compare unequal: {desc}", f"import rt.c02 as c, sys\nsys.exit(1 if c.replay({desc!r}, None, 0) else 0)")
        if hash(base) != hash(base) or hash(base) != hash(base.id):
            fail(f"hash of {desc} is not the hash of its id")
        for pos in positions:
            for oi in (0, 2, 3, 4, 5):
                evals += 1
                distinct.add((str(desc), pos, oi))
                other = M.build(desc, lambda p, pos=pos, oi=oi: pool[oi] if p == pos else pool[1])
                if base == other or other == base or not (base != other):
                    fail(f"trees {desc} differing only in the origin at position {pos} (origin kind {oi}) compare equal",
                         f"import rt.c02 as c, sys\nsys.exit(1 if c.replay({desc!r}, {pos!r}, {oi}) else 0)")
                if not base.is_equal(other):
                    fail(f"is_equal affected by an origin at {pos}")
                # transitivity / symmetry sample
                third = M.build(desc, lambda p, pos=pos, oi=oi: pool[oi] if p == pos else pool[1])
                if not (other == third and third == other):
                    fail(f"two identically built trees with origin {oi} at {pos} are not ==")
                M.detach_all(other, third)
        # other classes / non-nodes
        for thing in (None, 1, "x", object(), (base,), M.RtLeaf(99)):
            evals += 1
            try:
                if base == thing or not (base != thing):
                    fail(f"node == {thing!r}")
            except Exception as e:
                fail(f"node == {type(thing).__name__} raised {type(e).__name__}")
        # content differs -> not equal
        if desc[0] == "U":
            diff = M.build(("U", ("L", 41), desc[2]), lambda p: pool[1])
            evals += 1
            if base == diff:
                fail("trees with different content compare equal")
            M.detach_all(diff)
        if len(samples) < 3:
            samples.append({"tree": str(desc), "positions": len(positions)})
        M.detach_all(base, same)
    # origin equality itself: field-wise structural equality (independent oracle that ignores the
    # dataclass compare flags), including multi-origins whose members differ only in kind
    from pyoak.origin import EMPTY_CODE_RANGE, CodeOrigin, GeneratedCodeOrigin, MultiOrigin, XMLFileOrigin, XMLPath
    src = M.sources()
    opool = list(pool) + [CodeOrigin(src[0], EMPTY_CODE_RANGE), GeneratedCodeOrigin(src[1]),
                          MultiOrigin(origins=(CodeOrigin(src[0], EMPTY_CODE_RANGE), pool[2])),
                          MultiOrigin(origins=(GeneratedCodeOrigin(src[0]), pool[2])),
                          MultiOrigin(origins=(pool[2], pool[1])), XMLFileOrigin(src[1], XMLPath("/x/z"))]
    opool += [type(o)(**{f: getattr(o, f) for f, fd in o.__dataclass_fields__.items() if fd.init}) for o in opool[1:]]

    def ref_eq(a, b):
        if type(a) is not type(b):
            return False
        if hasattr(a, "__dataclass_fields__"):
            return all(ref_eq(getattr(a, f), getattr(b, f)) for f in a.__dataclass_fields__ if not f.startswith("_"))
        if isinstance(a, (tuple, list)):
            return len(a) == len(b) and all(ref_eq(x, y) for x, y in zip(a, b))
        return a == b

    for i, j in itertools.product(range(len(opool)), repeat=2):
        evals += 1
        a, b = opool[i], opool[j]
        if (a == b) != ref_eq(a, b):
            fail(f"origin equality: {a!r:.80} == {b!r:.80} is {a == b}, structural equality is {ref_eq(a, b)}",
                 f"import rt.c02 as c, sys\nsys.exit(1 if c.replay_origin({i}, {j}) else 0)")
        na, nb = M.RtUnary(M.RtLeaf(1, origin=a)), M.RtUnary(M.RtLeaf(1, origin=b))
        if (na == nb) != ref_eq(a, b):
            fail(f"nodes whose child origins are {a!r:.60} / {b!r:.60}: == is {na == nb}")
        M.detach_all(na, nb)
    return {"evaluations": evals, "distinct_nontrivial": len(distinct),
            "rule": f"model trees with 2..{maxn} nodes (every 3rd in quick tier); for every position of every tree and 5 other origin kinds the tree differing only there must be != in both directions while is_equal stays True; identically rebuilt trees must be ==; non-nodes and other classes compare False without raising; distinct = (tree, position, origin kind)",
            "samples": samples, "failures": failures, "bound": f"trees <= {maxn} nodes"}


def replay(desc, pos, oi):
    pool = M.origin_pool()
    a = M.build(desc, lambda p: pool[1])
    b = M.build(desc, lambda p: pool[oi] if (pos is not None and p == pos) else pool[1])
    bad = (a != b) if pos is None else (a == b or b == a)
    print("a == b:", a == b, "expected", pos is None)
    return bad


def replay_origin(i, j):
    print("origin pool indices", i, j, "disagree with structural equality (re-run rt.c02.run for details)")
    r = run()
    return bool(r["failures"])
