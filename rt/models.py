"""Node model and small-scope tree generators shared by the bounded stand-ins.

Trees are described by plain nested tuples ("descs") so that a case can be printed, replayed and
rebuilt independently of the registry state:
  ("L", v)            RtLeaf(v)                     ("S", v)         RtSubLeaf(v)  (subclass of RtLeaf)
  ("F", v)            RtFalsy(v)  (len() == 0)      ("U", c, o)      RtUnary(child=c, opt=o|None)
  ("T", (c, ...))     RtList(items=(...))           ("X", a, b)      RtFixed(pair=(a, b)) (leaves)
  ("D", d)            the tree d, detached right after construction (an equal tree built later shares its ids)
The reference walk below knows the child fields by construction and never calls the accessors."""
from __future__ import annotations

import enum
import itertools
from dataclasses import dataclass, field
from pathlib import Path
from typing import Any, Iterator, Literal

from pyoak.node import ASTNode
from pyoak.origin import (NO_ORIGIN, CodeOrigin, GeneratedCodeOrigin, MemoryTextSource, MultiOrigin, XMLFileOrigin,
                          XMLPath, get_code_range)


class RtColor(enum.Enum):
    RED = "r"
    BLUE = "b"


@dataclass(frozen=True)
class RtLeaf(ASTNode):
    v: int = 0
    s: str = ""
    tag: str = field(default="", compare=False)


@dataclass(frozen=True)
class RtSubLeaf(RtLeaf):
    extra: int = 0


@dataclass(frozen=True)
class RtFalsy(ASTNode):
    v: int = 0

    def __len__(self) -> int:
        return 0


@dataclass(frozen=True)
class RtUnary(ASTNode):
    child: ASTNode
    opt: ASTNode | None = None
    name: str = ""


@dataclass(frozen=True)
class RtList(ASTNode):
    items: tuple[ASTNode, ...]
    label: str = ""


@dataclass(frozen=True)
class RtFixed(ASTNode):
    pair: tuple[RtLeaf, RtLeaf]


@dataclass(frozen=True)
class RtProps(ASTNode):
    i: int = 0
    b: bool = False
    f: float = 0.0
    n: int | None = None
    e: RtColor = RtColor.RED
    t: tuple[int, ...] = ()
    p: Path = Path("a/b")
    lit: Literal["x", "y"] = "x"
    o: tuple[str, int] | None = None
    nc: int = field(default=0, compare=False)
    ni: int = field(default=7, init=False)
    nn: int = field(default=9, init=False, compare=False)


CHILD_FIELDS: dict[type, list[tuple[str, bool]]] = {
    RtLeaf: [], RtSubLeaf: [], RtFalsy: [], RtProps: [],
    RtUnary: [("child", False), ("opt", False)],
    RtList: [("items", True)],
    RtFixed: [("pair", True)],
}

_SRC: list[Any] = []


def sources() -> list[Any]:
    if not _SRC:
        _SRC.extend(MemoryTextSource("abcdefghijklmnop", source_uri=f"rt-src{i}") for i in range(2))
    return _SRC


def origin_pool() -> list[Any]:
    s = sources()
    a = CodeOrigin(s[0], get_code_range(0, 1, 0, 2, 1, 2))
    b = CodeOrigin(s[1], get_code_range(3, 1, 3, 5, 1, 5))
    return [NO_ORIGIN, a, b, GeneratedCodeOrigin(s[0]), XMLFileOrigin(s[1], XMLPath("/x/y")), MultiOrigin(origins=(a, b))]


def build(desc: Any, origin_of: Any = None, path: tuple = ()) -> ASTNode:
    """Build real nodes bottom-up.  origin_of(path) -> Origin (default: NoOrigin everywhere)."""
    o = origin_of(path) if origin_of else NO_ORIGIN
    k = desc[0]
    if k == "L":
        return RtLeaf(desc[1], origin=o)
    if k == "S":
        return RtSubLeaf(desc[1], origin=o)
    if k == "F":
        return RtFalsy(desc[1], origin=o)
    if k == "U":
        c = build(desc[1], origin_of, path + (("child", None),))
        op = build(desc[2], origin_of, path + (("opt", None),)) if desc[2] is not None else None
        return RtUnary(c, op, origin=o)
    if k == "T":
        return RtList(tuple(build(d, origin_of, path + (("items", i),)) for i, d in enumerate(desc[1])), origin=o)
    if k == "X":
        return RtFixed((build(desc[1], origin_of, path + (("pair", 0),)), build(desc[2], origin_of, path + (("pair", 1),))), origin=o)  # type: ignore[arg-type]
    if k == "D":
        # a subtree that is detached right after it is built: an equal subtree built later re-uses its ids (same-id twins)
        n = build(desc[1], origin_of, path)
        n.detach()
        return n
    raise ValueError(desc)


def size(desc: Any) -> int:
    k = desc[0]
    if k in "LSF":
        return 1
    if k == "U":
        return 1 + size(desc[1]) + (size(desc[2]) if desc[2] is not None else 0)
    if k == "T":
        return 1 + sum(size(d) for d in desc[1])
    if k == "D":
        return size(desc[1])
    return 3


def descs(n: int, leaf_vals: tuple = (0, 1)) -> Iterator[Any]:
    """All tree descriptions with exactly n nodes (leaf payloads from leaf_vals)."""
    if n == 1:
        for v in leaf_vals:
            yield ("L", v)
        yield ("S", leaf_vals[0])
        yield ("F", leaf_vals[0])
        yield ("T", ())
        return
    # unary: child (+ optional)
    for a in range(1, n):
        rest = n - 1 - a
        for c in descs(a, leaf_vals):
            if rest == 0:
                yield ("U", c, None)
            else:
                for o in descs(rest, leaf_vals):
                    yield ("U", c, o)
    # tuple of k >= 1 children
    for parts in _compositions(n - 1):
        for combo in itertools.product(*[list(descs(p, leaf_vals)) for p in parts]):
            yield ("T", tuple(combo))
    if n == 3:
        for a, b in itertools.product(leaf_vals, repeat=2):
            yield ("X", ("L", a), ("L", b))


def _compositions(n: int) -> Iterator[tuple[int, ...]]:
    if n == 0:
        return
    for first in range(1, n + 1):
        if first == n:
            yield (n,)
        else:
            for rest in _compositions(n - first):
                yield (first,) + rest


def all_descs(max_n: int, leaf_vals: tuple = (0, 1)) -> list[Any]:
    out = []
    for n in range(1, max_n + 1):
        out.extend(descs(n, leaf_vals))
    return out


# ---- independent reference structure (never calls the library's accessors) ---------------------


def ref_children(node: ASTNode) -> list[tuple[ASTNode, str, int | None]]:
    """(child, field name, index) in declaration order, by direct attribute access."""
    out: list[tuple[ASTNode, str, int | None]] = []
    for fname, is_tuple in CHILD_FIELDS.get(type(node), []):
        val = object.__getattribute__(node, fname)
        if is_tuple:
            for i, c in enumerate(val):
                out.append((c, fname, i))
        elif val is not None:
            out.append((val, fname, None))
    return out


def ref_preorder(node: ASTNode) -> list[tuple[ASTNode, ASTNode, str, int | None]]:
    out = []
    for c, f, i in ref_children(node):
        out.append((c, node, f, i))
        out.extend(ref_preorder(c))
    return out


def ref_nodes(root: ASTNode) -> list[ASTNode]:
    return [root] + [x[0] for x in ref_preorder(root)]


def desc_positions(desc: Any, path: tuple = ()) -> list[tuple]:
    """All positions (paths) of a description, root first, pre-order."""
    out = [path]
    k = desc[0]
    if k == "U":
        out += desc_positions(desc[1], path + (("child", None),))
        if desc[2] is not None:
            out += desc_positions(desc[2], path + (("opt", None),))
    elif k == "T":
        for i, d in enumerate(desc[1]):
            out += desc_positions(d, path + (("items", i),))
    elif k == "X":
        out += [path + (("pair", 0),), path + (("pair", 1),)]
    return out


def detach_all(*roots: ASTNode) -> None:
    for r in roots:
        try:
            r.detach()
        except Exception:
            pass


HEADER = "from rt.models import *\nfrom pyoak.node import ASTNode\nimport sys\n"
