"""Bounded stand-in for C09: visitor dispatch rules and bottom-up transformation with identity of
untouched subtrees."""
from __future__ import annotations

import dataclasses
import itertools
from typing import Any

from pyoak.node import ASTNode
from pyoak.visitor import ASTTransformVisitor, ASTVisitor

from . import models as M
from .c10 import snapshot

ACTIONS = ["keep", "rewrite", "other", "twin", "remove", "raise"]


def make_transformer(rules: dict[str, str], strict: bool):
    """rules: class name -> action, installed as visit_<Class> methods."""
    ns: dict[str, Any] = {"strict": strict}

    def mk(action):
        def method(self, node):
            if action == "keep":
                return node
            if action == "rewrite":
                return dataclasses.replace(node, v=node.v + 100)
            if action == "other":
                return M.RtFalsy(55)
            if action == "twin":
                return dataclasses.replace(node)  # equal (==) to node, but another object
            if action == "remove":
                return None
            raise RuntimeError("rule raises")
        return method

    for cname, action in rules.items():
        ns[f"visit_{cname}"] = mk(action)
    return type("RtRuleVisitor", (ASTTransformVisitor,), ns)


def expected_rule(node: ASTNode, rules: dict[str, str], strict: bool) -> str | None:
    if strict:
        return rules.get(type(node).__name__)
    for c in type(node).__mro__[:-1]:
        if c.__name__ in rules:
            return rules[c.__name__]
    return None


class RefRaise(Exception):
    pass


def ref_transform(node: ASTNode, rules: dict[str, str], strict: bool):
    """-> ('same', node) | ('new', shape) | ('none',)   shape: ('node', cls, {field: ...}) records the expected structure."""
    act = expected_rule(node, rules, strict)
    if act is not None:
        if act == "keep":
            return ("same", node)
        if act == "rewrite":
            return ("leaf", type(node), node.v + 100)
        if act == "other":
            return ("leaf", M.RtFalsy, 55)
        if act == "twin":
            return ("leaf", type(node), node.v)
        if act == "remove":
            return ("none",)
        raise RefRaise()
    changed = False
    fields: dict[str, Any] = {}
    for fname, is_tuple in M.CHILD_FIELDS[type(node)]:
        val = object.__getattribute__(node, fname)
        if is_tuple:
            items = [ref_transform(c, rules, strict) for c in val]
            if any(r[0] != "same" for r in items):
                changed = True
            fields[fname] = [r for r in items if r[0] != "none"]
        elif val is not None:
            r = ref_transform(val, rules, strict)
            if r[0] != "same":
                changed = True
            fields[fname] = r
    if not changed:
        return ("same", node)
    return ("node", type(node), fields, node)


def matches(got: Any, exp: Any, path: str = "$") -> str | None:
    k = exp[0]
    if k == "same":
        return None if got is exp[1] else f"{path}: untouched subtree was not returned as the same object"
    if k == "none":
        return None if got is None else f"{path}: expected None"
    if k == "leaf":
        if got is None or type(got) is not exp[1] or got.v != exp[2]:
            return f"{path}: expected {exp[1].__name__}(v={exp[2]}), got {got!r:.60}"
        return None
    _, cls, fields, orig = exp
    if got is None or type(got) is not cls:
        return f"{path}: expected a new {cls.__name__}"
    if got is orig:
        return f"{path}: an ancestor of a change was returned unchanged (same object)"
    for fname, is_tuple in M.CHILD_FIELDS[cls]:
        val = object.__getattribute__(got, fname)
        if fname not in fields:
            if val is not None and not is_tuple:
                return f"{path}.{fname}: expected None"
            continue
        if is_tuple:
            if not isinstance(val, tuple) or len(val) != len(fields[fname]):
                return f"{path}.{fname}: expected a tuple of {len(fields[fname])}, got {val!r:.80}"
            for i, (g, e) in enumerate(zip(val, fields[fname])):
                m = matches(g, e, f"{path}.{fname}[{i}]")
                if m:
                    return m
        else:
            m = matches(val, fields[fname], f"{path}.{fname}")
            if m:
                return m
    return None


def run(tier: str = "quick", seed: int = 0) -> dict:
    failures: list[dict] = []
    evals = 0
    distinct: set = set()
    samples: list[Any] = []

    def fail(what):
        if len(failures) < 10:
            failures.append({"what": what, "kf": None, "snippet": "import rt.c09 as c, sys\nr = c.run()\nfor f in r['failures'][:5]: print(f['what'])\nsys.exit(1 if r['failures'] else 0)"})

    # ---- dispatch --------------------------------------------------------------------------------
    nodes = [M.RtLeaf(1), M.RtSubLeaf(2), M.RtFalsy(3), M.RtUnary(M.RtLeaf(4)), M.RtList(())]
    method_sets = [("RtLeaf",), ("RtSubLeaf",), ("RtLeaf", "RtSubLeaf"), ("ASTNode",), ("RtUnary", "RtLeaf"), ()]

    def tracer(names, strict_default):
        ns: dict[str, Any] = {"strict": strict_default, "generic_visit": lambda self, node: "generic"}
        for n in names:
            ns[f"visit_{n}"] = (lambda n: lambda self, node: n)(n)
        return type("RtTracer", (ASTVisitor,), ns)

    for names in method_sets:
        for order in ((False, True), (True, False)):
            cls = tracer(names, False)  # one visitor class used with both strictness values, in both orders
            for strict in order:
                v = cls()
                v.strict = strict
                for n in nodes:
                    evals += 1
                    distinct.add(("dispatch", names, order, strict, type(n).__name__))
                    if strict:
                        want = type(n).__name__ if type(n).__name__ in names else "generic"
                    else:
                        want = next((c.__name__ for c in type(n).__mro__[:-1] if c.__name__ in names), "generic")
                    got = v.visit(n)
                    if got != want:
                        fail(f"dispatch: visitor methods {names}, strict={strict} (class first used with strict={order[0]}): node {type(n).__name__} -> {got}, expected {want}")
            for strict in (True, False):  # class-level strict
                cls2 = tracer(names, strict)
                for n in nodes:
                    evals += 1
                    want = (type(n).__name__ if type(n).__name__ in names else "generic") if strict else next((c.__name__ for c in type(n).__mro__[:-1] if c.__name__ in names), "generic")
                    if cls2().visit(n) != want:
                        fail(f"dispatch (class-level strict={strict}) methods {names}: node {type(n).__name__}")
    M.detach_all(*nodes)
    # ---- transformation ----------------------------------------------------------------------------
    maxn = 4 if tier == "quick" else 5
    descs = [d for d in M.all_descs(maxn) if M.size(d) >= 2]
    if tier == "quick":
        descs = descs[::5]
    descs += [("T", (("L", 1), ("L", 0), ("L", 1))), ("U", ("L", 1), ("L", 1)), ("U", ("T", (("L", 0), ("S", 1), ("F", 0))), ("U", ("L", 1), None)),
              ("T", (("S", 1), ("L", 0), ("U", ("F", 0), ("S", 1))))]
    rule_sets: list[tuple[dict[str, str], bool]] = []
    for act in ACTIONS[1:]:
        rule_sets.append(({"RtLeaf": act}, False))
        rule_sets.append(({"RtLeaf": act}, True))
        rule_sets.append(({"RtSubLeaf": act, "RtFalsy": "keep"}, False))
    rule_sets += [({"RtLeaf": "remove", "RtFalsy": "rewrite"}, False), ({"RtFalsy": "remove"}, True), ({"RtLeaf": "keep"}, False), ({}, False),
                  ({"RtLeaf": "twin", "RtFalsy": "raise"}, False), ({"RtUnary": "remove"}, False)]
    for desc in descs:
        root = M.build(desc)
        nodes_ = M.ref_nodes(root)
        for rules, strict in rule_sets:
            evals += 1
            distinct.add((str(desc), tuple(sorted(rules.items())), strict))
            before = snapshot(nodes_)
            tv = make_transformer(rules, strict)()
            try:
                exp: Any = ref_transform(root, rules, strict)
            except RefRaise:
                exp = "raises"
            try:
                got: Any = tv.transform(root)
                raised = False
            except RuntimeError:
                raised = True
            except Exception as e:
                fail(f"transform of {desc} with {rules} raised {type(e).__name__}: {e}")
                continue
            if (exp == "raises") != raised:
                fail(f"transform of {desc} with {rules} strict={strict}: raised={raised}, expected raises={exp == 'raises'}")
            elif not raised:
                m = matches(got, exp)
                if m:
                    fail(f"transform of {desc} with rules {rules} strict={strict}: {m}")
            after = snapshot(nodes_)
            if [b[:5] for b in before] != [a[:5] for a in after]:
                fail(f"transform of {desc} with {rules} modified the input tree")
        if len(samples) < 3:
            samples.append({"tree": str(desc), "rules": [str(r) for r in rule_sets[:3]]})
        M.detach_all(root)
    return {"evaluations": evals, "distinct_nontrivial": len(distinct),
            "rule": f"dispatch: 6 method sets x strict/non-strict (instance-level in both orders of first use, and class-level) x 5 node classes; transform: model trees (2..{maxn} nodes, sampled, plus 4 fixed) x {len(rule_sets)} rule sets (keep / rewrite property / replace by other class / replace by an equal twin / remove / raise; strict and non-strict; methods on base classes) against a recursive reference that records which subtrees must be identical objects; distinct = (tree, rules, strict)",
            "samples": samples, "failures": failures, "bound": f"trees <= {maxn} nodes"}
