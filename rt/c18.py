"""Bounded stand-in for C18 (legacy trees stay consistent through any history of successful operations)."""
from __future__ import annotations

from typing import Any

from . import legacy_hist as H


def _run(prefix: str, tier: str, seed: int) -> dict:
    n = 1500 if tier == "quick" else 20000
    length = 7 if tier == "quick" else 10
    failures: list[dict] = []
    sigs: dict[tuple, int] = {}
    ops: set = set()
    evals = 0
    samples: list[Any] = []
    for k in range(n):
        r = H.run_history(seed * 1_000_003 + k, length)
        evals += 1
        if r is None:
            continue
        clause = r["sig"][2]
        mine = clause.startswith(prefix) or (prefix == "C18:" and not clause.startswith("C19:"))
        if not mine:
            continue
        sigs[r["sig"]] = sigs.get(r["sig"], 0) + 1
        kf = H.classify(r["sig"], r.get("twin", False))
        if len([f for f in failures if f["kf"] == kf and f["sig"] == r["sig"]]) < 1 and len(failures) < 30:
            failures.append({"what": f"legacy history (seed {r['seed']}): {' ; '.join(r['log'])} -> {clause}", "kf": kf, "sig": r["sig"],
                             "snippet": f"import rt.legacy_hist as H, sys\nr = H.run_history({r['seed']}, {length})\nprint(r)\nsys.exit(1 if r else 0)"})
    for k in range(3):
        samples.append({"history_seed": seed * 1_000_003 + k, "length": length})
    return {"evaluations": evals, "distinct_nontrivial": evals,
            "rule": f"{n} seeded histories of length <= {length} over {{construct leaf / unary / list over existing attached or detached nodes, attach, detach, detach_self, replace value, replace optional child, replace_with node / None, duplicate, two transform visitors}} plus operations the library must reject (forbidden replace key, duplicate children, parent collision at first / later child, replace_with a node that has a parent); admissibility (no object at two positions, replacement not inside / above the receiver) decided on a shadow check before the call; watchdog of 3 s per call; after every successful call the consistency invariant (children attached and pointing back with field and index, parent holds the node, lookup, content_id equal to an independently rebuilt tree, ancestors / depth), after every documented rejection an unchanged snapshot of every pre-existing node; failures summarised by (operation, argument category, clause); distinct = history seed",
            "samples": samples, "failures": failures, "signatures": {str(k): v for k, v in sigs.items()}, "bound": f"{n} histories, length <= {length}"}


def run(tier: str = "quick", seed: int = 0) -> dict:
    return _run("C18:", tier, seed)
