"""Bounded stand-in for C12: accessors vs the class definition, natively, over the generated class
family, every flag combination, three instance variants (full / empty+absent / falsy children) and
every order of first use among the classes of a hierarchy."""
from __future__ import annotations

import itertools
from typing import Any

from . import classgen as G


def expected_children(gc: G.GenClass, inst: Any, sort_keys: bool) -> list[tuple[Any, str, int | None]]:
    fs = sorted(gc.child_fields, key=lambda f: f.name) if sort_keys else gc.child_fields
    out: list[tuple[Any, str, int | None]] = []
    for f in fs:
        v = object.__getattribute__(inst, f.name)
        if f.is_tuple:
            out.extend((c, f.name, i) for i, c in enumerate(v))
        elif v is not None:
            out.append((v, f.name, None))
    return out


def expected_props(gc: G.GenClass, flags: tuple[bool, bool, bool, bool, bool], sort_keys: bool) -> list[str]:
    skip_id, skip_origin, skip_content_id, skip_nc, skip_ni = flags
    base = [("id", False, False), ("content_id", False, False), ("origin", True, True)]
    allp = base + [(f.name, f.init, f.compare) for f in gc.prop_fields]
    if sort_keys:
        allp = sorted(allp, key=lambda p: p[0])
    out = []
    for n, init, compare in allp:
        if n == "id":
            keep = not skip_id
        elif n == "content_id":
            keep = not skip_content_id
        elif n == "origin":
            keep = not skip_origin
        else:
            keep = not (not compare and skip_nc) and not (not init and skip_ni)
        if keep:
            out.append(n)
    return out


def check_instance(gc: G.GenClass, inst: Any, all_flags: bool) -> list[str]:
    errs: list[str] = []
    for sk in (False, True):
        exp = expected_children(gc, inst, sk)
        got = list(inst.get_child_nodes_with_field(sort_keys=sk))
        if len(got) != len(exp) or any(g[0] is not e[0] or g[1].name != e[1] or g[2] != e[2] for g, e in zip(got, exp)):
            errs.append(f"get_child_nodes_with_field(sort_keys={sk}): got {[(g[1].name, g[2]) for g in got]}, want {[(e[1], e[2]) for e in exp]}")
        gotn = list(inst.get_child_nodes(sort_keys=sk))
        if len(gotn) != len(exp) or any(g is not e[0] for g, e in zip(gotn, exp)):
            errs.append(f"get_child_nodes(sort_keys={sk}) differs")
        fs = sorted(gc.child_fields, key=lambda f: f.name) if sk else gc.child_fields
        goti = list(inst.iter_child_fields(sort_keys=sk))
        if [g[1].name for g in goti] != [f.name for f in fs] or any(g[0] is not object.__getattribute__(inst, f.name) for g, f in zip(goti, fs)):
            errs.append(f"iter_child_fields(sort_keys={sk}): got {[g[1].name for g in goti]}")
        flagsets = list(itertools.product([False, True], repeat=5)) if all_flags else [(True, True, True, False, False), (False, False, False, True, True), (False, True, False, False, True)]
        for flags in flagsets:
            want = expected_props(gc, flags, sk)
            gotp = list(inst.get_properties(*flags, sort_keys=sk))
            if [g[1].name for g in gotp] != want or any(g[0] is not object.__getattribute__(inst, g[1].name) and g[0] != object.__getattribute__(inst, g[1].name) for g in gotp):
                errs.append(f"get_properties{flags} sort_keys={sk}: got {[g[1].name for g in gotp]}, want {want}")
            if not sk:
                gots = [f.name for f in type(inst).get_property_fields(*flags)]
                if gots != want:
                    errs.append(f"get_property_fields{flags}: got {gots}, want {want}")
    if [c for c in inst.children] != [e[0] for e in expected_children(gc, inst, False)]:
        errs.append("children differs")
    if [f.name for f in type(inst).get_child_fields()] != [f.name for f in gc.child_fields]:
        errs.append(f"get_child_fields: {[f.name for f in type(inst).get_child_fields()]}")
    if list(inst.to_properties_dict()) != expected_props(gc, (True, True, True, False, False), False):
        errs.append(f"to_properties_dict keys {list(inst.to_properties_dict())}")
    # the Field objects handed out belong to the class itself (overridden fields included)
    import dataclasses
    own = {f.name: f for f in dataclasses.fields(type(inst))}
    for g in inst.get_child_nodes_with_field():
        if g[1] is not own[g[1].name]:
            errs.append(f"get_child_nodes_with_field yields a Field object of another class for {g[1].name}")
    for g in inst.get_properties(False, False, False):
        if g[1] is not own[g[1].name]:
            errs.append(f"get_properties yields a Field object of another class for {g[1].name}")
    return errs


def run(tier: str = "quick", seed: int = 0) -> dict:
    failures: list[dict] = []
    evals = 0
    distinct: set = set()
    samples: list[Any] = []
    fam = G.family(tier)

    def fail(what):
        if len(failures) < 10:
            failures.append({"what": what, "kf": None, "snippet": "import rt.c12 as c, sys\nr = c.run()\nfor f in r['failures'][:5]: print(f['what'])\nsys.exit(1 if r['failures'] else 0)"})

    for h in fam:
        for gc in h:
            for variant in range(3):
                evals += 1
                distinct.add((gc.source, variant))
                inst = G.instance(gc, variant)
                for e in check_instance(gc, inst, all_flags=(variant == 0)):
                    fail(f"{gc.name} (bases {gc.bases}) variant {variant}: {e} | {gc.source!r:.300}")
                inst.detach()
        if len(samples) < 3:
            samples.append({"hierarchy": [g.source for g in h]})
    # every order of first use among the classes of a hierarchy (fresh classes per order)
    F = G.FSpec
    chains = [
        ([[F("opt", "O"), F("n", "i", compare=False)], [F("items", "T")], [F("opt", "T")]], None),
        ([[F("left", "O")], []], [F("items", "T")]),
        ([[F("a", "C", default=False)], [], [F("p", "s", init=False)]], None),
        ([[F("value", "i")], [F("value", "O")]], None),
        ([[F("target", "O")], [F("target", "s")]], None),
        ([[F("opt", "O"), F("n", "i")], [F("opt", "O"), F("n", "i")]], None),   # override with identical shape: same text, other Field objects
    ]
    for levels, second in chains:
        probe = G._define_raw(levels, 9000, second)
        n = len(probe)
        for order in itertools.permutations(range(n)):
            evals += 1
            distinct.add((str(levels), order))
            classes = G._define_raw(levels, 9001, second)
            insts = {}
            for idx in order:  # first use in this order
                insts[idx] = G.instance(classes[idx], 0)
                list(insts[idx].get_child_nodes_with_field())
                list(insts[idx].get_properties())
                list(insts[idx].iter_child_fields())
                list(insts[idx].get_child_nodes())
            for idx in range(n):
                for e in check_instance(classes[idx], insts[idx], all_flags=False):
                    fail(f"first-use order {order}: class #{idx} of chain {[[f.name + ':' + f.kind for f in l] for l in levels]} second_base={second is not None}: {e}")
                insts[idx].detach()
    return {"evaluations": evals, "distinct_nontrivial": len(distinct),
            "rule": f"{sum(len(h) for h in fam)} generated classes in {len(fam)} hierarchies (1-3 levels, multiple inheritance, overrides, init=False, compare=False, kw_only) x 3 instance variants x both sort orders x all 32 flag combinations (variant 0) x 8 accessors, compared with the layout computed from the class spec by the dataclass rule; 5 chains x every permutation of first use with fresh classes; distinct = (class source, variant) / (chain, order)",
            "samples": samples, "failures": failures, "bound": "generated family, see rt/classgen.py"}
