"""Legacy (parent-aware, mutable) node model for the bounded stand-ins C18 / C19 / C20."""
from __future__ import annotations

import warnings
from dataclasses import dataclass, field
from typing import Any

warnings.simplefilter("ignore", DeprecationWarning)
from pyoak.legacy.node import AwareASTNode  # noqa: E402
from pyoak.origin import NO_ORIGIN  # noqa: E402


@dataclass
class LgLeaf(AwareASTNode):
    v: int = 0


@dataclass
class LgSub(LgLeaf):
    w: int = 0


@dataclass
class LgUnary(AwareASTNode):
    child: AwareASTNode = None  # type: ignore[assignment]
    opt: AwareASTNode | None = None


@dataclass
class LgList(AwareASTNode):
    items: tuple[AwareASTNode, ...] = ()
    elems: list[AwareASTNode] = field(default_factory=list)


CHILD_FIELDS = {LgLeaf: [], LgSub: [], LgUnary: [("child", False), ("opt", False)], LgList: [("items", True), ("elems", True)]}


def build(desc: Any, **kw: Any) -> AwareASTNode:
    """("L", v) | ("S", v) | ("U", child, opt|None) | ("T", (items...), (elems...))"""
    k = desc[0]
    if k == "L":
        return LgLeaf(desc[1], origin=NO_ORIGIN, **kw)
    if k == "S":
        return LgSub(desc[1], origin=NO_ORIGIN, **kw)
    if k == "U":
        return LgUnary(build(desc[1]), build(desc[2]) if desc[2] is not None else None, origin=NO_ORIGIN, **kw)
    if k == "T":
        return LgList(tuple(build(d) for d in desc[1]), [build(d) for d in (desc[2] if len(desc) > 2 else ())], origin=NO_ORIGIN, **kw)
    raise ValueError(desc)


def ref_children(n: AwareASTNode) -> list[tuple[AwareASTNode, str, int | None]]:
    out: list[tuple[AwareASTNode, str, int | None]] = []
    for fname, is_seq in CHILD_FIELDS[type(n)]:
        v = object.__getattribute__(n, fname)
        if is_seq:
            out.extend((c, fname, i) for i, c in enumerate(v))
        elif v is not None:
            out.append((v, fname, None))
    return out


def ref_nodes(root: AwareASTNode) -> list[AwareASTNode]:
    out = [root]
    for c, _, _ in ref_children(root):
        out.extend(ref_nodes(c))
    return out


def clear_registry() -> None:
    AwareASTNode._nodes.clear()
