"""Bounded stand-in for C05: traversals against an independent recursive reference, all small trees,
all prune / filter subsets of positions (exhaustive for small trees, sampled for larger ones)."""
from __future__ import annotations

import itertools
import random
from typing import Any

from . import models as M


def ref_stream(node, prune, filt, bottom_up=False):
    out = []
    for c, f, i in M.ref_children(node):
        key = id(c)
        mine = [(c, node, f, i)] if filt(c) else []
        below = [] if prune(c) else ref_stream(c, prune, filt, bottom_up)
        out.extend(below + mine if bottom_up else mine + below)
    return out


def ref_bfs(node, prune, filt):
    out = []
    level = [(c, node, f, i) for c, f, i in M.ref_children(node)]
    while level:
        nxt = []
        for (c, p, f, i) in level:
            if filt(c):
                out.append((c, p, f, i))
            if not prune(c):
                nxt.extend((cc, c, ff, ii) for cc, ff, ii in M.ref_children(c))
        level = nxt
    return out


def same(got, want) -> bool:
    return len(got) == len(want) and all(g.node is w[0] and g.parent is w[1] and g.field.name == w[2] and g.findex == w[3] for g, w in zip(got, want))


def run(tier: str = "quick", seed: int = 0) -> dict:
    rnd = random.Random(seed)
    failures: list[dict] = []
    evals = 0
    distinct: set = set()
    samples: list[Any] = []
    maxn = 4 if tier == "quick" else 5
    descs = M.all_descs(maxn)
    extra = [("U", ("T", (("L", 0), ("F", 0), ("S", 1))), ("U", ("F", 1), ("L", 2))), ("T", tuple(("L", i % 2) for i in range(12))),
             ("X", ("L", 0), ("L", 1))]
    for desc in descs + extra:
        root = M.build(desc)
        nodes = M.ref_nodes(root)[1:]
        n = len(nodes)
        if n <= 4:
            subsets = list(itertools.product([False, True], repeat=n))
            pairs = list(itertools.product(subsets, repeat=2))
            if len(pairs) > 64:
                pairs = rnd.sample(pairs, 64) + [(tuple([False] * n), tuple([True] * n)), (tuple([True] * n), tuple([True] * n))]
        else:
            pairs = [(tuple(rnd.random() < 0.3 for _ in range(n)), tuple(rnd.random() < 0.6 for _ in range(n))) for _ in range(12)]
            pairs.append((tuple([False] * n), tuple([True] * n)))
        for pr_set, fl_set in pairs:
            evals += 1
            distinct.add((str(desc), pr_set, fl_set))
            pmap = {id(x): p for x, p in zip(nodes, pr_set)}
            fmap = {id(x): f for x, f in zip(nodes, fl_set)}
            prune = lambda c: pmap[id(c)]
            filt = lambda c: fmap[id(c)]
            p_cb = lambda info: pmap[id(info.node)]
            f_cb = lambda info: fmap[id(info.node)]
            checks = [
                ("dfs", list(root.dfs(prune=p_cb, filter=f_cb)), ref_stream(root, prune, filt)),
                ("dfs bottom_up", list(root.dfs(prune=p_cb, filter=f_cb, bottom_up=True)), ref_stream(root, prune, filt, True)),
                ("bfs", list(root.bfs(prune=p_cb, filter=f_cb)), ref_bfs(root, prune, filt)),
            ]
            for name, got, want in checks:
                if not same(got, want):
                    if len(failures) < 10:
                        failures.append({"what": f"{name} on {desc} prune={pr_set} filter={fl_set}: got {[ (type(g.node).__name__, g.field.name, g.findex) for g in got]}, want {[(type(w[0]).__name__, w[2], w[3]) for w in want]}",
                                         "kf": None, "snippet": f"import rt.c05 as c, sys\nsys.exit(1 if c.replay({desc!r}, {pr_set!r}, {fl_set!r}) else 0)"})
                for g in got:
                    v = getattr(g.parent, g.field.name)
                    if not ((g.findex is None and v is g.node) or (g.findex is not None and v[g.findex] is g.node)):
                        failures.append({"what": f"{name}: position law violated on {desc}", "kf": None, "snippet": ""})
            # gather: instances / exact types + extra filter
            for classes, exact in ((M.RtLeaf, False), (M.RtLeaf, True), ((M.RtSubLeaf, M.RtFalsy), False), ((M.RtList, M.RtUnary), True)):
                cl = classes if isinstance(classes, tuple) else (classes,)
                test = (lambda c: type(c) in cl) if exact else (lambda c: isinstance(c, cl))
                want = [w[0] for w in ref_stream(root, prune, lambda c: test(c) and filt(c))]
                got = list(root.gather(classes, exact_type=exact, extra_filter=f_cb, prune=p_cb))
                if len(got) != len(want) or any(a is not b for a, b in zip(got, want)):
                    if len(failures) < 10:
                        failures.append({"what": f"gather({classes}, exact={exact}) on {desc} prune={pr_set} filter={fl_set}", "kf": None,
                                         "snippet": f"import rt.c05 as c, sys\nsys.exit(1 if c.replay({desc!r}, {pr_set!r}, {fl_set!r}) else 0)"})
        if [c for c, _, _ in M.ref_children(root)] != list(root.children) or any(a is not b for a, b in zip(root.children, [c for c, _, _ in M.ref_children(root)])):
            failures.append({"what": f"children of {desc}", "kf": None, "snippet": ""})
        if len(samples) < 3:
            samples.append({"tree": str(desc), "prune": str(pairs[0][0]), "filter": str(pairs[0][1])})
        M.detach_all(root)
    # inherited child fields from several node bases, every order of first use among the classes of the hierarchy
    from . import classgen as G
    from .c12 import expected_children
    import itertools as _it
    F = G.FSpec
    for levels, second in (([[F("left", "O")], []], [F("items", "T")]), ([[F("a", "C", default=False)], [], [F("more", "T")]], None)):
        n = len(G._define_raw(levels, 9100, second))
        for order in _it.permutations(range(n)):
            evals += 1
            distinct.add(("hierarchy", str(levels), order))
            classes = G._define_raw(levels, 9101, second)
            insts = {}
            for idx in order:
                insts[idx] = G.instance(classes[idx], 0)
                list(insts[idx].dfs())
            for idx in range(n):
                want = []

                def walk(gc_inst, node, acc):
                    for c, f, i in ([(x[0], x[1], x[2]) for x in expected_children(node_gc(node), node, False)] if node_gc(node) else []):
                        acc.append((c, node, f, i))
                        walk(gc_inst, c, acc)

                by_cls = {gc.cls: gc for gc in classes}

                def node_gc(node):
                    return by_cls.get(type(node))
                walk(None, insts[idx], want)
                got = list(insts[idx].dfs())
                if len(got) != len(want) or any(g.node is not w[0] or g.field.name != w[2] or g.findex != w[3] for g, w in zip(got, want)):
                    fail_msg = f"dfs on class #{idx} of a hierarchy with inherited child fields (first-use order {order}): {len(got)} positions, the class definition has {len(want)}"
                    if len(failures) < 10:
                        failures.append({"what": fail_msg, "kf": None, "snippet": "import rt.c05 as c, sys\nr = c.run()\nprint([f['what'] for f in r['failures']][:3])\nsys.exit(1 if r['failures'] else 0)"})
                if [x.node for x in insts[idx].bfs()] and len(list(insts[idx].bfs())) != len(want):
                    failures.append({"what": f"bfs on class #{idx} (first-use order {order}) misses positions", "kf": None, "snippet": ""})
            for i_ in insts.values():
                i_.detach()
    # a shared node object at two positions is visited at both
    leaf = M.RtLeaf(7)
    sh = M.RtList((leaf, M.RtUnary(leaf)))
    evals += 1
    if [type(i.node).__name__ for i in sh.dfs()] != ["RtLeaf", "RtUnary", "RtLeaf"]:
        failures.append({"what": "shared node not visited at both positions", "kf": None, "snippet": ""})
    M.detach_all(sh)
    return {"evaluations": evals, "distinct_nontrivial": len(distinct),
            "rule": f"all trees with <= {maxn} nodes over the rt model (leaf, subclass leaf, falsy leaf, unary with optional, variadic tuple, fixed pair) plus 3 larger ones; for trees with <= 4 positions all (or 64 sampled) prune x filter subset pairs, otherwise 12 sampled pairs; dfs, bottom-up dfs, bfs, gather (4 class specs), children, position law against an independent recursive reference; distinct = (tree, prune set, filter set)",
            "samples": samples, "failures": failures, "bound": f"trees <= {maxn} nodes"}


def replay(desc, pr_set, fl_set):
    root = M.build(desc)
    nodes = M.ref_nodes(root)[1:]
    pmap = {id(x): p for x, p in zip(nodes, pr_set)}
    fmap = {id(x): f for x, f in zip(nodes, fl_set)}
    prune = lambda c: pmap[id(c)]
    filt = lambda c: fmap[id(c)]
    p_cb = lambda info: pmap[id(info.node)]
    f_cb = lambda info: fmap[id(info.node)]
    bad = []
    if not same(list(root.dfs(prune=p_cb, filter=f_cb)), ref_stream(root, prune, filt)): bad.append("dfs")
    if not same(list(root.dfs(prune=p_cb, filter=f_cb, bottom_up=True)), ref_stream(root, prune, filt, True)): bad.append("dfs bottom_up")
    if not same(list(root.bfs(prune=p_cb, filter=f_cb)), ref_bfs(root, prune, filt)): bad.append("bfs")
    for classes, exact in ((M.RtLeaf, False), (M.RtLeaf, True), ((M.RtSubLeaf, M.RtFalsy), False), ((M.RtList, M.RtUnary), True)):
        cl = classes if isinstance(classes, tuple) else (classes,)
        test = (lambda c: type(c) in cl) if exact else (lambda c: isinstance(c, cl))
        want = [w[0] for w in ref_stream(root, prune, lambda c: test(c) and filt(c))]
        got = list(root.gather(classes, exact_type=exact, extra_filter=f_cb, prune=p_cb))
        if len(got) != len(want) or any(a is not b for a, b in zip(got, want)): bad.append("gather")
    print("disagreeing:", bad)
    return bad
