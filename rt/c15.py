"""Bounded stand-in / witness search for C15 (origin algebra), run natively on the real code.

Exhaustive over a small grid; an independent reference implementation written from the statement
is the oracle.  Labelled bounded in the evidence, never counted as proved."""
from __future__ import annotations

import itertools
from typing import Any


def run(tier: str = "quick", seed: int = 0) -> dict:
    from pyoak.origin import (NO_ORIGIN, CodeOrigin, CodePoint, CodeRange, EntireSourcePosition, GeneratedCodeOrigin,
                              MemoryTextSource, MultiOrigin, NoOrigin, Origin, PositionSet, SourceSet, XMLFileOrigin,
                              XMLPath, concat_origins, get_code_range, merge_origins)

    G = 4 if tier == "quick" else 6
    failures: list[dict] = []
    evals = 0
    nontrivial: set = set()
    samples: list[Any] = []

    def fail(what: str, snippet: str) -> None:
        if len(failures) < 20:
            failures.append({"what": what, "snippet": snippet, "kf": None})

    pre = "from pyoak.origin import *\n"
    # ---- construction --------------------------------------------------------------------------
    for idx, line, col in itertools.product((-1, 0, 2), (0, 1, 3), (-1, 0, 5)):
        evals += 1
        ok = idx >= 0 and line >= 1 and col >= 0
        try:
            CodePoint(idx, line, col)
            built = True
        except ValueError:
            built = False
        if built != ok:
            fail(f"CodePoint({idx},{line},{col}) accepted={built}, well-formed={ok}",
                 pre + f"import sys\ntry:\n    CodePoint({idx},{line},{col}); b=True\nexcept ValueError:\n    b=False\nsys.exit(0 if b == {ok} else 1)")
    pts = [CodePoint(i, 1, i) for i in range(G + 1)]
    ranges = []
    for a, b in itertools.product(range(G + 1), repeat=2):
        evals += 1
        try:
            r = CodeRange(pts[a], pts[b])
            if a > b:
                fail(f"CodeRange({a},{b}) accepted", pre + f"import sys\ntry:\n    CodeRange(CodePoint({a},1,{a}),CodePoint({b},1,{b})); sys.exit(1)\nexcept ValueError:\n    sys.exit(0)")
            ranges.append((a, b, r))
        except ValueError:
            if a <= b:
                fail(f"CodeRange({a},{b}) rejected", pre + f"CodeRange(CodePoint({a},1,{a}),CodePoint({b},1,{b}))")

    def rsn(a: int, b: int) -> str:
        return f"CodeRange(CodePoint({a},1,{a}),CodePoint({b},1,{b}))"

    # ---- pair laws -------------------------------------------------------------------------------
    for (a1, a2, ra), (b1, b2, rb) in itertools.product(ranges, repeat=2):
        evals += 1
        nontrivial.add(("pair", a1, a2, b1, b2))
        A, B = rsn(a1, a2), rsn(b1, b2)
        exp_contains = a1 <= b1 and b2 <= a2
        exp_overlap = a2 >= b1 and a1 <= b2
        if (rb in ra) != exp_contains:
            fail(f"containment {B} in {A} is {rb in ra}, expected {exp_contains}", pre + f"import sys\nsys.exit(0 if (({B}) in ({A})) == {exp_contains} else 1)")
        if ra.overlaps(rb) != exp_overlap or ra.overlaps(rb) != rb.overlaps(ra):
            fail(f"overlaps({A},{B}) = {ra.overlaps(rb)}, reverse {rb.overlaps(ra)}, expected {exp_overlap}",
                 pre + f"import sys\na={A}; b={B}\nsys.exit(0 if a.overlaps(b) == b.overlaps(a) == {exp_overlap} else 1)")
        if (ra < rb) != (a2 < b1) or (ra <= rb) != (a2 <= b1):
            fail(f"ordering of {A}, {B}", pre + f"import sys\na={A}; b={B}\nsys.exit(0 if (a<b)=={a2 < b1} and (a<=b)=={a2 <= b1} else 1)")
        h = ra + rb
        if (h.start.index, h.end.index) != (min(a1, b1), max(a2, b2)) or h != (rb + ra) or not (ra in h and rb in h):
            fail(f"hull of {A}, {B} is {h.fqn}", pre + f"import sys\na={A}; b={B}; h=a+b\nsys.exit(0 if (h.start.index,h.end.index)==({min(a1, b1)},{max(a2, b2)}) and h==b+a and a in h and b in h else 1)")
        if ra + ra != ra:
            fail(f"hull not idempotent on {A}", pre + f"import sys\na={A}\nsys.exit(0 if a+a==a else 1)")
    if tier != "quick" or True:
        rs = ranges if len(ranges) <= 15 else ranges[:: max(1, len(ranges) // 15)]
        for (a1, a2, ra), (b1, b2, rb), (c1, c2, rc) in itertools.product(rs, repeat=3):
            evals += 1
            if (ra + rb) + rc != ra + (rb + rc):
                fail("hull not associative", pre + f"import sys\na={rsn(a1, a2)}; b={rsn(b1, b2)}; c={rsn(c1, c2)}\nsys.exit(0 if (a+b)+c==a+(b+c) else 1)")
            if (rb in ra) and (rc in rb) and not (rc in ra):
                fail("containment not transitive", pre + f"import sys\na={rsn(a1, a2)}; b={rsn(b1, b2)}; c={rsn(c1, c2)}\nsys.exit(1 if (b in a) and (c in b) and not (c in a) else 0)")
    samples.append({"pair": "CodeRange 1-3 vs 2-4", "contains": False, "overlaps": True, "hull": "1-4"})

    # ---- origins ---------------------------------------------------------------------------------
    text = "abcdefghij"
    srcs = [MemoryTextSource(text, source_uri=f"c15-s{i}") for i in range(3)]

    def co(s: int, a: int, b: int) -> Any:
        return CodeOrigin(srcs[s], CodeRange(pts[a], pts[b]))

    code_pool = [(s, a, b) for s in (0, 1) for (a, b, _) in ranges]
    for (s1, a1, a2), (s2, b1, b2) in itertools.product(code_pool, repeat=2):
        evals += 1
        nontrivial.add(("add", s1, a1, a2, s2, b1, b2))
        x, y = co(s1, a1, a2), co(s2, b1, b2)
        r = x + y
        sn = (f"from pyoak.origin import *\nimport sys\nt='{text}'\nsa=MemoryTextSource(t, source_uri='c15-s{s1}'); sb=MemoryTextSource(t, source_uri='c15-s{s2}')\n"
              f"x=CodeOrigin(sa,{rsn(a1, a2)}); y=CodeOrigin(sb,{rsn(b1, b2)}); r=x+y\n")
        if s1 == s2 and a2 >= b1 and a1 <= b2:
            lo, hi = min(a1, b1), max(a2, b2)
            if not (type(r) is CodeOrigin and r.source == srcs[s1] and (r.position.start.index, r.position.end.index) == (lo, hi) and r.get_raw() == text[lo:hi]):
                fail(f"code origin addition s{s1}:{a1}-{a2} + s{s2}:{b1}-{b2} gave {type(r).__name__} {getattr(r, 'fqn', '')}",
                     sn + f"sys.exit(0 if type(r) is CodeOrigin and r.position.fqn=='{lo}-{hi}' and r.get_raw()==t[{lo}:{hi}] else 1)")
        else:
            if not (type(r) is MultiOrigin and list(r.origins) == [x, y]):
                fail(f"code origin addition s{s1}:{a1}-{a2} + s{s2}:{b1}-{b2} should be a flat multi-origin, got {type(r).__name__}",
                     sn + "sys.exit(0 if type(r) is MultiOrigin and list(r.origins)==[x,y] else 1)")

    # ---- merge / concat --------------------------------------------------------------------------
    pool_src = {
        "NO": "NO_ORIGIN",
        "c0a": "CodeOrigin(S[0], get_code_range(0,1,0,2,1,2))",
        "c0b": "CodeOrigin(S[0], get_code_range(2,1,2,4,1,4))",
        "c0c": "CodeOrigin(S[0], get_code_range(6,1,6,7,1,7))",
        "c1a": "CodeOrigin(S[1], get_code_range(1,1,1,3,1,3))",
        "g0": "GeneratedCodeOrigin(S[0])",
        "g2": "GeneratedCodeOrigin(S[2])",
        "x1": "XMLFileOrigin(S[1], XMLPath('/a/b'))",
        "m01": "MultiOrigin(origins=(CodeOrigin(S[0], get_code_range(0,1,0,1,1,1)), XMLFileOrigin(S[1], XMLPath('/q'))))",
        "m00": "MultiOrigin(origins=[CodeOrigin(S[0], get_code_range(8,1,8,9,1,9)), GeneratedCodeOrigin(S[0])])",
    }
    hdr = "from pyoak.origin import *\nimport sys\nS=[MemoryTextSource('abcdefghij', source_uri=f'c15-s{i}') for i in range(3)]\n"
    ns: dict[str, Any] = {}
    exec(hdr, ns)
    pool = {k: eval(v, ns) for k, v in pool_src.items()}

    def flat(os_: list[Any]) -> list[Any]:
        out: list[Any] = []
        for o in os_:
            if isinstance(o, NoOrigin):
                continue
            if isinstance(o, MultiOrigin):
                out.extend(o.origins)
            else:
                out.append(o)
        return out

    def expect_multi(res: Any, members: list[Any]) -> str | None:
        if len(members) == 0:
            return None if res is NO_ORIGIN else "expected NoOrigin"
        if len(members) == 1:
            return None if res is members[0] else "expected the single remaining operand itself"
        if type(res) is not MultiOrigin:
            return f"expected MultiOrigin, got {type(res).__name__}"
        if list(res.origins) != members:
            return "members differ from the non-empty operands in order"
        if any(isinstance(o, (MultiOrigin, NoOrigin)) for o in res.origins):
            return "nested or empty member"
        ss = [o.source for o in members]
        if all(s == ss[0] for s in ss):
            if res.source != ss[0]:
                return "source should be the common source"
            sfqn = ss[0].fqn
        else:
            if not (type(res.source) is SourceSet and list(res.source.sources) == ss):
                return "source should be the source set in operand order"
            sfqn = "SourceSet(" + "||".join(s.fqn for s in ss) + ")"
        if not (type(res.position) is PositionSet and list(res.position.positions) == [o.position for o in members]):
            return "position set differs"
        pf = "PositionSet(" + "||".join(o.position.fqn for o in members) + ")"
        if res.fqn != f"{sfqn}::{pf}":
            return f"fqn {res.fqn!r} does not compose the members' fqns"
        return None

    maxn = 3 if tier == "quick" else 4
    keys = list(pool)
    for n in range(1, maxn + 1):
        for combo in itertools.product(keys, repeat=n):
            evals += 1
            nontrivial.add(("merge",) + combo)
            ops = [pool[k] for k in combo]
            res = merge_origins(*ops)
            members = flat(ops) if n > 1 else None
            err = None
            if n == 1:
                err = None if res is ops[0] else "single operand must be returned itself"
            else:
                err = expect_multi(res, members)  # type: ignore[arg-type]
            if err:
                fail(f"merge_origins({', '.join(combo)}): {err}",
                     hdr + "P={" + ",".join(f"'{k}':{v}" for k, v in pool_src.items()) + "}\n" + f"r=merge_origins(*[P[k] for k in {list(combo)!r}])\nprint(r)\nsys.exit(1)")
            # concat = fold of +
            acc = ops[0]
            for o in ops[1:]:
                acc = acc + o
            cr = concat_origins(*ops)
            if cr != acc and not (cr is acc):
                fail(f"concat_origins({', '.join(combo)}) differs from the fold of +", hdr + "sys.exit(1)")
            # the fold itself: every result is flat
            if isinstance(acc, MultiOrigin) and any(isinstance(o, (MultiOrigin, NoOrigin)) for o in acc.origins):
                fail(f"fold of + over ({', '.join(combo)}) is not flat", hdr + "sys.exit(1)")
    samples.append({"merge": ["c0a", "NO", "m01"], "expected_members": 3})
    for s in srcs:
        pass
    return {"evaluations": evals, "distinct_nontrivial": len(nontrivial),
            "rule": f"exhaustive: all CodeRange pairs (and sampled triples) on index grid 0..{G}; all CodeOrigin pairs over 2 sources; all tuples of <= {maxn} origins from a pool of {len(pool)} covering every origin kind over 3 sources; distinct = distinct operand tuples",
            "samples": samples, "failures": failures, "exhaustive": True, "bound": f"grid {G}, tuples <= {maxn}"}
