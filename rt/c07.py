"""Bounded stand-in for C07: findall == {n | match(root, n)} == the documented path semantics."""
from __future__ import annotations

import itertools
import random
from typing import Any

from pyoak.match.xpath import ASTXpath
from pyoak.node import ASTNode
from pyoak.tree import Tree

from . import models as M

CLASSES = {"RtLeaf": M.RtLeaf, "RtSubLeaf": M.RtSubLeaf, "RtFalsy": M.RtFalsy, "RtUnary": M.RtUnary, "RtList": M.RtList, "ASTNode": ASTNode}


def render(steps) -> str:
    return "".join(("//" if anyw else "/") + (f"@{f}" if f else "") + (f"[{i}]" if i is not None else "") + ((" " if f and i is None else "") + c if c else "")
                   for anyw, f, i, c in steps)


def reference(root: ASTNode, steps) -> list[ASTNode]:
    """Top-down evaluation written from the documented meaning."""
    # virtual root: its only child is the real root, which has no field and no index
    def children(n):
        if n is None:
            return [(root, None, None)]
        return [(c, f, i) for c, f, i in M.ref_children(n)]

    def descendants(n):
        out = []
        for c, f, i in children(n):
            out.append((c, f, i))
            out.extend(descendants(c))
        return out

    cur: list[Any] = [None]
    for anyw, f, idx, cname in steps:
        nxt: list[Any] = []
        seen: set[int] = set()
        for n in cur:
            for c, cf, ci in (descendants(n) if anyw else children(n)):
                if cname is not None and not isinstance(c, CLASSES[cname]):
                    continue
                if f is not None and cf != f:
                    continue
                if idx is not None and ci != idx:
                    continue
                if id(c) not in seen:
                    seen.add(id(c))
                    nxt.append(c)
        cur = nxt
    return cur


def gen_paths(rnd: random.Random, n: int):
    fields = [None, "child", "opt", "items", "pair"]
    idxs = [None, 0, 1, 2, 11, 12]
    clss = [None, "RtLeaf", "RtSubLeaf", "RtFalsy", "RtUnary", "RtList", "ASTNode"]
    out = []
    # all single steps
    for anyw, f, i, c in itertools.product([False, True], fields, idxs, clss[1:]):
        out.append([(anyw, f, i, c)])
    while len(out) < n:
        k = rnd.choice([2, 2, 3, 4])
        steps = []
        for j in range(k):
            last = j == k - 1
            f, i = rnd.choice(fields), rnd.choice(idxs)
            c = rnd.choice(clss[1:] if last else clss)
            if not last and f is None and i is None and c is None:
                c = "ASTNode"
            steps.append((rnd.random() < 0.4, f, i, c))
        out.append(steps)
    return out


def run(tier: str = "quick", seed: int = 0) -> dict:
    rnd = random.Random(seed)
    failures: list[dict] = []
    evals = 0
    distinct: set = set()
    samples: list[Any] = []

    def fail(what, path, desc):
        if len(failures) < 10:
            failures.append({"what": what, "kf": None,
                             "snippet": f"import rt.c07 as c, sys\nsys.exit(1 if c.replay({path!r}, {desc!r}) else 0)"})

    trees = [("U", ("T", (("L", 0), ("S", 1), ("F", 0), ("U", ("L", 2), ("S", 3)))), ("U", ("L", 1), None)),
             ("T", tuple(("L", i) if i % 3 else ("U", ("L", i), None) for i in range(13))),
             ("U", ("U", ("U", ("L", 0), ("L", 1)), None), ("T", (("U", ("L", 0), None), ("U", ("L", 0), None)))),
             ("L", 0), ("X", ("L", 0), ("L", 1)),
             # same-id twins inside one tree: a detached subtree and an equal one built afterwards
             ("T", (("D", ("U", ("L", 0), None)), ("U", ("L", 0), None), ("D", ("L", 0)), ("L", 0)))]
    paths = gen_paths(rnd, 700 if tier == "quick" else 4000)
    built = [(d, M.build(d)) for d in trees]
    for steps in paths:
        text = render(steps)
        try:
            xp = ASTXpath(text)
        except Exception as e:
            fail(f"grammar-generated xpath {text!r} rejected: {type(e).__name__}", text, trees[0])
            continue
        for desc, root in built:
            evals += 1
            distinct.add((text, str(desc)[:30]))
            nodes = M.ref_nodes(root)
            want = reference(root, steps)
            try:
                found = list(xp.findall(root))
            except Exception as e:
                fail(f"findall({text!r}) raised {type(e).__name__}: {e}", text, desc)
                continue
            if len({id(n) for n in found}) != len(found):
                fail(f"findall({text!r}) yields a node twice on {desc}", text, desc)
            if {id(n) for n in found} != {id(n) for n in want}:
                fail(f"findall({text!r}) on {desc}: {len(found)} nodes, documented semantics gives {len(want)}", text, desc)
            t = Tree(root)
            for n in nodes:
                try:
                    m = xp.match(t, n)
                except Exception as e:
                    fail(f"match({text!r}) raised {type(e).__name__}: {e}", text, desc)
                    break
                if m != any(n is w for w in want):
                    fail(f"match({text!r}, {type(n).__name__}) = {m} on {desc}, documented semantics says {not m}; findall contains it: {any(n is f for f in found)}", text, desc)
                    break
            f1 = root.find(text)
            if (f1 is None) != (not found) or (found and f1 is not found[0]):
                fail(f"find({text!r}) is not the first node findall yields", text, desc)
            if [id(x) for x in root.findall(xp)] != [id(x) for x in found]:
                fail(f"node.findall differs from ASTXpath.findall for {text!r}", text, desc)
            # match through a root node instead of a Tree, and on a sub-tree used as its own root
            if nodes and xp.match(root, nodes[-1]) != any(nodes[-1] is w for w in want):
                fail(f"match(root, node) with a root node differs for {text!r}", text, desc)
        if len(samples) < 4:
            samples.append({"xpath": text, "steps": len(steps)})
    # a relative path (no leading '/') is '//' + path
    for desc, root in built[:2]:
        for text in ("RtLeaf", "@items RtLeaf", "@items[12]RtLeaf", "RtUnary/@child RtLeaf"):
            evals += 1
            a, b = list(ASTXpath(text).findall(root)), list(ASTXpath("//" + text).findall(root))
            if [id(x) for x in a] != [id(x) for x in b]:
                fail(f"relative path {text!r} differs from '//' + path", text, desc)
    # same xpath object, same node object, two different trees (sub-tree as its own root)
    for desc, root in built[:3]:
        for sub in [n for n in M.ref_nodes(root)[1:] if M.ref_children(n)][:3]:
            for text in ("/RtUnary", "/RtList", "//@child RtLeaf", "/RtUnary/@child RtLeaf", "//RtUnary"):
                evals += 1
                xp = ASTXpath(text)
                r1 = [xp.match(root, n) for n in M.ref_nodes(sub)]
                r2 = [xp.match(sub, n) for n in M.ref_nodes(sub)]
                w2 = [any(n is w for w in reference(sub, parse_steps(text))) for n in M.ref_nodes(sub)]
                if r2 != w2:
                    fail(f"match({text!r}) on a sub-tree used as root after matching in the enclosing tree: {r2}, expected {w2}", text, desc)
    # tree_consistent, the hypothesis of the agreement lemmas (contracts.xpath_agree), checked natively on every tree: the downward enumerations list
    # exactly the recorded positions whose parent / some ancestor is the node; root unique; chains empty exactly for the root
    for desc, root in built:
        evals += 1
        problems = tree_consistent_problems(root)
        if problems:
            fail(f"tree_consistent does not hold on {desc}: {problems[:3]}", "/RtLeaf", desc)
    for _, root in built:
        M.detach_all(root)
    return {"evaluations": evals, "distinct_nontrivial": len(distinct),
            "rule": f"{len(paths)} xpaths from the grammar (all single steps over anywhere x field x index x class incl. indices 11/12 and the field name 'child'; seeded 2-4 step paths) x 5 trees (13-tuple, subclass hierarchy, content-identical twins under equal parents); every node as match() argument; oracle = top-down evaluation of the documented semantics; the hypothesis tree_consistent of the agreement lemmas checked clause by clause on every tree; distinct = (xpath, tree)",
            "samples": samples, "failures": failures, "bound": "1-4 steps, 5 trees"}


def tree_consistent_problems(root) -> list[str]:
    """The clauses of tree_consistent (hypothesis of contracts.xpath_agree) on one built tree; [] when they hold or the tree is outside the hypothesis."""
    t = Tree(root)
    nodes = M.ref_nodes(root)
    if len({id(n) for n in nodes}) != len(nodes):
        return []                    # a node at two positions: outside the hypothesis (and outside C07's trees)
    rec = {id(n): t.get_parent_info(n) for n in nodes}
    key = lambda n: (id(n), id(rec[id(n)][0]), rec[id(n)][1].name if rec[id(n)][1] is not None else None, rec[id(n)][2])
    problems = []
    for w in nodes:
        kids = [(id(c), id(w), f.name, i) for c, f, i in w.get_child_nodes_with_field()]
        if sorted(kids, key=str) != sorted((key(n) for n in nodes if rec[id(n)][0] is w), key=str):
            problems.append(f"children of {type(w).__name__}")
        below = [(id(i.node), id(i.parent), i.field.name, i.findex) for i in w.dfs()]
        if sorted(below, key=str) != sorted((key(n) for n in nodes if any(a is w for a in t.get_ancestors(n))), key=str):
            problems.append(f"descendants of {type(w).__name__}")
        if (rec[id(w)][0] is None) != (w is root) or (len(list(t.get_ancestors(w))) == 0) != (w is root):
            problems.append("root / empty chain")
        if any(not t.is_in_tree(a) for a in t.get_ancestors(w)):
            problems.append("chain member outside the tree")
    if sorted((id(i.node) for i in root.dfs()), key=str) != sorted((id(n) for n in nodes if n is not root), key=str):
        problems.append("stream of the root")
    return problems


def parse_steps(text: str):
    import re
    steps = []
    for sep, f, i, c in re.findall(r"(//|/)(?:@(\w+))?\s*(?:\[(\d+)\])?\s*(\w+)?", text):
        steps.append((sep == "//", f or None, int(i) if i else None, c or None))
    return steps


def replay(text: str, desc: Any):
    root = M.build(desc)
    steps = parse_steps(text if text.startswith("/") else "//" + text)
    xp = ASTXpath(text)
    want = reference(root, steps)
    found = list(xp.findall(root))
    t = Tree(root)
    bad = {id(n) for n in found} != {id(n) for n in want} or len(found) != len({id(n) for n in found})
    for n in M.ref_nodes(root):
        if xp.match(t, n) != any(n is w for w in want):
            bad = True
    print("xpath", text, "found", len(found), "expected", len(want), "disagree" if bad else "agree")
    return bad
