"""Bounded stand-in for C10: no operation modifies a pre-existing node (fields, id, content_id, hash,
registry membership except as specified for detach / replace)."""
from __future__ import annotations

import dataclasses
import io
import itertools
from dataclasses import dataclass, field
from typing import Any

from pyoak.match.pattern import MultiPatternMatcher, NodeMatcher
from pyoak.match.xpath import ASTXpath
from pyoak.node import ASTNode
from pyoak.tree import Tree
from pyoak.visitor import ASTTransformVisitor, ASTVisitor

from . import models as M


@dataclass(frozen=True)
class RtPicky(ASTNode):
    v: int = 0
    boom: bool = field(default=False, compare=False)

    def __post_init__(self) -> None:
        super().__post_init__()
        if self.boom:
            raise ValueError("picky")


def snapshot(nodes: list[ASTNode]) -> list[tuple]:
    out = []
    for n in nodes:
        vals = tuple((f.name, id(object.__getattribute__(n, f.name)) if isinstance(object.__getattribute__(n, f.name), (ASTNode, tuple)) else repr(object.__getattribute__(n, f.name)))
                     for f in dataclasses.fields(n))
        tup = tuple(tuple(id(x) for x in object.__getattribute__(n, f.name)) for f in dataclasses.fields(n) if isinstance(object.__getattribute__(n, f.name), tuple))
        out.append((vals, tup, n.id, n.content_id, hash(n), ASTNode.get_any(n.id) is n))
    return out


class Incr(ASTTransformVisitor):
    def visit_RtLeaf(self, node):
        return node.replace(v=node.v + 1) if node.v % 2 == 0 else node


class IncrDC(ASTTransformVisitor):
    def visit_RtLeaf(self, node):
        return dataclasses.replace(node, v=node.v + 10)


class Remove(ASTTransformVisitor):
    def visit_RtLeaf(self, node):
        return None if node.v == 1 else node


class Boom(ASTTransformVisitor):
    def visit_RtFalsy(self, node):
        raise RuntimeError("visitor failure")

    def visit_RtLeaf(self, node):
        return dataclasses.replace(node, v=node.v + 5)


class Count(ASTVisitor[int]):
    def generic_visit(self, node):
        return 1 + sum(self.visit(c) for c in node.get_child_nodes())


def operations(root: ASTNode, nodes: list[ASTNode]) -> list[tuple[str, Any, set[int]]]:
    """(name, thunk, ids of nodes whose registry membership may change)"""
    t = Tree(root)
    last = nodes[-1]
    ops: list[tuple[str, Any, set[int]]] = [
        ("dfs/bfs/gather/children", lambda: (list(root.dfs()), list(root.dfs(bottom_up=True)), list(root.bfs()), list(root.gather(ASTNode)), root.children), set()),
        ("accessors", lambda: (list(root.get_properties(skip_id=False, skip_origin=False, skip_content_id=False)), list(root.iter_child_fields()), root.to_properties_dict()), set()),
        ("tree queries", lambda: [(t.get_parent(n), t.get_depth(n), list(t.get_ancestors(n)), t.get_xpath(n), t.is_in_tree(n)) for n in nodes], set()),
        ("xpath", lambda: (list(root.findall("//RtLeaf")), root.find("//RtFalsy"), [ASTXpath("//RtLeaf").match(root, n) for n in nodes]), set()),
        ("pattern", lambda: (NodeMatcher.from_pattern("(* @v -> x)")[0].match(last), MultiPatternMatcher([("a", "(RtUnary @child=(*) -> c)"), ("b", "(RtList @items=[* -> r])")]).match(root)), set()),
        ("visit", lambda: Count().visit(root), set()),
        ("transform replace-method", lambda: Incr().transform(root), {id(n) for n in nodes if isinstance(n, M.RtLeaf) and n.v % 2 == 0}),
        ("transform dataclasses.replace", lambda: IncrDC().transform(root), set()),
        ("transform remove", lambda: Remove().transform(root), set()),
        ("transform raising", lambda: _swallow(lambda: Boom().transform(root)), set()),
        ("duplicate", lambda: root.duplicate(), set()),
        ("eq/hash/is_equal", lambda: (root == root.duplicate(), hash(root), root.is_equal(last), root != last), set()),
        ("serialize", lambda: (root.as_dict(), root.to_json(), root.to_msgpck(), root.to_yaml()), set()),
        ("roundtrip", lambda: type(root).as_obj(root.as_dict()), set()),
        ("rich", lambda: root.__rich__(), set()),
        ("dataclasses.replace", lambda: dataclasses.replace(last), set()),
        ("failing replace", lambda: _swallow(lambda: last.replace(id="x")), set()),
        ("replace", lambda: last.replace(), {id(last)}),
        ("detach_self", lambda: last.detach_self(), {id(last)}),
        ("detach", lambda: root.detach(), {id(n) for n in nodes}),
    ]
    return ops


def _swallow(f):
    try:
        return f()
    except Exception:
        return None


def run(tier: str = "quick", seed: int = 0) -> dict:
    failures: list[dict] = []
    evals = 0
    distinct: set = set()
    samples: list[Any] = []
    maxn = 4 if tier == "quick" else 5
    descs = [d for d in M.all_descs(maxn)]
    if tier == "quick":
        descs = descs[::4]
    descs += [("U", ("T", (("L", 0), ("F", 0), ("L", 1))), ("U", ("S", 2), ("L", 1)))]
    pool = M.origin_pool()

    def fail(what):
        if len(failures) < 10:
            failures.append({"what": what, "kf": None, "snippet": "import rt.c10 as c, sys\nr = c.run()\nprint(r['failures'][:3])\nsys.exit(1 if r['failures'] else 0)"})

    for desc in descs:
        root = M.build(desc, lambda p: pool[len(p) % len(pool)])
        nodes = M.ref_nodes(root)
        keep: list[Any] = []
        for name, thunk, may_unreg in operations(root, nodes):
            evals += 1
            distinct.add((str(desc), name))
            before = snapshot(nodes)
            try:
                keep.append(thunk())
            except Exception as e:
                fail(f"operation {name} on {desc} raised {type(e).__name__}: {e}")
                continue
            after = snapshot(nodes)
            for n, b, a in zip(nodes, before, after):
                if b[:5] != a[:5]:
                    fail(f"{name} on {desc}: a pre-existing {type(n).__name__} changed (fields/id/content_id/hash)")
                if b[5] != a[5] and id(n) not in may_unreg:
                    fail(f"{name} on {desc}: registry membership of a pre-existing {type(n).__name__} changed {b[5]} -> {a[5]}")
        # assignment / deletion raise
        n0 = nodes[-1]
        for f in dataclasses.fields(n0):
            evals += 1
            try:
                setattr(n0, f.name, getattr(n0, f.name))
                fail(f"assigning {type(n0).__name__}.{f.name} did not raise")
            except (dataclasses.FrozenInstanceError, AttributeError, TypeError):
                pass
            try:
                delattr(n0, f.name)
                fail(f"deleting {type(n0).__name__}.{f.name} did not raise")
            except (dataclasses.FrozenInstanceError, AttributeError, TypeError):
                pass
        if len(samples) < 3:
            samples.append({"tree": str(desc), "operations": [o[0] for o in operations(root, nodes)][:6]})
        M.detach_all(root)
        del keep
    # a replace() that fails after the new node was built (subclass __post_init__ raising last)
    for twin in (False, True):
        evals += 1
        p = RtPicky(3)
        other = RtPicky(3) if twin else None
        before = snapshot([p])
        try:
            p.replace(boom=True)
        except ValueError:
            pass
        import gc
        gc.collect()
        if snapshot([p]) != before:
            fail(f"failing replace (subclass __post_init__ raises after registration, twin={twin}) changed the original: {before} -> {snapshot([p])}")
        p.detach_self()
        if other is not None:
            other.detach_self()
    return {"evaluations": evals, "distinct_nontrivial": len(distinct),
            "rule": f"model trees <= {maxn} nodes (every 4th in quick tier) x 20 public operations (traversal, accessors, Tree queries, xpath, patterns, visiting, 4 transformers incl. raising, duplicate, comparison, 4 serializers, round trip, pretty print, replace ok/failing, detach_self, detach); before/after snapshot of every field (identity of child objects), id, content_id, hash and registry membership of every pre-existing node; distinct = (tree, operation)",
            "samples": samples, "failures": failures, "bound": f"trees <= {maxn} nodes, single operations"}
