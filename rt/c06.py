"""Bounded stand-in for C06: Tree's upward queries vs the downward structure (independent walk)."""
from __future__ import annotations

import itertools
from typing import Any

from pyoak.node import ASTNode
from pyoak.tree import Tree

from . import models as M


def ref_tables(root: ASTNode):
    parent: dict[int, tuple[ASTNode, str, int | None] | None] = {id(root): None}
    for c, p, f, i in M.ref_preorder(root):
        parent[id(c)] = (p, f, i)
    return parent


def chain(parent, n: ASTNode) -> list[ASTNode]:
    out = []
    cur = parent[id(n)]
    while cur is not None:
        out.append(cur[0])
        cur = parent[id(cur[0])]
    return out


def follow(root: ASTNode, xpath: str) -> ASTNode | None:
    """Follows '/@field[index]Class' segments from the root (the first segment names the root)."""
    import re
    segs = re.findall(r"/@(\w+)\[(\d+)\](\w+)", xpath)
    if "".join(f"/@{a}[{b}]{c}" for a, b, c in segs) != xpath or not segs or segs[0][0] != "root":
        return None
    cur = root
    if type(cur).__name__ != segs[0][2]:
        return None
    for fname, idx, cls in segs[1:]:
        v = getattr(cur, fname, None)
        if isinstance(v, tuple):
            if int(idx) >= len(v):
                return None
            v = v[int(idx)]
        elif int(idx) != 0:
            return None
        if v is None or type(v).__name__ != cls:
            return None
        cur = v
    return cur


def run(tier: str = "quick", seed: int = 0) -> dict:
    failures: list[dict] = []
    evals = 0
    distinct: set = set()
    samples: list[Any] = []
    maxn = 4 if tier == "quick" else 5

    def fail(what):
        if len(failures) < 10:
            failures.append({"what": what, "kf": None, "snippet": "import rt.c06 as c, sys\nr = c.run()\nfor f in r['failures'][:5]: print(f['what'])\nsys.exit(1 if r['failures'] else 0)"})

    descs = M.all_descs(maxn)
    if tier == "quick":
        descs = descs[::2]
    # content-identical twins at different positions, deeper chains
    descs += [("T", (("U", ("U", ("L", 0), None), None), ("U", ("U", ("L", 0), None), None))), ("U", ("U", ("U", ("U", ("L", 1), None), None), ("L", 1)), ("L", 1)),
              ("T", tuple(("L", 0) for _ in range(12))),
              # same-id twins inside one tree (a detached subtree and an equal one built afterwards), and a detached tree as a whole
              ("T", (("D", ("U", ("L", 0), None)), ("U", ("L", 0), None), ("D", ("L", 0)), ("L", 0))),
              ("D", ("U", ("U", ("L", 2), None), ("L", 2)))]
    for desc in descs:
        root = M.build(desc)
        nodes = M.ref_nodes(root)
        parent = ref_tables(root)
        t = Tree(root)
        distinct.add(str(desc))
        # the hypothesis of C07's agreement lemmas (tree_consistent), clause by clause, on every enumerated tree
        from . import c07 as _c07
        tc = _c07.tree_consistent_problems(root)
        if tc:
            fail(f"{desc}: the tree's tables do not agree with the downward enumerations: {tc[:3]}")
        xps = {}
        for n in nodes:
            evals += 1
            exp = parent[id(n)]
            ch = chain(parent, n)
            try:
                if not t.is_in_tree(n):
                    fail(f"{desc}: member not in tree")
                if t.is_root(n) != (n is root):
                    fail(f"{desc}: is_root")
                gp = t.get_parent(n)
                gi = t.get_parent_info(n)
                if exp is None:
                    if gp is not None or tuple(gi) != (None, None, None):
                        fail(f"{desc}: root parent info {gi}")
                else:
                    if gp is not exp[0] or gi[0] is not exp[0] or gi[1].name != exp[1] or gi[2] != exp[2]:
                        fail(f"{desc}: parent info of a {type(n).__name__}: got ({type(gi[0]).__name__}, {gi[1].name}, {gi[2]}), stored under ({type(exp[0]).__name__}, {exp[1]}, {exp[2]})")
                anc = list(t.get_ancestors(n))
                if len(anc) != len(ch) or any(a is not b for a, b in zip(anc, ch)):
                    fail(f"{desc}: get_ancestors differs from the parent chain")
                if t.get_depth(n) != len(ch):
                    fail(f"{desc}: get_depth {t.get_depth(n)} != {len(ch)}")
                for cls, exact in ((M.RtUnary, False), (M.RtList, True), (ASTNode, False), ((M.RtUnary, M.RtList), True), (M.RtLeaf, False)):
                    cl = cls if isinstance(cls, tuple) else (cls,)
                    want = next((a for a in ch if (type(a) in cl if exact else isinstance(a, cl))), None)
                    if t.get_first_ancestor_of_type(n, cls, exact_type=exact) is not want:
                        fail(f"{desc}: get_first_ancestor_of_type({cls}, exact={exact})")
                xp = t.get_xpath(n)
                if follow(root, xp) is not n:
                    fail(f"{desc}: following get_xpath {xp!r} from the root does not reach the node")
                if xp in xps:
                    fail(f"{desc}: two nodes share the xpath {xp!r}")
                xps[xp] = n
            except Exception as e:
                fail(f"{desc}: query on a member raised {type(e).__name__}: {e}")
        for a, b in itertools.product(nodes, repeat=2):
            evals += 1
            is_anc = any(x is b for x in chain(parent, a))
            try:
                if t.is_ancestor(a, b) != is_anc:
                    fail(f"{desc}: is_ancestor({type(a).__name__}, {type(b).__name__}) = {t.is_ancestor(a, b)}, chain says {is_anc}")
                if is_anc:
                    want = [x for x in chain(parent, a)].index(next(x for x in chain(parent, a) if x is b)) + 1
                    if t.get_depth(a, relative_to=b) != want:
                        fail(f"{desc}: relative depth {t.get_depth(a, relative_to=b)} != {want}")
                    if t.get_depth(a) != len(chain(parent, a)):
                        fail(f"{desc}: absolute depth after a relative query is {t.get_depth(a)}")
                else:
                    try:
                        t.get_depth(a, relative_to=b)
                        fail(f"{desc}: relative depth to a non-ancestor did not raise ValueError")
                    except ValueError:
                        pass
            except Exception as e:
                fail(f"{desc}: binary query raised {type(e).__name__}: {e}")
        # foreign nodes: content-identical to members but registered under another id
        for n in nodes[:3]:
            evals += 1
            foreign = n.duplicate()
            try:
                if t.is_in_tree(foreign):
                    fail(f"{desc}: a foreign duplicate of a member is reported in the tree")
                for q in (t.get_parent, t.get_parent_info, t.get_xpath, lambda x: list(t.get_ancestors(x)), t.get_depth):
                    try:
                        if foreign is not root:
                            q(foreign)
                            fail(f"{desc}: query about a foreign node did not raise KeyError")
                    except KeyError:
                        pass
                if any(t.is_ancestor(m, foreign) for m in nodes):
                    fail(f"{desc}: a foreign duplicate counts as an ancestor")
            except Exception as e:
                fail(f"{desc}: foreign query raised {type(e).__name__}: {e}")
            foreign.detach()
        if len(samples) < 3:
            samples.append({"tree": str(desc), "nodes": len(nodes)})
        M.detach_all(root)
    return {"evaluations": evals, "distinct_nontrivial": len(distinct),
            "rule": f"model trees <= {maxn} nodes (every 2nd in quick tier) plus twins-at-different-positions, same-id twins (detached + re-created) inside one tree, a depth-4 chain and a 12-tuple; every node as argument of every unary query, every pair for is_ancestor / relative depth (followed by an absolute depth query), registered foreign duplicates of members; oracle = independent parent table from a recursive walk; on every tree also the clauses of tree_consistent (children / descendants of every member == the recorded positions with that parent / ancestor; root unique; chains); distinct = tree",
            "samples": samples, "failures": failures, "bound": f"trees <= {maxn} nodes"}
