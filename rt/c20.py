"""Bounded stand-in for C20: legacy traversal, legacy xpath matching, calculate_xpath."""
from __future__ import annotations

import itertools
import random
from typing import Any

from . import c07
from . import lmodels as L
from pyoak.legacy.match.xpath import ASTXpath as LegacyXpath

CLS = {"RtLeaf": "LgLeaf", "RtSubLeaf": "LgSub", "RtFalsy": "LgSub", "RtUnary": "LgUnary", "RtList": "LgList", "ASTNode": "AwareASTNode"}
PYCLS = {"LgLeaf": L.LgLeaf, "LgSub": L.LgSub, "LgUnary": L.LgUnary, "LgList": L.LgList, "AwareASTNode": L.AwareASTNode}


def ref_order(n, prune, filt, bottom_up, order):
    """pre-order / post-order stream of the subtree rooted at n, n included and offered to both callbacks"""
    mine = [n] if filt(n) else []
    below = []
    if not prune(n):
        for c, _, _ in L.ref_children(n):
            below += ref_order(c, prune, filt, bottom_up, order)
    return below + mine if bottom_up else mine + below


def ref_dfs(start, prune, filt, bottom_up, skip_self):
    if not skip_self:
        return ref_order(start, prune, filt, bottom_up, None)
    out = []
    for c, _, _ in L.ref_children(start):  # a skipped start node is offered to neither callback
        out += ref_order(c, prune, filt, bottom_up, None)
    return out


def ref_bfs(start, prune, filt, skip_self):
    out, level = [], [start]
    first = True
    while level:
        nxt = []
        for n in level:
            if first and skip_self:
                nxt += [c for c, _, _ in L.ref_children(n)]
                continue
            if filt(n):
                out.append(n)
            if not prune(n):
                nxt += [c for c, _, _ in L.ref_children(n)]
        first = False
        level = nxt
    return out


def xref(root, steps):
    def children(n):
        if n is None:
            return [(root, None, None)]
        return L.ref_children(n)

    def desc(n):
        out = []
        for c, f, i in children(n):
            out.append((c, f, i))
            out += desc(c)
        return out
    cur = [None]
    for anyw, f, idx, cname in steps:
        nxt, seen = [], set()
        for n in cur:
            for c, cf, ci in (desc(n) if anyw else children(n)):
                if cname is not None and not isinstance(c, PYCLS[cname]):
                    continue
                if f is not None and cf != f:
                    continue
                if idx is not None and ci != idx:
                    continue
                if id(c) not in seen:
                    seen.add(id(c))
                    nxt.append(c)
        cur = nxt
    return cur


def run(tier: str = "quick", seed: int = 0) -> dict:
    rnd = random.Random(seed)
    failures: list[dict] = []
    evals = 0
    distinct: set = set()
    samples: list[Any] = []

    def fail(what):
        if len(failures) < 10:
            failures.append({"what": what, "kf": None, "snippet": f"import rt.c20 as c, sys\nr = c.run(seed={seed})\nfor f in r['failures'][:5]: print(f['what'])\nsys.exit(1 if r['failures'] else 0)"})

    trees = [("U", ("T", (("L", 0), ("S", 1), ("U", ("L", 2), ("S", 3))), (("L", 4),)), ("U", ("L", 1), None)),
             ("T", tuple(("L", i) if i % 3 else ("U", ("L", i), None) for i in range(13)), (("L", 0), ("S", 1))),
             ("U", ("U", ("U", ("L", 0), ("L", 1)), None), ("T", (("U", ("L", 0), None), ("U", ("L", 0), None)))),
             ("L", 0), ("T", (), ())]
    for desc in trees:
        L.clear_registry()
        root = L.build(desc)
        nodes = L.ref_nodes(root)
        n = len(nodes)
        starts = [root] + [x for x in nodes[1:] if L.ref_children(x)][:2]
        for start in starts:
            sub = L.ref_nodes(start)
            for _ in range(40 if tier == "quick" else 300):
                pr = {id(x): rnd.random() < 0.3 for x in sub}
                fl = {id(x): rnd.random() < 0.7 for x in sub}
                if rnd.random() < 0.3:
                    pr[id(start)] = True
                prune, filt = (lambda x: pr[id(x)]), (lambda x: fl[id(x)])
                for skip in (False, True):
                    evals += 1
                    distinct.add((str(desc)[:40], tuple(pr.values()), tuple(fl.values()), skip))
                    for bu in (False, True):
                        got = list(start.dfs(prune=prune, filter=filt, bottom_up=bu, skip_self=skip))
                        want = ref_dfs(start, prune, filt, bu, skip)
                        if len(got) != len(want) or any(a is not b for a, b in zip(got, want)):
                            fail(f"legacy dfs(bottom_up={bu}, skip_self={skip}) on {desc!r:.80} prune(start)={pr[id(start)]}: got {[type(x).__name__ + str(getattr(x, 'v', '')) for x in got]}, want {[type(x).__name__ + str(getattr(x, 'v', '')) for x in want]}")
                    got = list(start.bfs(prune=prune, filter=filt, skip_self=skip))
                    want = ref_bfs(start, prune, filt, skip)
                    if len(got) != len(want) or any(a is not b for a, b in zip(got, want)):
                        fail(f"legacy bfs(skip_self={skip}) on {desc!r:.80}")
                    for cls, exact in ((L.LgLeaf, False), (L.LgLeaf, True), ((L.LgUnary, L.LgList), False)):
                        cl = cls if isinstance(cls, tuple) else (cls,)
                        test = (lambda x: type(x) in cl) if exact else (lambda x: isinstance(x, cl))
                        got = list(start.gather(cls, exact_type=exact, extra_filter=filt, prune=prune, skip_self=skip))
                        want = ref_dfs(start, prune, lambda x: test(x) and filt(x), False, skip)
                        if len(got) != len(want) or any(a is not b for a, b in zip(got, want)):
                            fail(f"legacy gather({cls}, exact={exact}, skip_self={skip}) on {desc!r:.80}")
        # calculate_xpath: every node of an attached root gets the path spelled by its chain
        evals += 1
        if root.calculate_xpath() is not True:
            fail(f"calculate_xpath returned False on an attached root {desc!r:.60}")

        def expect_paths(n, path):
            out = {id(n): path}
            for c, f, i in L.ref_children(n):
                out.update(expect_paths(c, f"{path}/@{f}[{i or '0'}]{type(c).__name__}"))
            return out
        exp = expect_paths(root, f"/@root[0]{type(root).__name__}")
        for x in nodes:
            if x.xpath != exp[id(x)]:
                fail(f"calculate_xpath: {type(x).__name__} has xpath {x.xpath!r}, chain spells {exp[id(x)]!r}")
        # ... also after the tree changed below nodes whose own path stays the same (a second calculation must reach what was spliced in)
        leaves = [x for x in nodes if x is not root and not L.ref_children(x)]
        if leaves:
            evals += 1
            try:
                leaves[0].replace_with(L.build(("U", ("L", 901), ("T", (("L", 902),), (("S", 903),)))))
                root.calculate_xpath()
                exp = expect_paths(root, f"/@root[0]{type(root).__name__}")
                for x in L.ref_nodes(root):
                    if x.xpath != exp[id(x)]:
                        fail(f"calculate_xpath after a replace_with below: {type(x).__name__} has xpath {x.xpath!r}, chain spells {exp[id(x)]!r}")
                        break
            except Exception as e:
                fail(f"calculate_xpath after replace_with on {desc!r:.60} raised {type(e).__name__}: {e!s:.80}")
        if len(samples) < 3:
            samples.append({"tree": str(desc)[:100], "starts": len(starts)})
    # legacy xpath matching against the documented semantics
    paths = c07.gen_paths(rnd, 500 if tier == "quick" else 3000)
    built = []
    L.clear_registry()
    for desc in trees[:4]:
        built.append((desc, L.build(desc)))
    for steps in paths:
        lsteps = [(a, ("child" if f == "child" else "opt" if f == "opt" else "items" if f == "items" else "elems" if f == "pair" else None) if f else None, i, CLS[c] if c else None) for a, f, i, c in steps]
        text = c07.render(lsteps)
        try:
            xp = LegacyXpath(text)
        except Exception as e:
            fail(f"legacy xpath {text!r} rejected: {type(e).__name__}: {e!s:.80}")
            continue
        for desc, root in built:
            evals += 1
            distinct.add((text, str(desc)[:30]))
            want = xref(root, lsteps)
            for x in L.ref_nodes(root):
                try:
                    m = xp.match(x)
                except Exception as e:
                    fail(f"legacy match({text!r}) raised {type(e).__name__}: {e!s:.80}")
                    break
                if m != any(x is w for w in want):
                    fail(f"legacy match({text!r}, {type(x).__name__}) = {m} on {desc!r:.60}, documented semantics says {not m}")
                    break
    # one xpath object re-used across structural changes of the tree (no stale answers)
    for text, steps in (("/LgList/@items[1]LgLeaf", [(False, None, None, "LgList"), (False, "items", 1, "LgLeaf")]),
                        ("//@items[0]LgLeaf", [(True, "items", 0, "LgLeaf")]), ("/LgLeaf", [(False, None, None, "LgLeaf")]),
                        ("//LgUnary/@child LgLeaf", [(True, None, None, "LgUnary"), (False, "child", None, "LgLeaf")])):
        L.clear_registry()
        xp = LegacyXpath(text)
        a, b, c = L.LgLeaf(1, origin=L.NO_ORIGIN), L.LgLeaf(2, origin=L.NO_ORIGIN), L.LgLeaf(3, origin=L.NO_ORIGIN)
        root = L.LgList((a, b, c), origin=L.NO_ORIGIN)
        lone = L.LgLeaf(9, origin=L.NO_ORIGIN)
        for phase in range(3):
            evals += 1
            for x in L.ref_nodes(root) + [lone]:
                top = x
                while top.parent is not None:
                    top = top.parent
                want = any(x is w for w in xref(top, steps))
                if xp.match(x) != want:
                    fail(f"legacy match({text!r}) after {phase} structural change(s): {xp.match(x)} for {type(x).__name__}({getattr(x, 'v', '')}), the current parent chain says {want}")
            if phase == 0:
                a.replace_with(None)          # indices of b, c shift
            elif phase == 1:
                wrapper = L.LgUnary(lone, origin=L.NO_ORIGIN)  # a former root gets a parent
    for text in ("", "/", "/NoSuchClass", "/[x]LgLeaf", "/LgLeaf/", "/R/*", "/A|B", "/@1 LgLeaf"):
        evals += 1
        try:
            LegacyXpath(text)
        except Exception as e:
            if type(e).__name__ != "ASTXpathDefinitionError":
                fail(f"legacy ASTXpath({text!r}) raised {type(e).__name__} instead of the definition error")
    L.clear_registry()
    return {"evaluations": evals, "distinct_nontrivial": len(distinct),
            "rule": "5 attached legacy trees (tuple and list child fields, optional children, a 13-tuple, content-identical twins) x up to 3 start nodes x seeded prune / filter predicates (start node pruned in ~30%) x skip_self x bottom_up for dfs / bfs / gather against a recursive reference in which a skipped start node is offered to neither callback; calculate_xpath against the chain spelling, also after a subtree was spliced in below unchanged paths; grammar-generated xpaths (1-4 steps, indices 11/12) matched on every node against the top-down documented semantics; malformed xpaths raise the definition error only; distinct = (tree, predicates, skip) / (xpath, tree)",
            "samples": samples, "failures": failures, "bound": "5 trees, seeded predicates"}
