"""Bounded stand-in for C04: round trips through dict / JSON / MessagePack / YAML."""
from __future__ import annotations

import enum
import gc
import itertools
import json
import os
import subprocess
import sys
from dataclasses import dataclass, field
from pathlib import Path
from typing import Any, Literal

from pyoak.node import NODE_REGISTRY, ASTNode
from pyoak.origin import (NO_ORIGIN, NO_POSITION, NO_SOURCE, SOURCE_OPTIMIZED_SERIALIZATION_KEY, CodeOrigin, EntireSourcePosition,
                          GeneratedCodeOrigin, MemoryTextSource, MultiOrigin, Origin, Source, SourceSet, XMLFileOrigin, XMLPath,
                          get_code_range, merge_origins)
from pyoak.serialize import SerializationOption

from . import models as M


@dataclass(frozen=True)
class RtRich(ASTNode):
    """every representable property kind of the statement"""
    s: str = ""
    i: int = 0
    f: float = 0.0
    b: bool = False
    n: int | None = None
    e: M.RtColor = M.RtColor.RED
    p: Path = Path("x/y.txt")
    lit: Literal["a", "b"] = "a"
    t: tuple[int, ...] = ()
    ts: tuple[str, int] | None = None
    nc: str = field(default="", compare=False)
    child: ASTNode | None = None
    items: tuple[ASTNode, ...] = ()


FORMATS = {
    "dict": (lambda n, **k: n.as_dict(**k), lambda c, d, **k: c.as_obj(d, **k)),
    "json": (lambda n, **k: n.to_json(**k), lambda c, d, **k: c.from_json(d, **k)),
    "msgpack": (lambda n, **k: n.to_msgpck(**k), lambda c, d, **k: c.from_msgpck(d, **k)),
    "yaml": (lambda n, **k: n.to_yaml(**k), lambda c, d, **k: c.from_yaml(d, **k)),
}


def origins() -> list[Origin]:
    s = M.sources()
    a = CodeOrigin(s[0], get_code_range(0, 1, 0, 2, 1, 2))
    b = CodeOrigin(s[1], get_code_range(3, 1, 3, 5, 1, 5))
    x = XMLFileOrigin(s[1], XMLPath("/x/y[1]"))
    return [NO_ORIGIN, a, b, GeneratedCodeOrigin(s[0]), x, MultiOrigin(origins=(a, b)), MultiOrigin(origins=[a, x, b]), merge_origins(a, GeneratedCodeOrigin(s[0])),
            Origin(s[0], EntireSourcePosition()), Origin(NO_SOURCE, NO_POSITION)]


def trees(pool: list[Origin]) -> list[ASTNode]:
    o = lambda k: pool[k % len(pool)]
    leaf = RtRich("sh", 7, origin=o(1))
    out = [
        RtRich("unicode é中", 2**62, 1.5, True, None, M.RtColor.BLUE, Path("a/b"), "b", (1, 2, 3), ("q", 1), nc="hidden", origin=o(5)),
        RtRich("", -(2**63), -0.0, False, 0, origin=o(0)),
        RtRich("p", child=RtRich("c", 1, origin=o(2)), items=(RtRich("i0", origin=o(3)), RtRich("i1", origin=o(4)), RtRich("i2", origin=o(6))), origin=o(7)),
        RtRich("shared", child=leaf, items=(leaf, RtRich("x", child=leaf, origin=o(8))), origin=o(9)),
        M.build(("U", ("T", (("L", 0), ("F", 0), ("S", 1))), ("U", ("L", 1), None)), lambda p: o(len(p) + 1)),
    ]
    return out


def same(a: ASTNode, b: ASTNode, path: str = "$") -> str | None:
    import dataclasses
    if type(a) is not type(b):
        return f"{path}: class {type(b).__name__} != {type(a).__name__}"
    if a.id != b.id or a.content_id != b.content_id:
        return f"{path}: id / content_id differ"
    if a.origin != b.origin or type(a.origin) is not type(b.origin):
        return f"{path}: origin {b.origin!r:.60} != {a.origin!r:.60}"
    for nm, sing in (("NoOrigin", NO_ORIGIN),):
        if a.origin is sing and b.origin is not sing:
            return f"{path}: {nm} did not come back as the singleton"
    if getattr(a.origin, "source", None) is NO_SOURCE and b.origin.source is not NO_SOURCE:
        return f"{path}: NoSource singleton lost"
    if getattr(a.origin, "position", None) is NO_POSITION and b.origin.position is not NO_POSITION:
        return f"{path}: NoPosition singleton lost"
    for f in dataclasses.fields(a):
        va, vb = getattr(a, f.name), getattr(b, f.name)
        if isinstance(va, ASTNode):
            r = same(va, vb, f"{path}.{f.name}")
            if r:
                return r
        elif isinstance(va, tuple) and va and isinstance(va[0], ASTNode):
            if not isinstance(vb, tuple) or len(va) != len(vb):
                return f"{path}.{f.name}: tuple length"
            for i, (x, y) in enumerate(zip(va, vb)):
                r = same(x, y, f"{path}.{f.name}[{i}]")
                if r:
                    return r
        elif f.name not in ("origin",) and (va != vb or type(va) is not type(vb)):
            return f"{path}.{f.name}: {vb!r} ({type(vb).__name__}) != {va!r} ({type(va).__name__})"
    return None


def run(tier: str = "quick", seed: int = 0) -> dict:
    failures: list[dict] = []
    evals = 0
    distinct: set = set()
    samples: list[Any] = []
    pool = origins()

    def fail(what):
        if len(failures) < 10:
            failures.append({"what": what, "kf": None, "snippet": "import rt.c04 as c, sys\nr = c.run()\nfor f in r['failures'][:5]: print(f['what'])\nsys.exit(1 if r['failures'] else 0)"})

    opt_sets = [None, {SerializationOption.SORT_KEYS: True}]
    class _Skip(Exception):
        pass

    def guarded(de, what):
        # a deserialization that raises is a failed round trip (reported with its input), not a crash of this driver
        def f(c, d, **k):
            try:
                return de(c, d, **k)
            except Exception as e:
                fail(f"{what}: reading the payload back raised {type(e).__name__}: {e!s:.100}")
                raise _Skip()
        return f

    for ti, root in enumerate(trees(pool)):
        try:
            nodes = M.ref_nodes(root) if type(root) in M.CHILD_FIELDS else _nodes(root)
            for fmt, (ser, de0) in FORMATS.items():
                de = guarded(de0, f"tree #{ti} {fmt}")
                for opts in opt_sets:
                    kw = {"serialization_options": opts} if opts else {}
                    evals += 1
                    distinct.add((ti, fmt, str(opts), "alive"))
                    try:
                        data = ser(root, **kw)
                        back = de(type(root), data)
                    except Exception as e:
                        fail(f"tree #{ti} {fmt} {opts}: round trip raised {type(e).__name__}: {e!s:.100}")
                        continue
                    if back is not root:
                        fail(f"tree #{ti} {fmt}: all originals registered, but the round trip returned another object")
                    # none alive: detach everything, deserialize, compare at every position
                    evals += 1
                    distinct.add((ti, fmt, str(opts), "dead"))
                    root.detach()
                    try:
                        back = de(type(root), data)
                        r = same(root, back)
                        if r:
                            fail(f"tree #{ti} {fmt} {opts}, originals detached: {r}")
                        elif not (back == root):
                            fail(f"tree #{ti} {fmt}: result is not == to the original")
                        bn = _nodes(back)
                        if any(ASTNode.get_any(x.id) is not x for x in bn):
                            fail(f"tree #{ti} {fmt}: a deserialized node is not registered under its id")
                        # shared nodes are shared again
                        on = _nodes(root)
                        for i, j in itertools.combinations(range(len(on)), 2):
                            if (on[i] is on[j]) != (bn[i] is bn[j]):
                                fail(f"tree #{ti} {fmt}: sharing of node objects not preserved (positions {i}, {j})")
                                break
                        back.detach()
                    except Exception as e:
                        fail(f"tree #{ti} {fmt} {opts}, originals detached: raised {type(e).__name__}: {e!s:.100}")
                    # re-register the originals for the next format (fresh construction is not possible: re-deserialize)
                    root = de(type(root), data)
                # some alive: keep only the children alive
                evals += 1
                data = ser(root)
                kids = [c for c in _nodes(root)[1:]]
                root.detach_self()
                back = de(type(root), data)
                if any(a is not b for a, b in zip(_nodes(back)[1:], kids)):
                    fail(f"tree #{ti} {fmt}: a still-registered descendant was not re-used")
                if same(root, back):
                    fail(f"tree #{ti} {fmt}, root dropped / children alive: {same(root, back)}")
                root = back
            if len(samples) < 3:
                samples.append({"tree": f"#{ti} {type(root).__name__}", "formats": list(FORMATS)})
            root.detach()
        except _Skip:
            continue
    # ids with collision suffixes: twins outside the tree are registered, then everything is dropped
    for fmt, (ser, de) in FORMATS.items():
        evals += 1
        t0 = RtRich("twin", 1, origin=pool[1])
        t1 = RtRich("twin", 1, origin=pool[1])
        holder = RtRich("h", child=t1, origin=pool[2])
        if not t1.id.endswith("_1"):
            fail("twin did not get a collision-suffixed id")
        data = ser(holder)
        holder.detach(); t0.detach_self()
        try:
            back = guarded(de, f"{fmt} collision-suffixed id")(RtRich, data)
        except _Skip:
            continue
        if back.child.id != t1.id or same(holder, back):
            fail(f"{fmt}: node serialized with a collision-suffixed id came back as {back.child.id} (expected {t1.id}) / {same(holder, back)}")
        stale = [k for k, v in list(NODE_REGISTRY.items()) if v is back.child and k != back.child.id]
        if stale:
            fail(f"{fmt}: the deserialized node is also registered under {stale}")
        back.detach()
    # index-based sources
    for fmt, (ser, de) in FORMATS.items():
        evals += 1
        src_dump = Source.all_as_dict()
        node = RtRich("idx", origin=MultiOrigin(origins=(pool[1], pool[2])), child=RtRich("c", origin=pool[1]))
        first = RtRich("first-source", origin=CodeOrigin(Source.list_registered_sources(True)[0], get_code_range(0, 1, 0, 1, 1, 1))) if Source.list_registered_sources(True) and isinstance(Source.list_registered_sources(True)[0], MemoryTextSource) else None
        for n in [node] + ([first] if first else []):
            data = ser(n, serialization_options={SOURCE_OPTIMIZED_SERIALIZATION_KEY: True})
            n.detach()
            Source.load_serialized_sources(src_dump)
            try:
                back = de(RtRich, data, serialization_options={SOURCE_OPTIMIZED_SERIALIZATION_KEY: True})
                if same(n, back):
                    fail(f"{fmt} index-based sources: {same(n, back)}")
                back.detach()
            except Exception as e:
                fail(f"{fmt} index-based sources: raised {type(e).__name__}: {e!s:.100}")
    # loading a dump into an EMPTY registry gives every source the index it had when the dump was taken (the aligned case of KF-C04-source-index-shift)
    evals += 1
    before = Source.list_registered_sources(True)
    dump = Source.all_as_dict()
    saved_tables = (Source._sources, Source._source_idx_to_source)
    try:
        Source.clear_registry()
        Source.load_serialized_sources(dump)
        after = Source.list_registered_sources(True)
        if len(after) != len(before) or any(a != b or a.source_registry_id != i for i, (a, b) in enumerate(zip(after, before))):
            fail(f"load_serialized_sources(all_as_dict()) into an empty registry: indices differ ({len(before)} sources)")
    except Exception as e:
        fail(f"load_serialized_sources(all_as_dict()) into an empty registry raised {type(e).__name__}: {e!s:.100}")
    finally:
        Source._sources, Source._source_idx_to_source = saved_tables
    # a failed call with options must not disturb the next round trip (C16 states the reset; here its effect on the trip)
    for fmt, (ser, de) in FORMATS.items():
        evals += 1
        n = RtRich("after-failure", 1, origin=pool[5], child=RtRich("c", origin=pool[1]))
        try:
            RtRich.as_obj({"__type": "NoSuchClassAtAll", "id": "x"}, serialization_options={SerializationOption.SKIP_CLASS: True, SerializationOption.SORT_KEYS: True})
        except Exception:
            pass
        try:
            data = ser(n)
            n.detach()
            back = de(RtRich, data)
            if same(n, back):
                fail(f"{fmt} after a failed as_obj with options: {same(n, back)}")
            back.detach()
        except Exception as e:
            fail(f"{fmt} round trip after a failed as_obj with options raised {type(e).__name__}: {e!s:.100}")
    # fresh process: nothing alive
    evals += 1
    probe = ("import json, sys\nfrom rt import c04\nfrom rt.c04 import *\nd = json.loads(sys.stdin.read())\n"
             "n = RtRich.from_json(d['json'])\nprint(json.dumps({'id': n.id, 'cid': n.content_id, 'again': n.to_json() == d['json'], 'child': n.child.id}))")
    n = RtRich("proc", 3, 2.5, origin=pool[5], child=RtRich("c", origin=pool[1]))
    js = n.to_json()
    p = subprocess.run([sys.executable, "-c", probe], input=json.dumps({"json": js}), capture_output=True, text=True,
                       cwd=os.path.dirname(os.path.dirname(os.path.abspath(__file__))), env=dict(os.environ, PYTHONHASHSEED="7"))
    if p.returncode != 0:
        fail(f"fresh-process deserialization failed: {p.stderr[-300:]}")
    else:
        r = json.loads(p.stdout.strip().split("\n")[-1])
        if r["id"] != n.id or r["cid"] != n.content_id or not r["again"] or r["child"] != n.child.id:
            fail(f"fresh process: id/content_id/re-serialization differ: {r}")
    n.detach()
    return {"evaluations": evals, "distinct_nontrivial": len(distinct),
            "rule": "5 trees covering every representable property kind (unicode, 64-bit ints, floats, bools, None, enums, paths, literals, tuples, optionals, non-comparable), shared subtrees, falsy nodes x 10 origin kinds (code, XML, generated, multi from tuple / list / merge, entire source, the No* singletons) x 4 formats x {default, SORT_KEYS} x {all originals alive, none alive, only descendants alive}; collision-suffixed ids with twins dropped; index-based sources after load_serialized_sources (incl. the first registered source), a dump loaded into an emptied registry keeps every index; a fresh process; compared position by position (class, id, content_id, every field value and type, origin, singletons, sharing, registration); distinct = (tree, format, options, liveness)",
            "samples": samples, "failures": failures, "bound": "5 trees, 4 formats"}


def _nodes(root: ASTNode) -> list[ASTNode]:
    out = [root]
    for c in root.get_child_nodes():
        out.extend(_nodes(c))
    return out
