"""Bounded stand-in for C13: runtime type checking accepts exactly the well-typed constructions.

Oracle `conforms` is written from the statement (bool only for bool, never for int; int for float;
None only where allowed; fixed tuples element-wise with exact length; variadic element-wise; literals
by membership; unions by any member; node classes by instance; Any always).  Where the statement is
silent (a bool offered to float/complex) the pair is skipped."""
from __future__ import annotations

import enum
import itertools
import typing as t
from dataclasses import dataclass, field, make_dataclass
from types import NoneType, UnionType
from typing import Any, Literal, NewType, Optional, Union

from pyoak import config
from pyoak.error import InvalidTypes
from pyoak.node import ASTNode
from pyoak.typing import is_instance


class C13Color(enum.Enum):
    RED = "r"
    BLUE = "b"


C13Id = NewType("C13Id", int)
C13Name = NewType("C13Name", str)


@dataclass(frozen=True)
class C13Leaf(ASTNode):
    v: int = 0


@dataclass(frozen=True)
class C13Sub(C13Leaf):
    w: int = 0


@dataclass(frozen=True)
class C13Other(ASTNode):
    s: str = ""


SILENT = object()


def conforms(v: Any, ty: Any) -> Any:
    if ty is Any:
        return True
    if isinstance(ty, NewType):
        return conforms(v, ty.__supertype__)
    if ty is None or ty is NoneType:
        return v is None
    origin, args = t.get_origin(ty), t.get_args(ty)
    if origin is Union or isinstance(ty, UnionType):
        rs = [conforms(v, a) for a in args]
        if any(r is True for r in rs):
            return True
        return SILENT if any(r is SILENT for r in rs) else False
    if origin is Literal:
        return any(v == a for a in args)
    if origin is tuple or ty is tuple:
        if not isinstance(v, tuple):
            return False
        if ty is tuple or not args:
            return True if ty is tuple else len(v) == 0
        if args == ((),):
            return len(v) == 0
        if len(args) == 2 and args[1] is Ellipsis:
            rs = [conforms(x, args[0]) for x in v]
        else:
            if len(args) != len(v):
                return False
            rs = [conforms(x, a) for x, a in zip(v, args)]
        if any(r is False for r in rs):
            return False
        return SILENT if any(r is SILENT for r in rs) else True
    if origin is frozenset:
        if not isinstance(v, frozenset):
            return False
        rs = [conforms(x, args[0]) for x in v]
        if any(r is False for r in rs):
            return False
        return SILENT if any(r is SILENT for r in rs) else True
    if ty is bool:
        return type(v) is bool
    if ty is int:
        return type(v) is int
    if ty is float:
        if type(v) is bool:
            return SILENT
        return type(v) in (int, float)
    if isinstance(ty, type):
        if type(v) is bool and ty is not bool and issubclass(bool, ty) and ty is not object:
            return SILENT
        return isinstance(v, ty)
    return SILENT


def annotations(depth2: bool) -> list[Any]:
    base = [int, bool, float, str, NoneType, Any, C13Color, Literal["r", "w"], Literal[1, 2], C13Id, C13Name, C13Leaf, C13Sub, C13Other]
    out = list(base)
    small = [int, bool, str, C13Id, C13Leaf, Literal["r", "w"], float]
    for b in small:
        out += [Optional[b], b | None if b is not None and not isinstance(b, NewType) and t.get_origin(b) is None else Optional[b],
                tuple[b, ...], tuple[b, str], tuple[b], frozenset[b]]  # type: ignore[misc]
    out += [Union[int, str], int | str, Union[bool, str, None], Union[C13Leaf, C13Other], C13Leaf | C13Other | None, tuple[()], tuple[int, str, bool]]
    if depth2:
        for b in (int, C13Id, Literal["r", "w"], bool):
            out += [tuple[tuple[b, ...], ...], Optional[tuple[b, ...]], tuple[Optional[b], ...], tuple[b | str, ...], tuple[tuple[b, str], ...]]  # type: ignore[misc]
    return out


def values() -> list[Any]:
    a, b, c = C13Leaf(1), C13Sub(2), C13Other("x")
    vals = [True, False, 0, 1, 2, 2.5, "a", "r", None, C13Color.RED, a, b, c, (), (1,), (1, 2), (True,), (1, "a"), ("r", "z"), ("r", "w"),
            (1, True), (a, b), (a, c), ((1,), (2, 3)), ((1,), ("a",)), ((1, 2), (True, 2)), (None, 1), frozenset([1, 2]), frozenset(["a"]),
            [1], (1, "a", True), (1.0,), (0.5, "a")]
    return vals


def run(tier: str = "quick", seed: int = 0) -> dict:
    failures: list[dict] = []
    evals = 0
    distinct: set = set()
    samples: list[Any] = []
    anns = annotations(True)
    vals = values()

    def fail(what):
        if len(failures) < 12:
            failures.append({"what": what, "kf": None, "snippet": "import rt.c13 as c, sys\nr = c.run()\nfor f in r['failures'][:5]: print(f['what'])\nsys.exit(1 if r['failures'] else 0)"})

    for order in (vals, list(reversed(vals))):
        for ty in anns:
            for v in order:
                exp = conforms(v, ty)
                if exp is SILENT:
                    continue
                evals += 1
                distinct.add((str(ty), repr(v)[:40]))
                try:
                    got = is_instance(v, ty)
                except Exception as e:
                    fail(f"is_instance({v!r:.40}, {ty}) raised {type(e).__name__}: {e}")
                    continue
                if got != exp:
                    fail(f"is_instance({v!r:.50}, {ty}) = {got}, the statement says {exp}")
    # constructions: every field (init or not) checked; invalid_fields exactly the non-conforming ones
    field_anns = [("a", int), ("b", bool), ("c", Optional[str]), ("d", tuple[int, ...]), ("e", Literal["r", "w"]), ("f", float),
                  ("g", tuple[C13Id, str]), ("child", Optional[C13Leaf]), ("items", tuple[C13Leaf, ...]), ("h", tuple[Literal["r", "w"], ...]),
                  ("k", tuple[tuple[int, ...], ...])]
    pools = {"a": [1, True, "x"], "b": [True, 1, None], "c": [None, "s", 3], "d": [(1, 2), (1, "a"), 5, (1, True)], "e": ["r", "z"], "f": [1, 2.5, "x"],
             "g": [(1, "a"), ("a", 1), (1,)], "child": [None, "leaf", "other"], "items": [(), "leaves", "mixed"], "h": [("r", "w"), ("r", "z")],
             "k": [((1,), (2,)), ((1,), ("a",)), ((1, 2), (True, 2))]}
    import random
    rnd = random.Random(seed)
    ncls = 0
    combos = []
    for trial in range(60 if tier == "quick" else 400):
        names = rnd.sample([n for n, _ in field_anns], 3)
        combos.append(names)
    for names in combos:
        ncls += 1
        cls = make_dataclass(f"C13N{ncls}_{seed}", [(n, dict(field_anns)[n], field(default=None)) for n in names], bases=(ASTNode,), frozen=True)
        for pick in itertools.product(*[range(len(pools[n])) for n in names]):
            kw = {}
            for n, i in zip(names, pick):
                val = pools[n][i]
                if val == "leaf":
                    val = C13Leaf(7)
                elif val == "other":
                    val = C13Other("o")
                elif val == "leaves":
                    val = (C13Leaf(1), C13Sub(2))
                elif val == "mixed":
                    val = (C13Leaf(1), C13Other("z"))
                kw[n] = val
            expected_bad = sorted(n for n in names if conforms(kw[n], dict(field_anns)[n]) is False)
            if any(conforms(kw[n], dict(field_anns)[n]) is SILENT for n in names):
                continue
            evals += 1
            distinct.add((tuple(names), pick))
            config.RUNTIME_TYPE_CHECK = True
            try:
                try:
                    node_on = cls(**kw)
                    got_bad: list[str] | None = []
                except InvalidTypes as e:
                    node_on = None
                    got_bad = sorted(f.name for f in e.invalid_fields)
                except Exception as e:
                    got_bad = None
                    fail(f"construction with checks on raised {type(e).__name__}: {e} for {names} {kw!r:.100}")
            finally:
                config.RUNTIME_TYPE_CHECK = False
            if got_bad is not None and got_bad != expected_bad:
                fail(f"fields {names} values {kw!r:.120}: invalid_fields {got_bad}, expected {expected_bad}")
            try:
                node_off = cls(**kw)
                if node_on is not None and (node_on.content_id != node_off.content_id or type(node_on) is not type(node_off)):
                    fail(f"node built with checks on differs from the one built with checks off for {kw!r:.100}")
                node_off.detach_self()
            except Exception as e:
                fail(f"construction with checks off raised {type(e).__name__}: {e}")
            if node_on is not None:
                node_on.detach_self()
    samples.append({"annotation": "tuple[C13Id, ...]", "value": "(1, 2)", "conforms": True})
    samples.append({"fields": combos[0], "pool_sizes": [len(pools[n]) for n in combos[0]]})
    return {"evaluations": evals, "distinct_nontrivial": len(distinct),
            "rule": f"{len(anns)} annotations (type grammar to depth 2: scalars, None, Any, Enum, Literal, NewType, Optional/Union both spellings, fixed/variadic/empty tuples, frozenset, node classes) x {len(vals)} values in both orders against the oracle; {len(combos)} generated node classes with 3 checked fields x all value combinations, switch on and off; pairs on which the statement is silent (bool for float) are skipped; distinct = (annotation, value) / (fields, values)",
            "samples": samples, "failures": failures, "bound": "annotation depth 2, 3 fields per class"}
