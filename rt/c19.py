"""Bounded stand-in for C19 (a rejected legacy operation changes nothing): the history driver of C18
(clauses checked after documented rejections) plus deterministic rejection scenarios."""
from __future__ import annotations

from . import legacy_hist as H
from .c18 import _run


def run(tier: str = "quick", seed: int = 0) -> dict:
    r = _run("C19:", tier, seed)
    for name, setup in H.scenarios():
        r["evaluations"] += 1
        f = H.run_scenario(name, setup)
        if f is not None:
            r["failures"].append({"what": f"legacy rejection scenario {name}: {f['sig'][2]}", "kf": H.classify(f["sig"], False), "sig": f["sig"],
                                  "snippet": f"import rt.legacy_hist as H, sys\nf = H.run_scenario({name!r}, dict(H.scenarios())[{name!r}])\nprint(f)\nsys.exit(1 if f else 0)"})
    r["rule"] += "; plus 6 deterministic rejection scenarios (replace() re-arranging the node's own children rejected at a later child by parent / registry collision; replace_with() failing while attaching the replacement, with the old node a leaf / a middle child with children / a root with grandchildren)"
    return r
