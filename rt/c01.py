"""Bounded stand-in for C01: content_id / is_equal == structural content equality.

Reference: ceq(a, b) -- same class, comparable properties equal in value *and* type, child fields
content-equal position by position (an absent optional differs from every present child).
Failures inside the characterisation (chi) of a listed open finding are tagged with its id."""
from __future__ import annotations

import itertools
import json
import os
import subprocess
import sys
from dataclasses import dataclass, field
from typing import Any

from pyoak.node import ASTNode

from . import models as M


@dataclass(frozen=True)
class RtVal(ASTNode):
    x: Any = None
    y: Any = None
    z: Any = field(default=None, compare=False)


_stamp = itertools.count()


@dataclass(frozen=True)
class RtStamped(ASTNode):
    v: int = 0
    stamp: int = field(default_factory=lambda: next(_stamp), init=False, compare=False)  # bookkeeping, differs per instance
    seen: int = field(default_factory=lambda: next(_stamp), compare=False)


NONCOMPARE = {"stamp", "seen", "tag", "nc", "nn", "z", "id", "content_id", "origin"}


def veq(a: Any, b: Any) -> bool:
    if type(a) is not type(b):
        return False
    if isinstance(a, tuple):
        return len(a) == len(b) and all(veq(x, y) for x, y in zip(a, b))
    return a == b


def ceq(a: ASTNode, b: ASTNode) -> bool:
    import dataclasses
    if type(a) is not type(b):
        return False
    for f in dataclasses.fields(a):
        if f.name in NONCOMPARE:
            continue
        va, vb = object.__getattribute__(a, f.name), object.__getattribute__(b, f.name)
        if isinstance(va, ASTNode) or isinstance(vb, ASTNode):
            if not (isinstance(va, ASTNode) and isinstance(vb, ASTNode) and ceq(va, vb)):
                return False
        elif isinstance(va, tuple) and any(isinstance(x, ASTNode) for x in va) or isinstance(vb, tuple) and any(isinstance(x, ASTNode) for x in vb):
            if not (isinstance(va, tuple) and isinstance(vb, tuple) and len(va) == len(vb) and all(ceq(x, y) for x, y in zip(va, vb))):
                return False
        elif not veq(va, vb):
            return False
    return True


def strings_of(n: ASTNode) -> list[Any]:
    import dataclasses
    out = []
    for x in M.ref_nodes(n) if type(n) in M.CHILD_FIELDS else [n]:
        for f in dataclasses.fields(x):
            if f.name not in NONCOMPARE:
                out.append(object.__getattribute__(x, f.name))
    return out


def kf_of(a: ASTNode, b: ASTNode) -> str | None:
    vals = strings_of(a) + strings_of(b)
    if any(isinstance(v, frozenset) and len(v) >= 2 for v in vals) or any(isinstance(v, tuple) and any(isinstance(e, frozenset) and len(e) >= 2 for e in v) for v in vals):
        return "KF-C01-frozenset"
    if any("):" in str(v) for v in vals if not isinstance(v, ASTNode)):
        return "KF-C01-separator"
    return None


def value_pool() -> list[Any]:
    return [0, 1, True, False, None, 1.0, "1", "", "a", "a:b=", "x(y)", "[0]=", "@", "):", "):y=<class 'str'>(", (1, 2), (1, True), (), ("a",), M.RtColor.RED, M.RtColor.BLUE,
            frozenset([8, 16, 0]), frozenset([16, 8, 0]), frozenset([1]), frozenset(), (frozenset([1]),), "None", "()", "(1, 2)", 2, -1]


def run(tier: str = "quick", seed: int = 0) -> dict:
    failures: list[dict] = []
    evals = 0
    distinct: set = set()
    samples: list[Any] = []
    pool = M.origin_pool()

    def fail(what, kf=None):
        if len(failures) < 40:
            failures.append({"what": what, "kf": kf, "snippet": f"import rt.c01 as c, sys\nr = c.run()\nbad = [f for f in r['failures'] if not f['kf']]\nfor f in bad[:5]: print(f['what'])\nsys.exit(1 if bad else 0)"})

    def compare(a: ASTNode, b: ASTNode, ctx: str) -> None:
        nonlocal evals
        evals += 1
        want = ceq(a, b)
        got = a.content_id == b.content_id
        if got != want or a.is_equal(b) != want or b.is_equal(a) != want:
            fail(f"{ctx}: content_id equal = {got}, is_equal = {a.is_equal(b)}, structural content equality = {want}: {a!r:.120} vs {b!r:.120}", kf_of(a, b))

    # ---- property values: every pair of values in the same field, and split across two fields --------------
    vals = value_pool()
    for i, j in itertools.product(range(len(vals)), repeat=2):
        distinct.add(("vals", i, j))
        a, b = RtVal(x=vals[i], z=1, origin=pool[1]), RtVal(x=vals[j], z=2, origin=pool[2])
        compare(a, b, "RtVal.x")
        a.detach_self(); b.detach_self()
    strs = ["", "a", "):", "=", ":y=", "):y=<class 'str'>(", "(", ")", "<class 'str'>", "x):y=<class 'str'>(z"]
    for s1, s2, s3, s4 in itertools.product(strs, repeat=4):
        if (s1, s2) >= (s3, s4):
            continue
        distinct.add(("split", s1, s2, s3, s4))
        a, b = RtVal(x=s1, y=s2), RtVal(x=s3, y=s4)
        compare(a, b, "RtVal.x/y strings with separators")
        a.detach_self(); b.detach_self()
    # ---- trees: all pairs of small trees (origins, ids, registry content vary) -----------------------------
    maxn = 3 if tier == "quick" else 4
    descs = M.all_descs(maxn)
    built = [(d, M.build(d, lambda p, k=k: pool[(k + len(p)) % len(pool)])) for k, d in enumerate(descs)]
    for (d1, a), (d2, b) in itertools.combinations_with_replacement(built, 2):
        distinct.add(("tree", str(d1), str(d2)))
        compare(a, b, f"trees {d1} / {d2}")
    twins = [(d, M.build(d)) for d, _ in built[:30]]  # registered twins: same content, ids with collision suffixes
    for (d, a), (_, b) in zip(built[:30], twins):
        compare(a, b, f"twin of {d}")
    # falsy / absent children
    for c1, c2 in itertools.product([None, ("L", 0), ("F", 0), ("F", 1)], repeat=2):
        a = M.RtUnary(M.RtLeaf(5), M.build(c1) if c1 else None)
        b = M.RtUnary(M.RtLeaf(5), M.build(c2) if c2 else None)
        compare(a, b, f"optional child {c1} vs {c2}")
    # non-comparable properties never matter; non-init comparable ones do not exist in the model
    a, b = M.RtProps(i=1, nc=1), M.RtProps(i=1, nc=2)
    compare(a, b, "non-comparable property")
    a, b = M.RtProps(i=1, t=(1, 2)), M.RtProps(i=1, t=(1, 2, 3))
    compare(a, b, "tuple property")
    a, b = M.RtProps(n=None), M.RtProps(n=0)
    compare(a, b, "None vs 0")
    for v1, v2 in ((1, 1), (1, 2)):
        a, b = RtStamped(v1), RtStamped(v2)
        compare(a, b, "non-comparable, non-init bookkeeping property (differs per instance)")
        ua, ub = M.RtUnary(a), M.RtUnary(b)
        compare(ua, ub, "parents of nodes with differing bookkeeping properties")
    # field declaration order: the same class name defined twice with the fields in another order
    ns: dict[str, Any] = {"__name__": __name__}
    src1 = "from dataclasses import dataclass\nfrom pyoak.node import ASTNode\n@dataclass(frozen=True)\nclass RtOrd(ASTNode):\n    a: int = 0\n    b: str = ''\n    k: ASTNode | None = None\n    m: tuple[ASTNode, ...] = ()\n"
    src2 = "from dataclasses import dataclass\nfrom pyoak.node import ASTNode\n@dataclass(frozen=True)\nclass RtOrd(ASTNode):\n    m: tuple[ASTNode, ...] = ()\n    b: str = ''\n    k: ASTNode | None = None\n    a: int = 0\n"
    exec(src1, ns)
    o1 = ns["RtOrd"](a=3, b="q", k=M.RtLeaf(1), m=(M.RtLeaf(2), M.RtLeaf(3)))
    exec(src2, ns)
    o2 = ns["RtOrd"](a=3, b="q", k=M.RtLeaf(1), m=(M.RtLeaf(2), M.RtLeaf(3)))
    evals += 1
    if o1.content_id != o2.content_id:
        fail("declaration order of the fields influences content_id")
    # ---- other processes with other string-hash seeds ---------------------------------------------------------
    probe = "import json, sys\nfrom rt import models as M\nfrom rt.c01 import RtVal\nimport rt.models\n" \
            "ds = json.loads(sys.argv[1])\nout = [M.build(eval(d)).content_id for d in ds]\n" \
            "out += [RtVal(x=frozenset(['a','b','c'])).content_id, RtVal(x=('a', 1, None)).content_id, RtVal(x=M.RtColor.RED).content_id]\nprint(json.dumps(out))\n"
    ds = [repr(d) for d in descs[:40]]
    here = [M.build(d).content_id for d in descs[:40]] + [RtVal(x=frozenset(['a', 'b', 'c'])).content_id, RtVal(x=('a', 1, None)).content_id, RtVal(x=M.RtColor.RED).content_id]
    for hs in ("1", "2"):
        evals += 1
        env = dict(os.environ, PYTHONHASHSEED=hs)
        p = subprocess.run([sys.executable, "-c", probe, json.dumps(ds)], capture_output=True, text=True, env=env, cwd=os.path.dirname(os.path.dirname(os.path.abspath(__file__))))
        if p.returncode != 0:
            fail(f"subprocess probe failed: {p.stderr[-300:]}")
            continue
        there = json.loads(p.stdout.strip().split("\n")[-1])
        for k, (x, y) in enumerate(zip(here, there)):
            if x != y:
                fail(f"content_id differs between processes (PYTHONHASHSEED={hs}) for case #{k}", "KF-C01-frozenset" if k == 40 else None)
    samples.append({"pair": ["RtVal(x=1)", "RtVal(x=True)"], "content_equal": False})
    samples.append({"pair": [str(descs[5]), str(descs[5])], "content_equal": True})
    return {"evaluations": evals, "distinct_nontrivial": len(distinct),
            "rule": f"all pairs of {len(vals)} property values (ints, bools, None, floats, enums, tuples, frozensets in different element order, strings made of the library's separators) in one field; all pairs of two-field string splits over 10 separator strings; all pairs of model trees <= {maxn} nodes with different origins / registered twins; absent vs present vs falsy optional children; non-comparable properties; field declaration order; content_ids recomputed in subprocesses with other hash seeds; oracle = structural content equality; distinct = case tuples; failures inside an open finding's chi are tagged and not reported as violations",
            "samples": samples, "failures": failures, "bound": f"trees <= {maxn} nodes, value pool of {len(vals)}"}
