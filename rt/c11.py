"""Bounded stand-in for C11: every field annotation is classified as child, property or rejected.

The expected verdict is computed from the statement on a small type-expression model; annotations
are rendered as source text and compiled into real classes, with and without postponed annotations,
directly and through inheritance (inherited / overridden)."""
from __future__ import annotations

import itertools
from typing import Any

from pyoak.error import InvalidFieldAnnotations

_counter = itertools.count()

PRELUDE = """
import enum
from collections.abc import Mapping, Sequence, Collection
from dataclasses import dataclass, field
from typing import Any, Literal, NewType, Optional, Union, Tuple, List, Dict, Set, FrozenSet
from pyoak.node import ASTNode

class C11Color(enum.Enum):
    R = 1

@dataclass(frozen=True)
class C11Leaf(ASTNode):
    v: int = 0

@dataclass(frozen=True)
class C11Other(ASTNode):
    w: int = 0

C11Id = NewType("C11Id", int)
C11NodeId = NewType("C11NodeId", C11Leaf)
"""

# type expression model: ("node", name) | ("scalar", text) | ("none",) | ("union", [t..], spelling) | ("tuple", [t..]) | ("vtuple", t)
# | ("coll", origin_text, [t..], mutable: bool) | ("newtype", text, inner)


def render(t: Any) -> str:
    k = t[0]
    if k in ("node", "scalar"):
        return t[1]
    if k == "none":
        return "None"
    if k == "union":
        parts = [render(x) for x in t[1]]
        if t[2] == "pipe":
            return " | ".join(parts)
        if t[2] == "optional" and len(parts) == 2 and parts[1] == "None":
            return f"Optional[{parts[0]}]"
        return "Union[" + ", ".join(parts) + "]"
    if k == "tuple":
        return "tuple[" + ", ".join(render(x) for x in t[1]) + "]" if t[1] else "tuple[()]"
    if k == "vtuple":
        return f"tuple[{render(t[1])}, ...]"
    if k == "coll":
        return t[1] + ("[" + ", ".join(render(x) for x in t[2]) + "]" if t[2] else "")
    if k == "newtype":
        return t[1]
    raise ValueError(t)


def unwrap(t: Any) -> Any:
    return unwrap(t[2]) if t[0] == "newtype" else t


def is_node(t: Any) -> bool:
    return unwrap(t)[0] == "node"


def children_of(t: Any) -> list[Any]:
    t = unwrap(t)
    k = t[0]
    if k == "union":
        return t[1]
    if k == "tuple":
        return t[1]
    if k == "vtuple":
        return [t[1]]
    if k == "coll":
        return t[2]
    return []


def mentions_node(t: Any) -> bool:
    return is_node(t) or any(mentions_node(c) for c in children_of(t))


def mentions_mutable(t: Any) -> bool:
    u = unwrap(t)
    return (u[0] == "coll" and u[3]) or any(mentions_mutable(c) for c in children_of(t))


def node_or_union(t: Any, allow_none: bool) -> bool:
    u = unwrap(t)
    if u[0] == "node":
        return True
    if u[0] == "union":
        members = u[1]
        if any(m[0] == "none" for m in members) and not allow_none:
            return False
        rest = [m for m in members if m[0] != "none"]
        return bool(rest) and all(unwrap(m)[0] == "node" for m in rest)
    return False


def normalize(t: Any) -> Any:
    """typing flattens nested unions and drops duplicate members"""
    k = t[0]
    if k == "union":
        members: list[Any] = []
        for m in t[1]:
            m = normalize(m)
            for x in (m[1] if m[0] == "union" else [m]):
                if all(render(x) != render(y) for y in members):
                    members.append(x)
        return members[0] if len(members) == 1 else ("union", members, t[2])
    if k == "tuple":
        return ("tuple", [normalize(x) for x in t[1]])
    if k == "vtuple":
        return ("vtuple", normalize(t[1]))
    if k == "coll":
        return ("coll", t[1], [normalize(x) for x in t[2]], t[3])
    return t


def expected(t: Any) -> str:
    t = normalize(t)
    u = unwrap(t)
    if node_or_union(t, True):
        return "child"
    if u[0] == "vtuple" and node_or_union(u[1], False):
        return "child"
    if u[0] == "tuple" and u[1] and all(node_or_union(x, False) for x in u[1]):
        return "child"
    if not mentions_node(t) and not mentions_mutable(t):
        return "property"
    return "rejected"


def grammar(depth: int) -> list[Any]:
    node, other = ("node", "C11Leaf"), ("node", "C11Other")
    scal = [("scalar", "int"), ("scalar", "str"), ("scalar", "Any"), ("scalar", "C11Color"), ("scalar", 'Literal["a", 1]'), ("newtype", "C11Id", ("scalar", "int"))]
    base = [node, other, ("newtype", "C11NodeId", node)] + scal + [("none",)]
    level = list(base)
    out = list(base)
    for _ in range(depth):
        nxt: list[Any] = []
        sample = level if len(level) <= 14 else level[:: max(1, len(level) // 14)]
        for a in sample:
            if a[0] == "none":
                continue
            nxt += [("union", [a, ("none",)], "optional"), ("union", [a, ("none",)], "pipe"), ("vtuple", a), ("tuple", [a]), ("coll", "frozenset", [a], False),
                    ("coll", "Sequence", [a], False), ("coll", "list", [a], True), ("coll", "Mapping", [("scalar", "str"), a], False), ("coll", "dict", [("scalar", "str"), a], True),
                    ("coll", "set", [a], True)]
            for b in (node, other, ("scalar", "int")):
                nxt += [("union", [a, b], "union"), ("union", [a, b, ("none",)], "pipe"), ("tuple", [a, b])]
        out += nxt
        level = nxt
    # de-duplicate by rendering; drop renderings python itself rejects (e.g. None | None)
    seen, res = set(), []
    for t in out:
        r = render(t)
        if r not in seen and r != "None":
            seen.add(r)
            res.append(t)
    return res + [("tuple", []), ("coll", "tuple", [], False), ("coll", "list", [], True)]


def classify(ann: str, postponed: bool, mode: str, default: str = "None") -> tuple[str, str]:
    """-> (verdict, detail).  mode: direct | inherited | overridden"""
    n = next(_counter)
    fut = "from __future__ import annotations\n" if postponed else ""
    if mode == "direct":
        body = f"@dataclass(frozen=True)\nclass C11K{n}(ASTNode):\n    fld: {ann} = {default}\n"
        target = f"C11K{n}"
    elif mode == "inherited":
        body = f"@dataclass(frozen=True)\nclass C11B{n}(ASTNode):\n    fld: {ann} = {default}\n\n@dataclass(frozen=True)\nclass C11K{n}(C11B{n}):\n    extra: int = 0\n"
        target = f"C11K{n}"
    elif mode == "forward":
        # a validated parent, and a subclass whose annotation refers to a class defined only later in the module
        late = ann.replace("C11Leaf", "C11Late")
        body = (f"@dataclass(frozen=True)\nclass C11B{n}(ASTNode):\n    base: int = 0\n\n_b = C11B{n}()\n\n"
                f"@dataclass(frozen=True)\nclass C11K{n}(C11B{n}):\n    fld: {late!r} = {default}\n\nC11Late = C11Leaf\n")
        target = f"C11K{n}"
    elif mode == "overridden-basefirst":
        body = (f"@dataclass(frozen=True)\nclass C11B{n}(ASTNode):\n    fld: int = 0\n\n@dataclass(frozen=True)\nclass C11K{n}(C11B{n}):\n    fld: {ann} = {default}\n\n"
                f"_b = C11B{n}()\n_pf = [f.name for f in C11B{n}.get_property_fields()]\n")
        target = f"C11K{n}"
    else:
        body = f"@dataclass(frozen=True)\nclass C11B{n}(ASTNode):\n    fld: int = 0\n\n@dataclass(frozen=True)\nclass C11K{n}(C11B{n}):\n    fld: {ann} = {default}\n"
        target = f"C11K{n}"
    import sys
    import types
    shared = sys.modules.get("rt.c11_shared")
    if shared is None:
        shared = types.ModuleType("rt.c11_shared")
        sys.modules["rt.c11_shared"] = shared
        exec(PRELUDE, shared.__dict__)
    mod = types.ModuleType(f"rt.c11_ns{n}")
    mod.__dict__.update({k: v for k, v in shared.__dict__.items() if not k.startswith("__")})
    sys.modules[mod.__name__] = mod
    try:
        try:
            exec(fut + body, mod.__dict__)
        except InvalidFieldAnnotations as e:
            return "rejected", "at definition"
        except Exception as e:
            import traceback
            if "mashumaro" in traceback.format_exc():
                return "dependency", "mashumaro cannot build a serializer for this annotation"
            return "error", f"definition raised {type(e).__name__}: {e!s:.80}"
        cls = mod.__dict__[target]
        try:
            inst = cls()
        except InvalidFieldAnnotations:
            return "rejected", "at first instantiation"
        except Exception as e:
            return "error", f"instantiation raised {type(e).__name__}: {e!s:.80}"
        ch = [f.name for f in cls.get_child_fields()]
        pr = [f.name for f in cls.get_property_fields()]
        inst.detach_self()
        if ("fld" in ch) + ("fld" in pr) != 1:
            return "error", f"field in {('fld' in ch) + ('fld' in pr)} classes"
        return ("child" if "fld" in ch else "property"), ""
    finally:
        sys.modules.pop(mod.__name__, None)


def run(tier: str = "quick", seed: int = 0) -> dict:
    failures: list[dict] = []
    evals = 0
    distinct: set = set()
    samples: list[Any] = []

    def fail(what, kf=None):
        if len(failures) < 25:
            failures.append({"what": what, "kf": kf, "snippet": "import rt.c11 as c, sys\nr = c.run()\nbad=[f for f in r['failures'] if not f['kf']]\nfor f in bad[:8]: print(f['what'])\nsys.exit(1 if bad else 0)"})

    anns = grammar(2 if tier == "quick" else 3)
    if tier == "quick" and len(anns) > 420:
        anns = anns[:120] + anns[120:: max(1, (len(anns) - 120) // 300)]
    for t in anns:
        ann = render(t)
        want = expected(t)
        modes = [(False, "direct"), (True, "direct"), (False, "inherited"), (True, "overridden"), (False, "overridden-basefirst")]
        if "C11Leaf" in ann:
            modes.append((False, "forward"))
        for postponed, mode in modes:
            evals += 1
            distinct.add((ann, postponed, mode))
            got, detail = classify(ann, postponed, mode, "()" if unwrap(t)[0] in ("tuple", "vtuple") else "None")
            if got == "dependency":
                continue
            if got != want:
                fail(f"annotation `{ann}` ({'postponed' if postponed else 'plain'}, {mode}): classified {got} {detail}, the statement says {want}")
        if len(samples) < 5:
            samples.append({"annotation": ann, "expected": want})
    return {"evaluations": evals, "distinct_nontrivial": len(distinct),
            "rule": f"{len(anns)} annotations from the type grammar (scalars, Any, Literal, Enum, NewType over scalar and over a node class, Optional / Union in both spellings, fixed / variadic / empty tuples, frozenset, Sequence, Mapping, list / dict / set, two node classes) nested to depth {2 if tier == 'quick' else 3}, each compiled up to 6 ways (plain / postponed annotations; direct, inherited, overriding a property field with the subclass or the base used first, a string annotation in a subclass referring to a class defined later); verdict = child / property / rejected (InvalidFieldAnnotations at definition or first instantiation) compared with the statement evaluated on the type model; distinct = (annotation, postponed, mode)",
            "samples": samples, "failures": failures, "bound": "annotation depth 2 (quick) / 3"}
