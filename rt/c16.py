"""Bounded stand-in for C16: serialization options apply to one call only (also after failures)."""
from __future__ import annotations

import itertools
import json
from dataclasses import dataclass
from typing import Any

from mashumaro.types import SerializableType

from pyoak.node import AST_SERIALIZE_DIALECT_KEY, ASTNode, ASTSerializationDialects
from pyoak.origin import SOURCE_OPTIMIZED_SERIALIZATION_KEY
from pyoak.serialize import TYPE_KEY, SerializationOption

from . import models as M


class RtBoom(SerializableType):
    def _serialize(self) -> dict:
        raise RuntimeError("boom")

    @classmethod
    def _deserialize(cls, value: dict) -> "RtBoom":
        raise RuntimeError("boom")


@dataclass(frozen=True)
class RtBoomHolder(ASTNode):
    inner: ASTNode
    boom: RtBoom | None = None
    Zed: int = 1  # capitalised name: sorts before "__type" bytewise? ('Z' < '_')


def _mappings(d: Any, path: str = "$"):
    if isinstance(d, dict):
        yield path, d
        for k, v in d.items():
            yield from _mappings(v, f"{path}.{k}")
    elif isinstance(d, (list, tuple)):
        for i, v in enumerate(d):
            yield from _mappings(v, f"{path}[{i}]")


def run(tier: str = "quick", seed: int = 0) -> dict:
    failures: list[dict] = []
    evals = 0
    distinct: set = set()
    samples: list[Any] = []

    def fail(what: str, snippet: str = "") -> None:
        if len(failures) < 10:
            failures.append({"what": what, "snippet": snippet, "kf": None})

    pool = M.origin_pool()
    trees = [("U", ("L", 1), ("T", (("L", 2), ("F", 0)))), ("T", (("L", 0), ("U", ("S", 1), None))), ("L", 5)]
    if tier != "quick":
        trees += M.all_descs(3)[:40]
    opt_sets = []
    base_opts = [(SerializationOption.SKIP_CLASS, True), (SerializationOption.SORT_KEYS, True),
                 (AST_SERIALIZE_DIALECT_KEY, ASTSerializationDialects.AST_EXPLORER),
                 (AST_SERIALIZE_DIALECT_KEY, ASTSerializationDialects.AST_TEST)]
    for r in range(0, 3):
        for combo in itertools.combinations(base_opts, r):
            if len({k for k, _ in combo}) == len(combo):
                opt_sets.append(dict(combo))

    for ti, desc in enumerate(trees):
        root = M.build(desc, lambda p: pool[(len(p) + ti) % len(pool)])
        holder = RtBoomHolder(root, origin=pool[1])
        default = json.dumps(holder.as_dict())
        default_json = holder.to_json()
        default_yaml = holder.to_yaml()
        default_msg = holder.to_msgpck()

        def check_default(after: str) -> None:
            nonlocal evals
            evals += 1
            if json.dumps(holder.as_dict()) != default:
                fail(f"default as_dict differs after {after} (tree {desc})")
            if holder.to_json() != default_json or holder.to_yaml() != default_yaml or holder.to_msgpck() != default_msg:
                fail(f"default to_json/to_yaml/to_msgpck differs after {after} (tree {desc})")

        # default: every nested mapping that is not {} or an idx reference carries the type tag
        for path, mp in _mappings(json.loads(default)):
            if mp and set(mp) != {"idx"} and TYPE_KEY not in mp:
                fail(f"default output: mapping at {path} lacks the type tag")
        for opts in opt_sets:
            distinct.add((ti, tuple(sorted(str(k) for k in opts))))
            for fmt in ("dict", "json", "yaml", "msgpack"):
                evals += 1
                try:
                    if fmt == "dict":
                        out = holder.as_dict(serialization_options=dict(opts))
                    elif fmt == "json":
                        out = json.loads(holder.to_json(serialization_options=dict(opts)))
                        raw = holder.to_json(serialization_options=dict(opts))
                    elif fmt == "yaml":
                        import yaml
                        out = yaml.safe_load(holder.to_yaml(serialization_options=dict(opts)))
                    else:
                        import msgpack
                        out = msgpack.unpackb(holder.to_msgpck(serialization_options=dict(opts)), raw=False)
                except Exception as e:  # options must never make serialization fail
                    fail(f"{fmt} with {opts} raised {type(e).__name__}: {e}")
                    continue
                ordered = fmt in ("dict", "json", "msgpack")
                for path, mp in _mappings(out):
                    if opts.get(SerializationOption.SKIP_CLASS) and TYPE_KEY in mp and not (path.endswith(".source") and opts.get(AST_SERIALIZE_DIALECT_KEY) == ASTSerializationDialects.AST_TEST):
                        fail(f"{fmt} SKIP_CLASS: type tag at {path}")
                    if opts.get(SerializationOption.SORT_KEYS) and ordered and mp and opts.get(AST_SERIALIZE_DIALECT_KEY) is None:
                        keys = list(mp)
                        if TYPE_KEY in keys and keys[0] != TYPE_KEY:
                            fail(f"{fmt} SORT_KEYS: type tag not first at {path}: {keys}")
                        rest = [k for k in keys if k != TYPE_KEY]
                        if rest != sorted(rest):
                            fail(f"{fmt} SORT_KEYS: keys not sorted at {path}: {keys}")
                    if not opts.get(SerializationOption.SKIP_CLASS) and opts.get(AST_SERIALIZE_DIALECT_KEY) is None and mp and set(mp) != {"idx"} and TYPE_KEY not in mp:
                        fail(f"{fmt} with {opts}: mapping at {path} lacks the type tag")
                if opts.get(AST_SERIALIZE_DIALECT_KEY) == ASTSerializationDialects.AST_EXPLORER and fmt == "dict":
                    if out.get("_children") != ["inner"]:
                        fail(f"explorer dialect: _children of the root is {out.get('_children')}")
                check_default(f"{fmt} with {opts}")
            # a failing serialization with these options
            bad = RtBoomHolder(root, boom=RtBoom(), origin=pool[2])
            for call in ("as_dict", "to_json", "to_yaml", "to_msgpck"):
                evals += 1
                try:
                    getattr(bad, call)(serialization_options=dict(opts))
                    fail(f"{call} of a node with a raising property did not raise")
                except Exception:
                    pass
                check_default(f"failed {call} with {opts}")
            bad.detach_self()
            # a failing deserialization with these options, malformed at several depths
            good = holder.as_dict()
            for depth, mut in enumerate(_malformed(good)):
                evals += 1
                try:
                    RtBoomHolder.as_obj(mut, serialization_options=dict(opts))
                except Exception:
                    pass
                check_default(f"failed as_obj (malformed at variant {depth}) with {opts}")
                try:
                    RtBoomHolder.from_json(json.dumps(mut), serialization_options=dict(opts))
                except Exception:
                    pass
                check_default(f"failed from_json (variant {depth}) with {opts}")
        # index-based sources
        evals += 1
        d_idx = holder.as_dict(serialization_options={SOURCE_OPTIMIZED_SERIALIZATION_KEY: True})
        srcs = [mp for p, mp in _mappings(d_idx) if p.endswith(".source") or ".sources[" in p]
        if any(mp and set(mp) != {"idx"} for mp in srcs if mp):
            fail("index-based source option: a source was serialized in full")
        check_default("index-based sources")
        samples.append({"tree": str(desc), "options": [str(o) for o in opt_sets[:3]]})
        M.detach_all(holder)
    return {"evaluations": evals, "distinct_nontrivial": len(distinct),
            "rule": "every subset (size <= 2) of {SKIP_CLASS, SORT_KEYS, explorer, test dialect} x 4 formats x model trees; after every successful call, every failing serialization (property raising) and every failing deserialization (malformed at 3 depths) the default output of all formats is compared with the baseline; distinct = (tree, option set)",
            "samples": samples, "failures": failures, "bound": f"{len(trees)} trees, option subsets of size <= 2"}


def _malformed(d: dict):
    import copy
    a = copy.deepcopy(d)
    a.pop("id", None)
    yield a
    b = copy.deepcopy(d)
    if isinstance(b.get("inner"), dict):
        b["inner"].pop("id", None)
        b["inner"][TYPE_KEY] = "NoSuchClass"
    yield b
    c = copy.deepcopy(d)
    if isinstance(c.get("origin"), dict):
        c["origin"]["position"] = {"__type": "CodeRange", "start": 5}
    yield c
