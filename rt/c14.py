"""Bounded stand-in for C14: duplicate and replace produce faithful, independent copies."""
from __future__ import annotations

import dataclasses
from typing import Any

from pyoak.node import ASTNode

from . import models as M


def props_of(n: ASTNode) -> dict:
    return {f.name: object.__getattribute__(n, f.name) for f in dataclasses.fields(n)
            if f.name not in ("id", "content_id") and not isinstance(object.__getattribute__(n, f.name), (ASTNode, tuple)) or
            (isinstance(object.__getattribute__(n, f.name), tuple) and not any(isinstance(x, ASTNode) for x in object.__getattribute__(n, f.name)) and f.name not in ("id", "content_id"))}


def check_duplicate(root: ASTNode, ctx: str) -> list[str]:
    errs = []
    orig_nodes = M.ref_nodes(root)
    reg_before = {n.id for n in orig_nodes if ASTNode.get_any(n.id) is n}
    d = root.duplicate()
    dn = M.ref_nodes(d)
    if len(dn) != len(orig_nodes):
        return [f"{ctx}: duplicate has {len(dn)} positions, original {len(orig_nodes)}"]
    if not (d == root and root == d):
        errs.append(f"{ctx}: duplicate != original")
    orig_ids = {id(n) for n in orig_nodes}
    for i, (a, b) in enumerate(zip(orig_nodes, dn)):
        if id(b) in orig_ids:
            errs.append(f"{ctx}: position {i} of the duplicate is an object of the original")
        if type(a) is not type(b) or a.content_id != b.content_id or a.origin != b.origin or props_of(a) != props_of(b):
            errs.append(f"{ctx}: position {i}: class / content_id / origin / property values differ ({props_of(a)} vs {props_of(b)})")
        if ASTNode.get_any(b.id) is not b:
            errs.append(f"{ctx}: position {i} of the duplicate is not registered")
        if b.id in reg_before:
            errs.append(f"{ctx}: position {i} of the duplicate uses the id of a registered node of the original")
    M.detach_all(d)
    return errs


def run(tier: str = "quick", seed: int = 0) -> dict:
    failures: list[dict] = []
    evals = 0
    distinct: set = set()
    samples: list[Any] = []
    pool = M.origin_pool()
    maxn = 4 if tier == "quick" else 5

    def fail(what):
        if len(failures) < 10:
            failures.append({"what": what, "kf": None, "snippet": "import rt.c14 as c, sys\nr = c.run()\nfor f in r['failures'][:5]: print(f['what'])\nsys.exit(1 if r['failures'] else 0)"})

    descs = M.all_descs(maxn)
    if tier == "quick":
        descs = descs[::3]
    for desc in descs:
        evals += 1
        distinct.add(("dup", str(desc)))
        root = M.build(desc, lambda p: pool[(len(p) * 2 + 1) % len(pool)])
        for e in check_duplicate(root, f"duplicate of {desc}"):
            fail(e)
        root.detach()
        for e in check_duplicate(root, f"duplicate of detached {desc}"):
            fail(e)
    # shared subtree, non-comparable and non-init properties, twins with the same id at two positions
    leaf = M.RtLeaf(1, "s", tag="shared")
    shared = M.RtList((leaf, M.RtUnary(leaf, None, name="u"), M.RtProps(i=3, nc=5, t=(1, 2), o=("a", 1))))
    evals += 1
    for e in check_duplicate(shared, "duplicate of a tree with a shared leaf and RtProps"):
        fail(e)
    M.detach_all(shared)
    for depth in (0, 1):
        evals += 1
        distinct.add(("twins", depth))
        x = M.RtLeaf(4, "q", tag="old", origin=pool[1])
        x.detach_self()
        y = M.RtLeaf(4, "q", tag="new", origin=pool[1])  # re-uses x's id
        a, b = (x, y) if depth == 0 else (M.RtUnary(x, origin=pool[2]), M.RtUnary(y, origin=pool[2]))
        holder = M.RtList((a, b))
        for e in check_duplicate(holder, f"duplicate of a tree holding a detached node and its later twin (same id, different non-comparable tag), depth {depth}"):
            fail(e)
        M.detach_all(holder)
    # replace / dataclasses.replace
    cases = [("v", lambda n: {"v": n.v + 1}), ("tag", lambda n: {"tag": n.tag + "!"}), ("two", lambda n: {"v": n.v + 2, "s": "z"}), ("none", lambda n: {})]
    for registered in (True, False):
        for twins in (0, 1, 2):
            for which in range(twins + 1):
                for cname, ch in cases:
                    evals += 1
                    distinct.add(("replace", registered, twins, which, cname))
                    group = [M.RtLeaf(9, "rp", tag="t", origin=pool[1]) for _ in range(twins + 1)]
                    target = group[which]
                    if not registered:
                        target.detach_self()
                    changes = ch(target)
                    new = target.replace(**changes)
                    ctx = f"replace({cname}) registered={registered} twins={twins} target#{which}"
                    if type(new) is not type(target) or new is target:
                        fail(f"{ctx}: wrong class / same object")
                    for f in dataclasses.fields(target):
                        if not f.init:
                            continue
                        want = changes.get(f.name, object.__getattribute__(target, f.name))
                        got = object.__getattribute__(new, f.name)
                        if f.name in changes and got != want or f.name not in changes and got is not want:
                            fail(f"{ctx}: field {f.name} is {got!r}, expected {want!r} (identical object for unchanged fields)")
                    if ASTNode.get_any(target.id) is target:
                        fail(f"{ctx}: the original is still registered")
                    if ASTNode.get_any(new.id) is not new:
                        fail(f"{ctx}: the new node is not registered")
                    new_id = new.id
                    new.detach_self()
                    fresh = M.RtLeaf(**{"v": target.v, "s": target.s, "tag": target.tag, "origin": target.origin, **changes})
                    if fresh.id != new_id:
                        fail(f"{ctx}: new id {new_id}, a fresh construction with the original absent gets {fresh.id}")
                    fresh.detach_self()
                    for g in group:
                        g.detach_self()
    for twins in (0, 1):
        evals += 1
        group = [M.RtLeaf(11, "dc", origin=pool[2]) for _ in range(twins + 1)]
        o = group[0]
        n = dataclasses.replace(o, tag="x")
        if ASTNode.get_any(o.id) is not o or n.id == o.id or ASTNode.get_any(n.id) is not n or n.v != o.v or n.s is not o.s:
            fail(f"dataclasses.replace (twins={twins}): original must stay registered and the copy must get a different id")
        n.detach_self()
        for g in group:
            g.detach_self()
    samples.append({"duplicate": str(descs[3]) if len(descs) > 3 else "", "replace_case": "registered original with 2 twins, non-comparable change"})
    return {"evaluations": evals, "distinct_nontrivial": len(distinct),
            "rule": f"duplicate on model trees <= {maxn} nodes (registered and detached), shared leaves, non-comparable / non-init properties, detached-node-plus-twin trees; replace with 4 change sets x registered/detached x 0-2 twins x each twin as target, the new id compared with a fresh construction made while original and new node are absent; dataclasses.replace; distinct = case tuples",
            "samples": samples, "failures": failures, "bound": f"trees <= {maxn} nodes"}
