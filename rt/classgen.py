"""Generated families of node class hierarchies (for C11 / C12): 1-3 levels, multiple inheritance,
every child / property shape, overrides, init=False, compare=False, kw_only.

The expected field layout (effective order, child vs property, tuple vs single, flags) is computed
here from the *spec*, by the documented dataclass rule (fields of the bases in reversed MRO order,
an overriding field keeps its original slot), never by asking pyoak."""
from __future__ import annotations

import itertools
from dataclasses import dataclass, field
from typing import Any

_counter = itertools.count()

CHILD_KINDS = {
    "C": ("G12Leaf", False), "O": ("G12Leaf | None", False), "U": ("G12Leaf | G12Other | None", False),
    "T": ("tuple[G12Leaf, ...]", True), "X": ("tuple[G12Leaf, G12Other]", True), "TU": ("tuple[G12Leaf | G12Other, ...]", True),
    "A": ("ASTNode", False),
}
PROP_KINDS = {"i": ("int", "0"), "s": ("str", "''"), "oi": ("int | None", "None"), "ti": ("tuple[int, ...]", "()"),
              "b": ("bool", "False"), "any": ("Any", "None")}


@dataclass
class FSpec:
    name: str
    kind: str
    init: bool = True
    compare: bool = True
    kw_only: bool = False
    default: bool = True

    @property
    def is_child(self) -> bool:
        return self.kind in CHILD_KINDS

    @property
    def is_tuple(self) -> bool:
        return self.is_child and CHILD_KINDS[self.kind][1]


@dataclass
class GenClass:
    cls: type
    name: str
    fields: list[FSpec]  # effective, in dataclasses.fields order, WITHOUT id/content_id/origin
    source: str
    bases: list[str]
    hierarchy: int

    @property
    def child_fields(self) -> list[FSpec]:
        return [f for f in self.fields if f.is_child]

    @property
    def prop_fields(self) -> list[FSpec]:
        return [f for f in self.fields if not f.is_child]


def _field_src(f: FSpec) -> str:
    if f.is_child:
        ann = CHILD_KINDS[f.kind][0]
        dflt = "()" if f.kind in ("T", "TU") else ("None" if f.kind in ("O", "U") else None)
    else:
        ann, dflt = PROP_KINDS[f.kind]
    args = []
    if f.default and dflt is not None:
        args.append(f"default={dflt}")
    elif not f.init:
        args.append("default=None" if dflt is None else f"default={dflt}")
    if not f.init:
        args.append("init=False")
    if not f.compare:
        args.append("compare=False")
    if f.kw_only:
        args.append("kw_only=True")
    if args:
        return f"    {f.name}: {ann} = field({', '.join(args)})"
    return f"    {f.name}: {ann}"


PRELUDE = """
from dataclasses import dataclass, field
from typing import Any
from pyoak.node import ASTNode

@dataclass(frozen=True)
class G12Leaf(ASTNode):
    v: int = 0

@dataclass(frozen=True)
class G12Other(ASTNode):
    w: str = ""

@dataclass(frozen=True)
class G12Falsy(G12Leaf):
    def __len__(self):
        return 0
"""

_NS: dict[str, Any] = {}


def namespace() -> dict[str, Any]:
    if not _NS:
        import sys
        import types
        mod = types.ModuleType("rt.classgen_ns")
        sys.modules["rt.classgen_ns"] = mod
        _NS["mod"] = mod
        exec(PRELUDE, mod.__dict__)
    return _NS["mod"].__dict__


def _define_raw(levels: list[list[FSpec]], hierarchy: int, second_base: list[FSpec] | None = None) -> list[GenClass]:
    """Defines a chain of classes (one per level); optionally the last level also inherits from a
    separate base holding `second_base` fields (multiple inheritance)."""
    ns = namespace()
    out: list[GenClass] = []
    prev_name = "ASTNode"
    effective: dict[str, FSpec] = {}
    extra_base: GenClass | None = None
    if second_base is not None:
        n = f"G12B{next(_counter)}"
        src = f"@dataclass(frozen=True)\nclass {n}(ASTNode):\n" + ("\n".join(_field_src(f) for f in second_base) or "    pass") + "\n"
        exec(src, ns)
        extra_base = GenClass(ns[n], n, list(second_base), src, ["ASTNode"], hierarchy)
        out.append(extra_base)
    for li, lvl in enumerate(levels):
        n = f"G12K{next(_counter)}"
        bases = [prev_name]
        last = li == len(levels) - 1
        if last and extra_base is not None:
            bases.append(extra_base.name)
        body = "\n".join(_field_src(f) for f in lvl) or "    pass"
        src = f"@dataclass(frozen=True)\nclass {n}({', '.join(bases)}):\n{body}\n"
        exec(src, ns)
        if last and extra_base is not None:
            # dataclass rule: bases are processed in reversed MRO order: second base first, then the chain
            eff: dict[str, FSpec] = {}
            for f in extra_base.fields:
                eff[f.name] = f
            for k, f in effective.items():
                eff[k] = f
            effective = eff
        effective = dict(effective)
        for f in lvl:
            effective[f.name] = f  # an override keeps its slot (dict update), a new field is appended
        out.append(GenClass(ns[n], n, list(effective.values()), src, bases, hierarchy))
        prev_name = n
    return out


def family(tier: str = "quick") -> list[list[GenClass]]:
    """List of hierarchies (each a list of classes, base first)."""
    global define
    _define = _define_raw

    def define(*a, **k):  # combinations dataclasses itself rejects (default ordering) are skipped
        try:
            return _define(*a, **k)
        except TypeError:
            return []
    F = FSpec
    level_sets: list[list[FSpec]] = [
        [],
        [F("a", "C", default=False)],
        [F("items", "T")],
        [F("opt", "O"), F("n", "i", compare=False)],
        [F("u", "U"), F("pair", "X", default=False, kw_only=True)],
        [F("zz", "T"), F("aa", "O"), F("mm", "TU")],
        [F("p", "i"), F("q", "s", init=False), F("r", "oi", compare=False), F("t", "ti", init=False, compare=False)],
        [F("k", "i", kw_only=True), F("c2", "O", kw_only=True)],
        [F("any_child", "A", default=False, kw_only=True), F("flag", "b")],
        [F("b1", "O"), F("b0", "O"), F("x9", "s", compare=False), F("x1", "any")],
    ]
    overrides: list[list[FSpec]] = [
        [F("opt", "T")],                 # single -> tuple override
        [F("items", "O")],               # tuple -> single override
        [F("n", "s")],                   # property override, flags change
        [F("p", "i", compare=False), F("extra", "O")],
        [F("aa", "i")],                  # child -> property override
    ]
    hs: list[list[GenClass]] = []
    h = 0
    class _L(list):
        def append(self, x):
            if x:
                super().append(x)
    hs = _L()
    for ls in level_sets:
        hs.append(define([ls], h)); h += 1
    pairs = list(itertools.product(range(1, len(level_sets)), repeat=2))
    if tier == "quick":
        pairs = pairs[::5]
    for i, j in pairs:
        if i == j:
            continue
        l1, l2 = level_sets[i], level_sets[j]
        if {f.name for f in l1} & {f.name for f in l2}:
            continue
        if any(not f.default and f.init and not f.kw_only for f in l2) and any(f.default and f.init and not f.kw_only for f in l1):
            continue
        hs.append(define([l1, l2], h)); h += 1
    for base_i, ov in ((3, overrides[0]), (2, overrides[1]), (3, overrides[2]), (6, overrides[3]), (5, overrides[4])):
        hs.append(define([level_sets[base_i], ov], h)); h += 1
        hs.append(define([level_sets[base_i], [], ov], h)); h += 1
    # three levels, and field-less subclasses
    hs.append(define([level_sets[1], level_sets[2], level_sets[3]], h)); h += 1
    hs.append(define([level_sets[5], [], []], h)); h += 1
    # multiple inheritance: chain + a second node base; the combined class may have no fields of its own
    hs.append(define([level_sets[3], []], h, second_base=level_sets[2])); h += 1
    hs.append(define([level_sets[1], [F("own", "i")]], h, second_base=level_sets[5])); h += 1
    hs.append(define([[F("left", "O")], []], h, second_base=[F("items", "T")])); h += 1
    if tier != "quick":
        for i, j, k in itertools.islice(itertools.permutations(range(1, len(level_sets)), 3), 0, 200, 7):
            l1, l2, l3 = level_sets[i], level_sets[j], level_sets[k]
            names = [f.name for l in (l1, l2, l3) for f in l]
            if len(names) != len(set(names)):
                continue
            if any(not f.default and f.init and not f.kw_only for f in l2 + l3):
                continue
            hs.append(define([l1, l2, l3], h)); h += 1
    return hs


def instance(gc: GenClass, variant: int = 0) -> Any:
    """Builds an instance with children of every shape; variant selects empty tuples / absent optionals / falsy children."""
    ns = namespace()
    Leaf, Other, Falsy = ns["G12Leaf"], ns["G12Other"], ns["G12Falsy"]
    kw: dict[str, Any] = {}
    c = itertools.count(1)
    for f in gc.fields:
        if not f.init:
            continue
        if f.is_child:
            if f.kind in ("C", "A"):
                kw[f.name] = Falsy(next(c)) if variant == 2 else Leaf(next(c))
            elif f.kind in ("O", "U"):
                kw[f.name] = None if variant == 1 else (Falsy(next(c)) if variant == 2 else (Other(str(next(c))) if f.kind == "U" else Leaf(next(c))))
            elif f.kind == "T":
                kw[f.name] = () if variant == 1 else tuple(Leaf(next(c)) for _ in range(2 + variant))
            elif f.kind == "TU":
                kw[f.name] = () if variant == 1 else (Leaf(next(c)), Other(str(next(c))), Falsy(next(c)))
            elif f.kind == "X":
                kw[f.name] = (Leaf(next(c)), Other(str(next(c))))
        else:
            kw[f.name] = {"i": 5 + variant, "s": f"s{variant}", "oi": None if variant == 1 else 3, "ti": (1, 2), "b": True, "any": "x"}[f.kind]
    return gc.cls(**kw)
