import importlib, sys
sys.path.insert(0,'/verif')
from pyvc.props import PROPS
seen=set()
for pid, sp in PROPS.items():
    for a in sp.get('areas', []):
        if a in seen: continue
        seen.add(a)
        world, lib, reg, lemmas = importlib.import_module(a).build()
        by_fn={}
        for c in reg.all(): by_fn.setdefault(c.fn, []).append(c)
        for fn, cs in by_fn.items():
            tr=[c for c in cs if c.trusted]; pr=[c for c in cs if not c.trusted]
            for t in tr:
                if not pr: continue
                allens=set(); allreq=set(); allraise=set(); mayraise=set()
                for p in pr:
                    allens |= set(p.ensures); allreq |= set(p.requires); allraise |= {str(x) for x in p.raises}; mayraise |= set(p.may_raise)
                extra=[e for e in t.ensures if e not in allens]
                missreq=[r for p in pr for r in p.requires if r not in t.requires]
                if extra or missreq:
                    print(a, t.key); 
                    for e in extra: print("    trusted ensures not literally among the proved ones:", e[:150])
                    for r in sorted(set(missreq)): print("    proved requires not asked by the summary:", r[:150])
print("done")
