import importlib, sys
sys.path.insert(0,'/verif')
from pyvc.props import PROPS
seen=set()
all_lemmas=set(); proved_fns=set(); trusted=[]
per_area={}
for pid, sp in PROPS.items():
    for a in sp.get('areas', []):
        if a in seen: continue
        seen.add(a)
        world, lib, reg, lemmas = importlib.import_module(a).build()
        names={l.name for l in lemmas}
        all_lemmas |= names
        rules=set()
        for f in lib.fns.values():
            for r in f.rules:
                if r.kind=="lemma": rules.add(r.name)
        per_area[a]=(names, rules, lemmas, lib)
        for c in reg.all():
            if c.trusted: trusted.append((a,c.key,c.fn,c.trusted_reason))
            else: proved_fns.add(c.fn)
for a,(names,rules,lemmas,lib) in per_area.items():
    miss = rules - names
    if miss: print("AREA", a, "lemma rules without a Lemma of that name in the area:", sorted(miss), " (elsewhere:", sorted(miss & all_lemmas), ")")
    # uses graph cycles
    g={l.name:set(l.uses) for l in lemmas}
    def cyc(n, path):
        for u in g.get(n,()):
            if u in path: print("CYCLE", a, path+[u]); return
            cyc(u, path+[u])
    for n in g: cyc(n,[n])
    for l in lemmas:
        for u in l.uses:
            if u not in names and u not in rules: print("USES unknown", a, l.name, u)
    for ex in lib.extra_instantiators:
        enc=getattr(ex,'encodes',None)
        if enc and not set(enc) <= names: print("ENCODES unknown", a, enc)
for a,k,fn,why in trusted:
    if 'proved' in (why or '') and fn not in proved_fns:
        print("TRUSTED-as-proved but no proved contract for", fn, "in", a, "|", why[:80])
print("done")
