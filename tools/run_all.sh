#!/bin/sh
# Runs every claimed quick check on the unchanged tree and validates manifest + evidence.
cd /verif
[ -z "$(git -C /repo status --short)" ] || { echo "/repo is dirty"; exit 9; }
ids=$(.venv/bin/python -c "import json;print(' '.join(c['property_id'] for c in json.load(open('MANIFEST.json'))['checks']))")
bad=0
for id in $ids; do
  ./vp check $id > /tmp/runall_$id.log 2>&1; rc=$?
  tail -1 /tmp/runall_$id.log | cut -c1-200
  [ $rc -eq 0 ] || { echo "  !! rc=$rc"; grep -E "VIOLATION|UNDECIDED|CRASH" /tmp/runall_$id.log | head -5; bad=1; }
  rm -f /tmp/runall_$id.log
done
./vp validate | grep -v "^ok" ; echo "validated"; exit $bad
