#!/usr/bin/env python3
"""For every seeded change: what does the *proof* part of ALL properties' checks say (ignoring the bounded run)?
usage: /verif/.venv/bin/python tools/seed_proof_status.py [seed-id ...]"""
import glob, importlib, json, os, subprocess, sys
sys.path.insert(0, "/verif")


def one() -> None:
    from pyvc.check import run_proofs
    from pyvc.props import PROPS
    areas = []
    for spec in PROPS.values():
        for a in spec.get("areas", []):
            if a not in areas:
                areas.append(a)
    customs = [spec["custom"] for spec in PROPS.values() if spec.get("custom")]
    only = set(filter(None, os.environ.get("SEED_MODULES", "").split(",")))
    if only:
        # a contract is verified against the source of its own function only (callees enter through their contracts), so a change confined to some
        # modules can only alter the verdicts of contracts on functions of those modules; lemmas do not read source at all
        import multiprocessing as mp
        from pyvc import check as C
        tasks, _ = C.list_tasks(areas, None, 20000)
        keep = []
        for t in tasks:
            if t[0] != "fn":
                continue
            world, lib, reg, lem = C._area(t[1])
            if reg.contracts[t[2]].fn.split(":")[0] in only:
                keep.append(t)
        with mp.get_context("fork").Pool(min(16, max(1, len(keep)))) as pool:
            results = pool.map(C._work, keep, chunksize=1) if keep else []
    else:
        results, _ = run_proofs(areas, None, 20000)
    for c in customs:
        results += importlib.import_module(c).run_custom("quick")
    bad = []
    for r in results:
        if r["status"] != "ok":
            bad.append(f"{r['key']}: {r['status']}: {str(r['error'])[:160]}")
        for o in r["obligations"]:
            if o["status"] != "discharged":
                bad.append(f"{o['name']}: {o['status']}")
    print("RESULT " + json.dumps(sorted(set(bad))))


if sys.argv[1:2] == ["--one"]:
    one()
    sys.exit(0)
ids = sys.argv[1:] or [os.path.basename(d) for d in sorted(glob.glob("/verif/seeded/*-[a-z]"))]
assert subprocess.run(["git", "-C", "/repo", "status", "--short"], capture_output=True, text=True).stdout.strip() == "", "/repo dirty"
path = "/verif/seeded/PROOF_STATUS.json"
out = json.load(open(path)) if os.path.exists(path) and sys.argv[1:] else {}
if sys.argv[1:] and "(unchanged)" in out:
    pass
for sid in ["(unchanged)"] + ids:
    if sid != "(unchanged)":
        subprocess.run(["git", "-C", "/repo", "apply", f"/verif/seeded/{sid}/patch.diff"], check=True)
    mods = ""
    if sid != "(unchanged)" and not os.environ.get("SEED_FULL"):
        import re
        files = re.findall(r"^\+\+\+ b/src/(\S+)\.py", open(f"/verif/seeded/{sid}/patch.diff").read(), re.M)
        mods = ",".join(f.replace("/", ".") for f in files)
    try:
        p = subprocess.run([sys.executable, __file__, "--one"], capture_output=True, text=True, cwd="/verif", env=dict(os.environ, SEED_MODULES=mods))
    finally:
        subprocess.run(["git", "-C", "/repo", "checkout", "--", "."])
    line = [l for l in p.stdout.split("\n") if l.startswith("RESULT ")]
    bad = json.loads(line[0][7:]) if line else ["CRASH " + p.stderr[-300:]]
    out[sid] = bad
    print(sid, len(bad))
    for b in bad[:8]:
        print("    ", b)
json.dump(out, open(path, "w"), indent=1)
