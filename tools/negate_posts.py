#!/usr/bin/env python3
"""Vacuity self-test of the function contracts: every postcondition is replaced by its negation and the function is verified again.
A clause and its negation cannot both be provable on a reachable normal exit, so a negated clause that is *discharged on every path* points at
contradictory assumptions on those paths (a hook that assumes too much, an over-strong precondition, a loop invariant that is false), i.e. at a
vacuous proof of the original.  usage: /verif/.venv/bin/python tools/negate_posts.py [-j 16] [substring]"""
import copy, importlib, json, multiprocessing as mp, sys
sys.path.insert(0, "/verif")


def work(job):
    # one clause at a time: a checked goal is assumed for the checks that follow it on the path, so negating several at once would poison the later ones
    area, key, i = job
    from pyvc.verify import verify_function
    world, lib, reg, lem = importlib.import_module(area).build()
    c = reg.contracts[key]
    c2 = copy.copy(c)
    c2.ensures = [f"not ({e})" if j == i else e for j, e in enumerate(c.ensures)]
    try:
        r = verify_function(world, lib, c2)
    except Exception as e:
        return area, key, i, {"error": f"{type(e).__name__}: {e}"[:200]}
    if r.status != "ok":
        return area, key, i, {"error": f"{r.status}: {r.error}"[:200]}
    sts = [o.status for o in r.obligations if f"/post[{i}]" in o.name]
    return area, key, i, {"clause": c.ensures[i], "paths": len(sts), "suspicious": bool(sts) and all(s == "discharged" for s in sts)}


def main():
    from pyvc.props import PROPS
    only = [a for a in sys.argv[1:] if not a.startswith("-") and not a.isdigit()]
    n = int(sys.argv[sys.argv.index("-j") + 1]) if "-j" in sys.argv else 16
    jobs, seen = [], set()
    for spec in PROPS.values():
        for a in spec.get("areas", []):
            if a in seen:
                continue
            seen.add(a)
            world, lib, reg, lem = importlib.import_module(a).build()
            for c in reg.all():
                if not c.trusted and c.ensures and (not only or any(o in c.key for o in only)):
                    jobs += [(a, c.key, i) for i in range(len(c.ensures))]
    with mp.get_context("fork").Pool(n) as pool:
        res = pool.map(work, jobs, chunksize=1)
    out = {}
    for a, k, i, r in res:
        out[f"{a}:{k}:post[{i}]"] = r
        if r.get("suspicious") or r.get("error"):
            print(a, k, i, json.dumps(r)[:400], flush=True)
    json.dump(out, open("/verif/tools/negate_posts_report.json", "w"), indent=1)
    print("clauses:", len(res), "negation discharged on every path:", sum(1 for *_, r in res if r.get("suspicious")), "errors:", sum(1 for *_, r in res if r.get("error")))


if __name__ == "__main__":
    main()
