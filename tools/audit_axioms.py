import importlib, sys, z3
sys.path.insert(0,'/verif')
from pyvc.props import PROPS
seen=set()
for pid, sp in PROPS.items():
    for a in sp.get('areas', []):
        if a in seen: continue
        seen.add(a)
        world, lib, reg, lemmas = importlib.import_module(a).build()
        s=z3.Solver(); s.set("timeout", 5000)
        for ax in world.axioms: s.add(ax)
        r=s.check()
        print(a, len(world.axioms), r)
