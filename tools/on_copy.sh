#!/bin/sh
# tools/on_copy.sh <patch.diff> <ids...>: run the quick checks of the given properties on a scratch copy of /repo/src with the patch applied
# (/repo itself is not touched, evidence / replays go to the scratch directory); prints "<id> rc=<n>" and the verdict lines for rc != 0
P=$1; shift
W=$(mktemp -d /tmp/vcopy.XXXXXX)
cp -r /repo/src $W/src
( cd $W && patch -p1 -s < $P ) || { echo "patch does not apply"; rm -rf $W; exit 9; }
for id in "$@"; do
  VERIF_REPO_ROOT=$W VERIF_OUT=$W/out /verif/vp check $id > $W/out.txt 2>&1; rc=$?
  echo "$(basename $(dirname $P))/$(basename $P) $id rc=$rc"
  [ $rc -ne 0 ] && grep -E "VIOLATION|UNDECIDED|CRASH" $W/out.txt | cut -c1-220 | head -4
done
rm -rf $W
