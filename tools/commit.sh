#!/bin/sh
# tools/commit.sh "<message>": regenerate lock + manifest, run every quick check on the clean tree, commit only if all exit 0
cd /verif || exit 1
[ -z "$(git -C /repo status --short)" ] || { echo "/repo is dirty"; exit 1; }
./vp lock | tail -1
.venv/bin/python tools/gen_manifest.py > /dev/null 2>&1
tools/run_all.sh > /tmp/run_all.log 2>&1
if grep -q '!! rc=' /tmp/run_all.log || ! grep -q '^validated' /tmp/run_all.log; then
  grep -B1 -A3 '!! rc=' /tmp/run_all.log | head -40; echo "NOT COMMITTED"; exit 1
fi
git add -A && git commit -qm "$1" && echo "committed: $1"
