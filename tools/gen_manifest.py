#!/usr/bin/env python3
"""Regenerates MANIFEST.json from pyvc/props.py (claimed checks) + the list of all property ids."""
import json, os, sys
ROOT = os.path.dirname(os.path.dirname(os.path.abspath(__file__)))
sys.path.insert(0, ROOT)
from pyvc.props import PROPS, NOT_APPLICABLE  # noqa: E402
ids = [json.loads(l)["id"] for l in open(f"{ROOT}/properties.jsonl")]
checks = []
for i in ids:
    if i not in PROPS:
        continue
    p = PROPS[i]
    checks.append({
        "property_id": i, "quick_cmd": f"./vp check {i} --tier quick", "thorough_cmd": f"./vp check {i} --tier thorough",
        "evidence_file": f"/verif/evidence/{i}.json", "replay_cmd_template": "./vp replay {path}",
        "engine": "pyvc" + ("+rt" if p.get("rt") else ""),
        "level_claimed": {"category": p["level"], "text": p["level_text"], "design_ref": p.get("design_ref", "DESIGN.md section 4 " + i)},
        "level_note": p["level_note"], "technique": p["technique"]})
m = {"version": 1, "setup_cmd": "./setup.sh",
     "hooks": {"guard": "PYOAK_VERIF", "enable": "not used - no source hooks; contracts are sidecars under /verif/contracts, generated code is captured by shadowing exec from the checker process",
               "baseline_off_cmd": "cd /repo && /venv/bin/python -m pytest -ra -q -p no:cacheprovider --timeout=900 --continue-on-collection-errors",
               "source_commits": [], "add_only": True},
     "engines": [
         {"name": "pyvc", "path": "/verif/pyvc", "serves_properties": [i for i in ids if i in PROPS and PROPS[i].get("areas")],
          "kind_free_text": "contract-based deductive verifier for the Python subset pyoak uses: sidecar contracts, forward symbolic execution of the real functions re-extracted from /repo on every run, loop invariants, generator-side instantiation of recursive spec functions, z3 5.1.0 with cvc5 fallback"},
         {"name": "rt", "path": "/verif/rt", "serves_properties": [i for i in ids if i in PROPS and PROPS[i].get("rt")],
          "kind_free_text": "bounded stand-in and replay engine: native small-scope enumeration against independent reference oracles written from the property statements; labelled bounded, never counted as proved"}],
     "checks": checks,
     "not_applicable": [{"property_id": i, "reason": NOT_APPLICABLE.get(i, "check not built yet (build in progress, see DESIGN.md section 10)")} for i in ids if i not in PROPS],
     "notes": "fix: commits in /repo and open findings are listed in /verif/known_findings.json; seeded changes used to test the machinery are under /verif/seeded."}
json.dump(m, open(f"{ROOT}/MANIFEST.json", "w"), indent=1)
print("checks:", [c["property_id"] for c in checks])
