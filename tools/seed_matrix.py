#!/usr/bin/env python3
"""Runs every seeded change against the check of the property it breaks and records how it was detected."""
import glob, json, os, re, shutil, subprocess, sys, tempfile
ROOT = "/verif"
out = {}
bk = tempfile.mkdtemp()
shutil.copytree(f"{ROOT}/evidence", f"{bk}/evidence")
assert subprocess.run(["git", "-C", "/repo", "status", "--short"], capture_output=True, text=True).stdout.strip() == "", "/repo dirty"
for d in sorted(glob.glob(f"{ROOT}/seeded/*-[a-z]")):
    sid = os.path.basename(d)
    prop = sid.split("-")[0]
    a = subprocess.run(["git", "-C", "/repo", "apply", f"{d}/patch.diff"], capture_output=True, text=True)
    if a.returncode != 0:
        out[sid] = {"applies": False, "err": a.stderr[-200:]}
        print(sid, "PATCH DOES NOT APPLY")
        continue
    shutil.rmtree(f"{ROOT}/replays", ignore_errors=True)
    p = subprocess.run([f"{ROOT}/vp", "check", prop], capture_output=True, text=True)
    subprocess.run(["git", "-C", "/repo", "checkout", "--", "."])
    viol = [l for l in p.stdout.split("\n") if l.startswith("VIOLATION")]
    kinds, obls = set(), set()
    for f in glob.glob(f"{ROOT}/replays/*.json"):
        j = json.load(open(f))
        kinds.add(j.get("kind"))
        if j.get("kind") == "failed-obligation":
            obls.add(j.get("obligation"))
    und = [l for l in p.stdout.split("\n") if l.startswith("UNDECIDED")]
    out[sid] = {"applies": True, "rc": p.returncode, "violations": len(viol), "by": sorted(k for k in kinds if k), "obligations": sorted(obls)[:6],
                "no_failing_input": any("no-failing-input-found" in v for v in viol), "undecided": [u[:160] for u in und][:3]}
    print(sid, "rc", p.returncode, sorted(k for k in kinds if k), sorted(obls)[:2])
    m = json.load(open(f"{d}/meta.json"))
    m["detected_by"] = {"check": f"./vp check {prop}", "exit": p.returncode, "how": sorted(k for k in kinds if k), "failed_obligations": sorted(obls)[:6]}
    json.dump(m, open(f"{d}/meta.json", "w"), indent=1)
shutil.rmtree(f"{ROOT}/evidence"); shutil.copytree(f"{bk}/evidence", f"{ROOT}/evidence"); shutil.rmtree(bk)
json.dump(out, open(f"{ROOT}/seeded/MATRIX.json", "w"), indent=1)
print("detected:", sum(1 for v in out.values() if v.get("rc") == 1), "of", len(out))
