#!/usr/bin/env python3
"""Runs every seeded change against the check of the property it breaks and records how it was detected.
Each change is applied to a scratch copy of /repo/src (VERIF_REPO_ROOT / VERIF_OUT), never to /repo.   usage: seed_matrix.py [-j N]"""
import glob, json, os, shutil, subprocess, sys, tempfile
from concurrent.futures import ThreadPoolExecutor
ROOT = "/verif"


def one(d):
    sid = os.path.basename(d)
    prop = sid.split("-")[0]
    w = tempfile.mkdtemp(prefix="vseed.")
    try:
        shutil.copytree("/repo/src", f"{w}/src")
        a = subprocess.run(["patch", "-p1", "-s", "-i", f"{d}/patch.diff"], cwd=w, capture_output=True, text=True)
        if a.returncode != 0:
            return sid, {"applies": False, "err": (a.stdout + a.stderr)[-200:]}
        env = dict(os.environ, VERIF_REPO_ROOT=w, VERIF_OUT=f"{w}/out")
        p = subprocess.run([f"{ROOT}/vp", "check", prop], capture_output=True, text=True, env=env)
        viol = [l for l in p.stdout.split("\n") if l.startswith("VIOLATION")]
        kinds, obls = set(), set()
        for f in glob.glob(f"{w}/out/replays/*.json"):
            j = json.load(open(f))
            kinds.add(j.get("kind"))
            if j.get("kind") == "failed-obligation":
                obls.add(j.get("obligation"))
        und = [l for l in p.stdout.split("\n") if l.startswith("UNDECIDED")]
        return sid, {"applies": True, "rc": p.returncode, "violations": len(viol), "by": sorted(k for k in kinds if k), "obligations": sorted(obls)[:6],
                     "no_failing_input": any("no-failing-input-found" in v for v in viol), "undecided": [u[:160] for u in und][:3]}
    finally:
        shutil.rmtree(w, ignore_errors=True)


n = int(sys.argv[sys.argv.index("-j") + 1]) if "-j" in sys.argv else 3
out = {}
with ThreadPoolExecutor(n) as ex:
    for sid, r in ex.map(one, sorted(glob.glob(f"{ROOT}/seeded/*-[a-z]"))):
        out[sid] = r
        print(sid, "rc", r.get("rc"), r.get("by"), r.get("obligations", [])[:2], flush=True)
        if r.get("applies"):
            m = json.load(open(f"{ROOT}/seeded/{sid}/meta.json"))
            m["detected_by"] = {"check": f"./vp check {sid.split('-')[0]}", "exit": r["rc"], "how": r["by"], "failed_obligations": r["obligations"]}
            json.dump(m, open(f"{ROOT}/seeded/{sid}/meta.json", "w"), indent=1)
json.dump(out, open(f"{ROOT}/seeded/MATRIX.json", "w"), indent=1)
print("detected:", sum(1 for v in out.values() if v.get("rc") == 1), "of", len(out))
