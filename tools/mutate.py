#!/usr/bin/env python3
"""Mutation self-test of the proofs.

For every function under a (non-trusted) contract, a handful of syntactic mutants of the *real* source are made in a scratch copy of
/repo/src (never in /repo): negated conditions, flipped comparison / boolean operators, changed constants, deleted statements.  A mutant
that the unedited 244-test suite kills is uninteresting; for the survivors the function's contract is re-verified against the mutated
source.  Outcome per survivor: refuted (a named obligation fails with a model) | undecided (out of reach / unknown) | still-proved
(equivalent mutant, or a contract that is too weak -- these are listed for inspection).

usage: /verif/.venv/bin/python tools/mutate.py [--per-fn N] [--jobs J] [--only substring]   (writes tools/mutation_report.json)"""
from __future__ import annotations

import argparse
import ast
import copy
import importlib
import json
import multiprocessing as mp
import os
import random
import shutil
import subprocess
import sys
import tempfile

sys.path.insert(0, "/verif")
REPO_SRC = "/repo/src"


class Mutator(ast.NodeTransformer):
    """Applies the k-th applicable mutation inside one function."""

    def __init__(self, target: int | None) -> None:
        self.target = target
        self.count = 0
        self.desc = ""

    def _hit(self, desc: str) -> bool:
        i = self.count
        self.count += 1
        if self.target is not None and i == self.target:
            self.desc = desc
            return True
        return False

    def visit_If(self, node: ast.If) -> ast.AST:
        self.generic_visit(node)
        if self._hit(f"negate if-condition `{ast.unparse(node.test)[:50]}`"):
            node.test = ast.UnaryOp(op=ast.Not(), operand=node.test)
        return node

    def visit_While(self, node: ast.While) -> ast.AST:
        self.generic_visit(node)
        return node

    def visit_Compare(self, node: ast.Compare) -> ast.AST:
        self.generic_visit(node)
        flip = {ast.Eq: ast.NotEq, ast.NotEq: ast.Eq, ast.Lt: ast.LtE, ast.LtE: ast.Lt, ast.Gt: ast.GtE, ast.GtE: ast.Gt, ast.Is: ast.IsNot, ast.IsNot: ast.Is,
                ast.In: ast.NotIn, ast.NotIn: ast.In}
        for j, op in enumerate(node.ops):
            if type(op) in flip and self._hit(f"{type(op).__name__} -> {flip[type(op)].__name__} in `{ast.unparse(node)[:50]}`"):
                node.ops[j] = flip[type(op)]()
        return node

    def visit_BoolOp(self, node: ast.BoolOp) -> ast.AST:
        self.generic_visit(node)
        if self._hit(f"and <-> or in `{ast.unparse(node)[:50]}`"):
            node.op = ast.Or() if isinstance(node.op, ast.And) else ast.And()
        return node

    def visit_Constant(self, node: ast.Constant) -> ast.AST:
        if isinstance(node.value, bool):
            if self._hit(f"{node.value} -> {not node.value}"):
                return ast.copy_location(ast.Constant(value=not node.value), node)
        elif isinstance(node.value, int):
            if self._hit(f"{node.value} -> {node.value + 1}"):
                return ast.copy_location(ast.Constant(value=node.value + 1), node)
        return node

    def _maybe_delete(self, node: ast.stmt) -> ast.AST:
        self.generic_visit(node)
        if self._hit(f"delete `{ast.unparse(node)[:60]}`"):
            return ast.copy_location(ast.Pass(), node)
        return node

    def visit_Expr(self, node: ast.Expr) -> ast.AST:
        if isinstance(node.value, ast.Constant) and isinstance(node.value.value, str):
            return node  # docstring
        if isinstance(node.value, (ast.Yield, ast.YieldFrom)):
            return self._maybe_delete(node)
        if isinstance(node.value, ast.Call):
            src = ast.unparse(node.value.func)
            if src.startswith("logger.") or src == "print":
                return node
            return self._maybe_delete(node)
        return node

    def visit_AugAssign(self, node: ast.AugAssign) -> ast.AST:
        return self._maybe_delete(node)

    def visit_Continue(self, node: ast.Continue) -> ast.AST:
        return self._maybe_delete(node)

    def visit_Break(self, node: ast.Break) -> ast.AST:
        return self._maybe_delete(node)


def find_fn(tree: ast.Module, qualname: str) -> ast.FunctionDef | None:
    parts = qualname.split(".")
    cur: ast.AST = tree
    for p in parts:
        nxt = None
        for c in ast.walk(cur) if isinstance(cur, ast.Module) else ast.iter_child_nodes(cur):
            if isinstance(c, (ast.FunctionDef, ast.ClassDef)) and c.name == p and (isinstance(cur, ast.Module) and c in tree.body or not isinstance(cur, ast.Module)):
                nxt = c
                break
        if nxt is None:
            # nested defs may sit inside if/else blocks
            for c in ast.walk(cur):
                if isinstance(c, (ast.FunctionDef, ast.ClassDef)) and c.name == p and c is not cur:
                    nxt = c
                    break
        if nxt is None:
            return None
        cur = nxt
    return cur if isinstance(cur, ast.FunctionDef) else None


def contracts() -> list[tuple[str, str, str]]:
    """(area, contract key, fn ref) of every non-trusted contract whose source is a real function of /repo."""
    from pyvc.props import PROPS
    out, seen = [], set()
    for spec in PROPS.values():
        for a in spec.get("areas", []):
            if a in seen:
                continue
            seen.add(a)
            world, lib, reg, lem = importlib.import_module(a).build()
            for c in reg.all():
                if not c.trusted and c.source is None and c.fn.startswith("pyoak."):
                    out.append((a, c.key, c.fn))
    return out


def work(job: tuple) -> dict:
    area, key, fn, k, scratch = job
    modname, qual = fn.split(":")
    rel = modname.replace(".", "/") + ".py"
    src_path = os.path.join(REPO_SRC, rel)
    text = open(src_path).read()
    tree = ast.parse(text)
    f = find_fn(tree, qual)
    if f is None:
        return {"key": key, "k": k, "status": "no-such-function"}
    mt = Mutator(k)
    mt.visit(f)
    if not mt.desc:
        return {"key": key, "k": k, "status": "no-mutation"}
    ast.fix_missing_locations(tree)
    try:
        new_text = ast.unparse(tree)
        compile(new_text, rel, "exec")
    except Exception as e:
        return {"key": key, "k": k, "status": "does-not-compile", "desc": mt.desc, "error": str(e)[:100]}
    dst = os.path.join(scratch, "src")
    if not os.path.exists(dst):
        shutil.copytree(REPO_SRC, dst)
    target = os.path.join(dst, rel)
    try:
        open(target, "w").write(new_text)
        env = dict(os.environ, PYTHONPATH=dst, PYTHONDONTWRITEBYTECODE="1")
        t = subprocess.run(["/venv/bin/python", "-m", "pytest", "-q", "-x", "-p", "no:cacheprovider", "--timeout=120", "/repo/tests"], capture_output=True, text=True, env=env,
                           cwd=scratch, timeout=600)
        if t.returncode != 0:
            return {"key": key, "k": k, "status": "killed-by-tests", "desc": mt.desc}
        env2 = dict(os.environ, PYVC_REPO_SRC=dst)
        # every contract (variant, area) written for this function, or for a def nested in it, is re-verified
        code = ("import sys, json, importlib\nsys.path.insert(0,'/verif')\nfrom pyvc.verify import verify_function\nfrom pyvc.props import PROPS\n"
                "areas=[]\n"
                "for sp in PROPS.values():\n"
                "    for a in sp.get('areas', []):\n"
                "        if a not in areas: areas.append(a)\n"
                "status='ok'; err=''; bad=[]; n=0\n"
                "for a in areas:\n"
                "    world, lib, reg, lem = importlib.import_module(a).build()\n"
                "    for c in reg.all():\n"
                f"        if (c.fn == {fn!r} or c.fn.startswith({fn!r} + '.')) and not c.trusted and c.source is None:\n"
                "            r = verify_function(world, lib, c)\n"
                "            n += len(r.obligations)\n"
                "            if r.status != 'ok': status, err = r.status, str(r.error)[:150]\n"
                "            bad += [(o.name, o.status) for o in r.failed()]\n"
                "print('RESULT '+json.dumps({'status': status, 'error': err, 'failed': bad[:6], 'n': n}))")
        p = subprocess.run(["/verif/.venv/bin/python", "-c", code], capture_output=True, text=True, env=env2, timeout=900)
        line = [l for l in p.stdout.split("\n") if l.startswith("RESULT ")]
        if not line:
            return {"key": key, "k": k, "status": "checker-crash", "desc": mt.desc, "error": p.stderr[-200:]}
        r = json.loads(line[0][7:])
        if any(s == "refuted" for _, s in r["failed"]):
            verdict = "refuted"
        elif r["status"] != "ok":
            verdict = "undecided"
        elif r["failed"]:
            verdict = "undecided"
        else:
            verdict = "still-proved"
        return {"key": key, "k": k, "status": verdict, "desc": mt.desc, "detail": r}
    finally:
        open(target, "w").write(text)


def main() -> None:
    ap = argparse.ArgumentParser()
    ap.add_argument("--per-fn", type=int, default=4)
    ap.add_argument("--jobs", type=int, default=12)
    ap.add_argument("--only", default="")
    a = ap.parse_args()
    rnd = random.Random(7)
    cs = [c for c in contracts() if a.only in c[1]]
    # one job list: for each function, count applicable mutations, sample per_fn of them
    jobs = []
    seen_fn = set()
    for area, key, fn in cs:
        if fn in seen_fn:
            continue
        seen_fn.add(fn)
        modname, qual = fn.split(":")
        tree = ast.parse(open(os.path.join(REPO_SRC, modname.replace(".", "/") + ".py")).read())
        f = find_fn(tree, qual)
        if f is None:
            continue
        m = Mutator(None)
        m.visit(copy.deepcopy(f))
        ks = list(range(m.count))
        rnd.shuffle(ks)
        for k in ks[:a.per_fn]:
            jobs.append((area, key, fn, k))
    base = tempfile.mkdtemp(prefix="pyvc_mut_")
    try:
        chunks: list[list] = [[] for _ in range(a.jobs)]
        for i, j in enumerate(jobs):
            chunks[i % a.jobs].append(j)
        with mp.get_context("fork").Pool(a.jobs) as pool:
            parts = pool.map(run_chunk, [(i, base, ch) for i, ch in enumerate(chunks)])
        res = [r for p in parts for r in p]
    finally:
        shutil.rmtree(base, ignore_errors=True)
    summary: dict[str, int] = {}
    for r in res:
        summary[r["status"]] = summary.get(r["status"], 0) + 1
    json.dump({"summary": summary, "results": res}, open("/verif/tools/mutation_report.json", "w"), indent=1)
    print(summary)
    for r in res:
        if r["status"] == "still-proved":
            print("SURVIVOR", r["key"], "|", r["desc"])


def run_chunk(arg: tuple) -> list[dict]:
    i, base, jobs = arg
    scratch = os.path.join(base, f"w{i}")
    os.makedirs(scratch, exist_ok=True)
    out = []
    for j in jobs:
        try:
            out.append(work((*j, scratch)))
        except Exception as e:
            out.append({"key": j[1], "k": j[3], "status": "tool-error", "error": f"{type(e).__name__}: {e}"[:200]})
    return out


if __name__ == "__main__":
    main()
