#!/bin/sh
# tools/try_patch.sh <patch.diff> <PROP>... : apply to /repo, run quick checks, undo. Evidence files are preserved.
P="$1"; shift
BK=$(mktemp -d); cp -r /verif/evidence "$BK/" 2>/dev/null
git -C /repo apply "$P" || { echo "patch does not apply"; rm -rf "$BK"; exit 9; }
for id in "$@"; do
  /verif/vp check "$id" > "$BK/out.txt" 2>&1; rc=$?
  grep -E "VIOLATION|UNDECIDED|CRASH|KNOWN|obligations=" "$BK/out.txt" | cut -c1-300
  echo "rc($id)=$rc"
done
git -C /repo checkout -- . ; git -C /repo status --short | head -3
rm -rf /verif/evidence; cp -r "$BK/evidence" /verif/evidence 2>/dev/null; rm -rf "$BK"
