#!/bin/sh
# tools/try_patch.sh <patch.diff> <PROP>... : apply to /repo, run quick checks, undo.
P="$1"; shift
git -C /repo apply "$P" || { echo "patch does not apply"; exit 9; }
for id in "$@"; do
  /verif/vp check "$id" 2>&1 | grep -E "VIOLATION|UNDECIDED|CRASH|KNOWN|obligations=" | cut -c1-300
  echo "rc($id)=$?"
done
git -C /repo checkout -- . ; git -C /repo status --short | head -3
