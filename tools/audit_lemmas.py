import importlib, sys, os
sys.path.insert(0,'/verif')
from pyvc.verify import prove_lemma
from pyvc.props import PROPS
seen=set(); n=0
for pid, sp in PROPS.items():
    for a in sp.get('areas', []):
        if a in seen: continue
        seen.add(a)
        world, lib, reg, lemmas = importlib.import_module(a).build()
        for l in lemmas:
            for o in prove_lemma(l, world.axioms, lib, timeout_ms=20000):
                n+=1
                if o.status != 'discharged':
                    print(a, o.name, o.status, o.model[:100])
print("lemma cases:", n)
