#!/usr/bin/env python3
"""Consistency canary for the trusted (assumed) contracts: each is called once from an empty stub with fresh arguments; after its `ensures` have been
assumed, `False` must NOT be provable on the normal exit.  A trusted contract with contradictory postconditions would make every caller's proof vacuous.
usage: /verif/.venv/bin/python tools/audit_trusted.py"""
import ast, importlib, multiprocessing as mp, sys
sys.path.insert(0, "/verif")
import z3


def work(job):
    area, key = job
    from pyvc import extract
    from pyvc.contract import Contract
    from pyvc.verify import verify_function
    world, lib, reg, lem = importlib.import_module(area).build()
    t = reg.contracts[key]
    src = "def canary():\n    pass\n"
    mod = extract.ModuleSrc("canary", "<canary>", src, ast.parse(src), "0" * 64)
    fn = ast.parse(src).body[0]

    def setup(m):
        from pyvc.symex import PathEnd, RaiseSig
        args = [m.fresh_of(s, n) for n, s in t.params.items()]
        ghost = {g: m.fresh_of(s, g) for g, s in t.ghost.items()} if t.ghost else None
        try:
            m.call_contract(key, args, {}, ghost) if ghost else m.call_contract(key, args, {})
        except RaiseSig:
            m.ctx.assume(z3.BoolVal(False))          # an exceptional exit of the callee: not the exit this canary looks at (its `False` is discharged trivially)

    c = Contract("canary:" + key, params={}, globals=dict(t.globals), modifies=list(t.modifies), ensures=["False"], may_raise=["Exception"], setup=setup, source=(mod, fn))
    try:
        r = verify_function(world, lib, c)
    except Exception as e:
        return area, key, f"error {type(e).__name__}: {e}"[:160]
    if r.status not in ("ok", "vacuous"):       # ("vacuous" here only means that the entry canary took the callee's raising branch first)
        return area, key, f"{r.status}: {r.error}"[:160]
    posts = [o.status for o in r.obligations if "/post[0]" in o.name]
    if not posts:
        return area, key, "no normal exit (always raises?)"
    return area, key, "CONTRADICTORY" if all(s == "discharged" for s in posts) else "consistent"


def main():
    from pyvc.props import PROPS
    jobs, seen = [], set()
    for spec in PROPS.values():
        for a in spec.get("areas", []):
            if a in seen:
                continue
            seen.add(a)
            world, lib, reg, lem = importlib.import_module(a).build()
            jobs += [(a, c.key) for c in reg.all() if c.trusted and c.ensures]
    with mp.get_context("fork").Pool(16) as pool:
        res = pool.map(work, jobs, chunksize=1)
    bad = [r for r in res if r[2] != "consistent"]
    for a, k, v in bad:
        print(a, k, v)
    print("trusted contracts with ensures:", len(res), "consistent:", len(res) - len(bad))


if __name__ == "__main__":
    main()
