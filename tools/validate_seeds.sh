#!/bin/sh
# Confirms every seeded change: applies on a clean scratch worktree, 244 tests pass, demo fails with / passes without.
WT=/tmp/seedcheck
git -C /repo worktree remove --force $WT 2>/dev/null; git -C /repo worktree add --detach $WT HEAD -q
for d in /tmp/seed/out/C*/[ab]; do
  id=$(basename $(dirname $d)); x=$(basename $d)
  [ -f $d/patch.diff ] || { echo "$id-$x: no patch"; continue; }
  cd $WT && git checkout -q -- . && git clean -fdq
  PYTHONPATH=$WT/src /venv/bin/python $d/demo.py >/dev/null 2>&1; clean_rc=$?
  if ! git apply $d/patch.diff 2>/dev/null; then echo "$id-$x: patch does not apply"; continue; fi
  t=$(PYTHONPATH=$WT/src /venv/bin/python -m pytest -q -p no:cacheprovider tests 2>&1 | tail -1)
  PYTHONPATH=$WT/src /venv/bin/python $d/demo.py >/dev/null 2>&1; mut_rc=$?
  echo "$id-$x: clean_demo_rc=$clean_rc mutated_demo_rc=$mut_rc tests: $t"
done
cd / && git -C /repo worktree remove --force $WT
