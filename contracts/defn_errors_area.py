"""C17: text is either compiled or rejected with the definition error -- exception-flow contracts.

The lark parser and the pattern interpreter are deterministic, possibly-raising callees summarised by
uninterpreted outcome functions of the text:
  parse_outcome(text) in {0 ok, 1 UnexpectedInput, 2 any other exception},  interp_outcome(text) in {0 ok, 1 definition error, 2 other}
accepts(text) == both are 0.  The three pattern entry points are proved to agree with accepts(text),
never to raise (validate_pattern / from_pattern) or to raise only the definition error
(ASTXpath, MultiPatternMatcher); the matcher cache only ever holds matchers of accepted texts."""
from __future__ import annotations

import z3

from pyvc.contract import Contract, Loop, Registry
from pyvc.specfn import SpecLib
from pyvc.symex import RaiseSig, World
from pyvc.values import BOOL, INT, NONE, STR, EngineError, V, VBool, VBound, VCls, VExc, VHeapRef, VInt, VOpt, VPy, VSeq, VStr, VTuple, VU, fresh_name, opt_of, rec_sort, seq_of, usort

PM_ = "pyoak.match.pattern"
XM_ = "pyoak.match.xpath"


def build():
    reg = Registry()
    world = World(reg)
    lib = SpecLib()
    MAT, PT, XP, EL = usort("Matcher"), usort("ParseTree"), usort("XPathObj"), usort("XElems")
    OMAT = opt_of(MAT)
    parse_out = z3.Function("parse_outcome", z3.StringSort(), z3.IntSort())
    parse_tree = z3.Function("parse_tree", z3.StringSort(), PT.z3())
    interp_out = z3.Function("interp_outcome", PT.z3(), z3.IntSort())
    interp_res = z3.Function("interp_result", PT.z3(), MAT.z3())
    interp_msg = z3.Function("interp_message", PT.z3(), z3.StringSort())
    xparse_out = z3.Function("xpath_parse_outcome", z3.StringSort(), z3.IntSort())
    xparse_res = z3.Function("xpath_parse_result", z3.StringSort(), EL.z3())
    rev_el = z3.Function("reversed_elements", EL.z3(), EL.z3())
    accepts = lambda t: z3.And(parse_out(t) == 0, interp_out(parse_tree(t)) == 0)
    sf = world.spec_fns
    sf["accepts"] = lambda t: VBool(accepts(t.term))
    sf["compiled"] = lambda t: MAT.wrap(interp_res(parse_tree(t.term)))
    sf["xaccepts"] = lambda t: VBool(xparse_out(z3.If(z3.PrefixOf(z3.StringVal("/"), t.term), t.term, z3.Concat(z3.StringVal("//"), t.term))) == 0)
    sf["rev"] = lambda s_: s_
    for e, p in (("UnexpectedInput", "Exception"), ("ASTPatternDefinitionError", "Exception"), ("ASTXpathDefinitionError", "Exception"), ("AttributeError", "Exception")):
        world.exc_parents[e] = p
    world.consts["logger"] = VPy("logger")

    def attr(m, obj, name):
        if isinstance(obj, VPy) and obj.obj in ("pattern_def_parser", "xpath_parser") and name == "parse":
            return VBound(obj, "parse")
        if isinstance(obj, VPy) and obj.obj == "interpreter" and name == "visit":
            return VBound(obj, "visit")
        if isinstance(obj, VExc):
            if name == "get_context" and obj.cls == "UnexpectedInput":
                return VBound(obj, "get_context")
            if name == "message" and obj.cls in ("ASTPatternDefinitionError", "ASTXpathDefinitionError"):
                return VStr(z3.String(fresh_name("message")))
            if obj.cls == "UnexpectedInput":
                # UnexpectedInput has several subclasses with different attributes (UnexpectedToken.token, UnexpectedCharacters.char, ...)
                if m.ctx.branch(z3.Bool(fresh_name("lark_exception_lacks_" + name))):
                    raise RaiseSig(VExc("AttributeError"))
                return VStr(z3.String(fresh_name("exc_attr")))
        if isinstance(obj, VU) and obj.sort == XP and name in ("_elements_reversed", "_elements"):
            return m.ghost_env.get("xp_" + name, NONE)
        return None

    def call(m, func, args, kwargs, node):
        if isinstance(func, VBound) and isinstance(func.recv, VPy):
            who = func.recv.obj
            if who == "pattern_def_parser" and func.name == "parse":
                t = STR.coerce(args[0]).term
                if m.ctx.branch(parse_out(t) == 1):
                    raise RaiseSig(VExc("UnexpectedInput"))
                if m.ctx.branch(parse_out(t) == 0):
                    return PT.wrap(parse_tree(t))
                m.ctx.assume(parse_out(t) == 2)
                raise RaiseSig(VExc("Exception"))
            if who == "xpath_parser" and func.name == "parse":
                t = STR.coerce(args[0]).term
                if m.ctx.branch(xparse_out(t) == 1):
                    raise RaiseSig(VExc("UnexpectedInput"))
                if m.ctx.branch(xparse_out(t) == 3):
                    raise RaiseSig(VExc("ASTXpathDefinitionError"))  # raised by the transformer for unknown classes
                if m.ctx.branch(xparse_out(t) == 0):
                    return EL.wrap(xparse_res(t))
                raise RaiseSig(VExc("Exception"))
            if who == "interpreter" and func.name == "visit":
                pt = PT.coerce(args[0]).term
                if m.ctx.branch(interp_out(pt) == 1):
                    raise RaiseSig(VExc("ASTPatternDefinitionError"))
                if m.ctx.branch(interp_out(pt) == 0):
                    return MAT.wrap(interp_res(pt))
                m.ctx.assume(interp_out(pt) == 2)
                raise RaiseSig(VExc("Exception"))
        if isinstance(func, VBound) and isinstance(func.recv, VExc) and func.name == "get_context":
            return VStr(z3.String(fresh_name("context")))
        if isinstance(func, VCls) and func.name == "PatternDefInterpreter":
            return VPy("interpreter")
        if isinstance(func, VPy) and func.obj == ("setattr",) and isinstance(args[0], VU) and args[0].sort == XP:
            m.ghost_env["xp_" + args[1].obj] = args[2]
            return NONE
        if isinstance(func, VPy) and func.obj == ("builtin", "reversed") and isinstance(args[0], VU) and args[0].sort == EL:
            return EL.wrap(rev_el(args[0].term))        # the element list in the opposite order (opaque here; xpath_area names it rev_steps)
        if isinstance(func, VPy) and func.obj == ("builtin", "list") and isinstance(args[0], VU):
            return args[0]
        return NotImplemented

    world.attr_hooks.insert(0, attr)
    world.call_hooks.insert(0, call)
    world.name_hooks.append(lambda m, n: VPy(n) if n in ("pattern_def_parser", "xpath_parser") else (VCls(n) if n in ("PatternDefInterpreter", "UnexpectedInput") else None))
    world.class_parents["PatternDefInterpreter"] = []
    A = reg.add
    P = ["C17"]
    sf["reversed_elements"] = lambda x: EL.wrap(rev_el(x.term))
    sf["xparsed"] = lambda t: EL.wrap(xparse_res(z3.If(z3.PrefixOf(z3.StringVal("/"), t.term), t.term, z3.Concat(z3.StringVal("//"), t.term))))
    A(Contract(f"{XM_}:ASTXpath.__init__", params={"self": "XPathObj", "xpath": "str"}, props=P + ["C07"],
               raises=[("ASTXpathDefinitionError", "not xaccepts(xpath)")],
               ensures=["xp__elements_reversed == xparsed(old(xpath))", "xp__elements == reversed_elements(xp__elements_reversed)"],
               note="for arbitrary text: either returns (text accepted by parser + transformer) or raises ASTXpathDefinitionError -- no other exception escapes, "
                    "whatever the parser raises and whichever lark exception subclass the handler receives; a path not starting with '/' is parsed as '//' + path; on return _elements_reversed is what the "
                    "parser + transformer produced for that text (the list match() walks upward) and _elements is the same list in the opposite order (the list findall() walks "
                    "downward) -- the link between the two searches of C07"))
    # ASTXpath.__new__: one object per text (the cache key is the text as given); __init__ above then (re)fills it from the same text
    sf["xc_get"] = lambda mp, k: VOpt(z3.Select(mp.term, k.term), mp.sort.opt)
    sf["xc_set"] = lambda mp, k, v: type(mp)(z3.Store(mp.term, k.term, mp.sort.opt.some(v).term), mp.sort)

    def attr_new(m, obj, name):
        if isinstance(obj, VPy) and obj.obj == ("super",) and name == "__new__":
            return VPy(("super_new",))
        return None

    def call_new(m, func, a, kw, nd):
        if m.contract.qualname != "ASTXpath.__new__":
            return NotImplemented
        if isinstance(func, VPy) and func.obj == ("builtin", "super") and not a:
            return VPy(("super",))
        if isinstance(func, VPy) and func.obj == ("super_new",):
            return XP.fresh("new_xpath_object")
        return NotImplemented

    world.attr_hooks.insert(0, attr_new)
    world.call_hooks.insert(0, call_new)
    A(Contract(f"{XM_}:ASTXpath.__new__", params={"cls": "py:cls", "xpath": "str"}, returns="XPathObj", props=P + ["C07"],
               globals={"_AST_XPATH_CACHE": "Dict[str,XPathObj]"}, modifies=["_AST_XPATH_CACHE"],
               ensures=["xc_get(_AST_XPATH_CACHE, xpath) == result",
                        "implies(xc_get(old(_AST_XPATH_CACHE), xpath) is not None, result == xc_get(old(_AST_XPATH_CACHE), xpath) and _AST_XPATH_CACHE == old(_AST_XPATH_CACHE))",
                        "implies(xc_get(old(_AST_XPATH_CACHE), xpath) is None, _AST_XPATH_CACHE == xc_set(old(_AST_XPATH_CACHE), xpath, result))"],
               note="the same text always yields the same object; a new text adds exactly one cache entry. __init__ runs on every construction and parses the text again, so the "
                    "element lists of a cached object are those of its text whether or not it was cached"))
    CACHE = {"_MATCHER_CACHE": "Dict[str,Matcher]"}
    R2 = rec_sort("PatRes", [("matcher", OMAT), ("msg", STR)], tuple_like=True)
    RB = rec_sort("ValRes", [("ok", BOOL), ("msg", STR)], tuple_like=True)
    A(Contract(f"{PM_}:validate_pattern", params={"pattern_def": "str"}, returns="ValRes", props=P,
               ensures=["result.ok == accepts(pattern_def)"], note="never raises; verdict == parser ok and interpreter ok"))
    cache_ok = "implies(reg_has(_MATCHER_CACHE, K), accepts(K) and reg_val(_MATCHER_CACHE, K) == compiled(K))"
    sf["reg_has"] = lambda mp, k: VBool(z3.Not(mp.sort.opt.is_none(z3.Select(mp.term, k.term))))
    sf["reg_val"] = lambda mp, k: MAT.wrap(mp.sort.opt.val(z3.Select(mp.term, k.term)))
    A(Contract(f"{PM_}:NodeMatcher.from_pattern", params={"cls": "py:cls", "pattern_def": "str"}, returns="PatRes", props=P,
               globals=CACHE, modifies=["_MATCHER_CACHE"], ghost={"K": "str"},
               requires=[cache_ok, cache_ok.replace("K", "pattern_def")],
               ensures=["(result.matcher is not None) == accepts(pattern_def)",
                        "implies(result.matcher is not None, result.matcher == compiled(pattern_def))", cache_ok],
               note="never raises; accepted iff validate_pattern accepts; cached or not, the matcher returned is the one the interpreter yields for this text "
                    "(K is an arbitrary key: the cache invariant is preserved pointwise)"))
    A(Contract(f"{PM_}:NodeMatcher.from_pattern", variant_of="callee", params={"cls": "py:cls", "pattern_def": "str"}, returns="PatRes", props=P, trusted=True,
               trusted_reason="proved above; callee summary for MultiPatternMatcher.__init__",
               ensures=["(result.matcher is not None) == accepts(pattern_def)"]))
    reg.contracts[f"{PM_}:NodeMatcher.from_pattern#callee"].fn = f"{PM_}:NodeMatcher.from_pattern"
    # MultiPatternMatcher.__init__: only the definition error; raised iff names repeat or some text is rejected
    DEF = rec_sort("PatDef", [("name", STR), ("text", STR)], tuple_like=True)
    SD = seq_of(DEF)
    all_ok = lib.fn("all_accepted", [SD], BOOL)
    all_ok.rule("all_accepted-empty", 0, "empty")(lambda a, p: z3.BoolVal(True))
    all_ok.rule("all_accepted-snoc", 0, "snoc")(lambda a, p: z3.And(all_ok.t(p[0]), accepts(DEF.get(p[1], "text").term)))
    sf["all_accepted"] = all_ok
    uniq = z3.Function("names_unique", SD.z3(), z3.BoolSort())
    sf["names_unique"] = lambda s_: VBool(uniq(s_.term))
    MPM = usort("MultiMatcher")

    def call_mp(m, func, args, kwargs, node):
        # len({pd[0] for pd in pattern_defs}) != len(pattern_defs)  <=>  not names_unique(pattern_defs)
        if isinstance(func, VPy) and func.obj == ("builtin", "len") and isinstance(args[0], VPy) and isinstance(args[0].obj, tuple) and args[0].obj[0] == "setcomp":
            import ast as _ast
            sc = args[0].obj[1]
            # structural check: {<x>[0] for <x> in pattern_defs} -- the set of the *names* (first components) of exactly this argument
            g0 = sc.generators[0] if len(sc.generators) == 1 else None
            if not (g0 is not None and not g0.ifs and isinstance(g0.target, _ast.Name) and isinstance(g0.iter, _ast.Name) and g0.iter.id == "pattern_defs"
                    and isinstance(sc.elt, _ast.Subscript) and isinstance(sc.elt.value, _ast.Name) and sc.elt.value.id == g0.target.id
                    and isinstance(sc.elt.slice, _ast.Constant) and sc.elt.slice.value == 0):
                raise EngineError("set comprehension other than the set of pattern names")
            sv = m.env["pattern_defs"]
            n = z3.Int(fresh_name("distinct_names"))
            m.ctx.assume(z3.And(n >= 0, n <= z3.Length(sv.term), (n == z3.Length(sv.term)) == uniq(sv.term)))
            return VInt(n)
        if isinstance(func, VPy) and func.obj == ("clsattr", "NodeMatcher", "from_pattern"):
            return m.call_contract(f"{PM_}:NodeMatcher.from_pattern#callee", [VPy("cls")] + args, kwargs)
        if isinstance(func, VPy) and func.obj == ("setattr",) and isinstance(args[0], VU) and args[0].sort == MPM:
            m.ghost_env["mp_" + args[1].obj] = args[2]
            return NONE
        return NotImplemented

    world.comp_hooks = {"f\"Pattern '{pattern_name}': {pattern_def}\" for (pattern_name, pattern_def) in": lambda m, sv, gen, e: seq_of(STR).fresh("messages")}
    world.call_hooks.insert(0, call_mp)
    world.attr_hooks.insert(0, lambda m, o, n: m.ghost_env.get("mp_" + n) if isinstance(o, VU) and o.sort == MPM and ("mp_" + n) in m.ghost_env else None)
    world.class_parents["NodeMatcher"] = []
    world.name_hooks.append(lambda m, n: VCls("NodeMatcher") if n == "NodeMatcher" else None)
    A(Contract(f"{PM_}:MultiPatternMatcher.__init__", params={"self": "MultiMatcher", "pattern_defs": "Seq[PatDef]"}, props=P,
               locals={"._name_to_matcher": "Dict[str,Matcher]", "incorrect_patterns": "List[PatDef]"},
               raises=[("ASTPatternDefinitionError", "not names_unique(pattern_defs) or not all_accepted(pattern_defs)")],
               loops={1: Loop(inv=["(len(incorrect_patterns) == 0) == all_accepted(done1)"])},
               note="raises the definition error exactly when rule names repeat or some pattern is rejected by from_pattern; no other exception"))
    return world, lib, reg, []
