"""C02: == (_eq_fn) and hash (_hash_fn).

origins(s) maps the dfs stream to the origins of its nodes.  _eq_fn's postcondition is the
statement itself: same class, equal content_id, equal root origin, and equal origins at every
corresponding descendant position.  Origin == is abstracted by equality of an uninterpreted sort
(an equivalence relation; dataclass-generated __eq__ of frozen origins, trusted)."""
from __future__ import annotations

import z3

from pyvc.contract import Contract, Loop, Registry
from pyvc.core import mk_cons, mk_snoc
from pyvc.lemmas import concat_from_cons, length_preserving, snoc_from_cons
from pyvc.specfn import SpecLib
from pyvc.symex import World
from pyvc.values import INT, STR, VInt, VPy, VStr, VU, seq_of, usort

from .node_common import M, NodeVocab


def build():
    reg = Registry()
    world = World(reg)
    lib = SpecLib()
    nv = NodeVocab(world, lib)
    REF, INFO = nv.REF, nv.INFO
    SI, SO = seq_of(INFO), seq_of(nv.ORIGIN)
    desc = lib.fn("desc", [REF], SI)
    origins = lib.fn("origins", [SI], SO)
    E_O = z3.Empty(SO.z3())
    o_of = lambda x: nv.f_origin(INFO.get(x, "node").term)
    origins.rule("origins-empty", 0, "empty")(lambda a, p: E_O)
    origins.rule("origins-cons", 0, "cons")(lambda a, p: mk_cons(o_of(p[0]), origins.t(p[1])))
    origins.rule("origins-snoc", 0, "snoc", "lemma")(lambda a, p: mk_snoc(origins.t(p[0]), o_of(p[1])))
    origins.rule("origins-concat", 0, "concat", "lemma")(lambda a, p: z3.Concat(origins.t(p[0]), origins.t(p[1])))
    world.spec_fns.update({"desc": desc, "origins": origins})
    hash_str = z3.Function("hash_str", z3.StringSort(), z3.IntSort())
    world.spec_fns["hash_str"] = lambda s: VInt(hash_str(s.term))
    NON = usort("NonNode")
    non_cls = z3.Function("cls_of_nonnode", NON.z3(), nv.CLS.z3())
    world.attr_hooks.append(lambda m, o, n: VU(non_cls(o.term), nv.CLS) if isinstance(o, VU) and o.sort == NON and n == "__class__" else None)
    world.spec_fns["noncls"] = lambda o: VU(non_cls(o.term), nv.CLS)

    def call(m, func, args, kwargs, node):
        if isinstance(func, VPy) and func.obj == ("builtin", "hash") and isinstance(args[0], VStr):
            return VInt(hash_str(args[0].term))
        return NotImplemented
    world.call_hooks.append(call)

    # len(origins(s)) == len(s): instantiated for the two streams (proved as lemma origins-length)
    P = ["C02"]
    A = reg.add
    A(Contract(f"{M}:ASTNode.dfs", params={"self": "Ref", "prune": "Opt[Fn]", "filter": "Opt[Fn]", "bottom_up": "bool"}, returns="Seq[Info]", props=P,
               trusted=True, trusted_reason="proved under C05: with no prune/filter the output is the pre-order stream desc(self)",
               ensures=["implies(prune is None and filter is None and not bottom_up, result == desc(self))"]))
    same_shape = "implies(self.content_id == other.content_id and cls_of(self) == cls_of(other), len(desc(self)) == len(desc(other)))"
    A(Contract(f"{M}:_eq_fn", params={"self": "Ref", "other": "Ref"}, returns="bool", props=P,
               requires=[same_shape, "len(origins(desc(self))) == len(desc(self))", "len(origins(desc(other))) == len(desc(other))"],
               ensures=["result == (cls_of(other) == cls_of(self) and self.content_id == other.content_id and self.origin == other.origin"
                        " and origins(desc(self)) == origins(desc(other)))"],
               loops={1: Loop(inv=["origins(done1) == origins(done1_2)", "len(done1) == len(done1_2)",
                                   "len(origins(done1)) == len(done1)", "len(origins(rest1)) == len(rest1)", "len(origins(rest1_2)) == len(rest1_2)"])},
               note="requires[0] is the C01 consequence 'content-equal nodes of one class have equally long descendant streams' (content_id is a collision-free digest of the shape): assumed here, listed in the trusted base; requires[1..2] are instances of lemma origins-length"))
    A(Contract(f"{M}:_eq_fn", variant_of="non-node", params={"self": "Ref", "other": "NonNode"}, returns="bool", props=P,
               requires=["noncls(other) != cls_of(self)"], ensures=["result == False"],
               note="comparing with a non-node: its class is not the node's class"))
    A(Contract(f"{M}:_hash_fn", params={"node": "Ref"}, returns="int", props=P, ensures=["result == hash_str(node.id)"],
               note="hash is a function of the id only; id is stored once, on the fresh object (C10 frame)"))
    lem = [
        snoc_from_cons("origins-snoc", lambda s: origins.t(s), lambda ex, y: z3.Unit(o_of(y)), [], INFO.z3(), SI.z3(), P),
        concat_from_cons("origins-concat", lambda s: origins.t(s), [], INFO.z3(), SI.z3(), P),
        length_preserving("origins-length", lambda s: origins.t(s), [], INFO.z3(), SI.z3(), P),
    ]
    from pyvc.verify import Lemma

    def EQ(a, b):
        return z3.And(nv.cls_of(a) == nv.cls_of(b), nv.f_cid(a) == nv.f_cid(b), nv.f_origin(a) == nv.f_origin(b),
                      origins.t(desc.t(a)) == origins.t(desc.t(b)))
    a, b, c = (z3.Const(n, REF.z3()) for n in ("a_eq", "b_eq", "c_eq"))
    lem.append(Lemma("eq-reflexive", [("all", lambda bank: ([], EQ(a, a)))], P, note="over the postcondition of _eq_fn"))
    lem.append(Lemma("eq-symmetric", [("all", lambda bank: ([EQ(a, b)], EQ(b, a)))], P))
    lem.append(Lemma("eq-transitive", [("all", lambda bank: ([EQ(a, b), EQ(b, c)], EQ(a, c)))], P))
    world.trusted_notes.append("C01 consequence used by _eq_fn: equal content_id and class => equally long descendant streams (blake2b collision-free)")
    world.trusted_notes.append("origin == is an equivalence relation (frozen dataclass __eq__), abstracted by equality of an uninterpreted sort")
    return world, lib, reg, lem
