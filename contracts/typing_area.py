"""C13 (proved part): pyoak.typing.is_instance against the statement's conformance relation, over
an abstract model of annotations (Ty) and values (Val).

  kind(t)   NEWTYPE INT BOOL FLOAT COMPLEX NONETYPE ANY UNION TUPLE COLL COLLBARE LITERAL TYPEGEN CLASS ELLIPSIS
  args(t)   type arguments (Seq[Ty]);  inner(t) the type a NewType wraps
  vkind(v)  TRUE FALSE INT FLOAT NONE OTHER;  elems(v) the elements of a sized iterable value

conforms(v, t) is the relation of the statement, one unfolding per call (nested element / member
checks stay opaque terms: all_conf, any_member, zip_conf -- they are the induction hypothesis for the
recursive calls, which is why the hooks below assert `specified` for every recursive position).
specified(v, t) excludes what the statement is silent on: a bool offered to float / complex.

The thin typing-introspection helpers (is_union, get_args, ...) are *assumed* contracts over kind / args
(statements about CPython's typing module), validated by the bounded run rt.c13 on real annotations."""
from __future__ import annotations

import ast

import z3

from pyvc.contract import Contract, Loop, Registry
from pyvc.specfn import SpecLib
from pyvc.symex import RaiseSig, World
from pyvc.values import BOOL, INT, NONE, STR, EngineError, V, VBool, VCls, VExc, VInt, VOpt, VPy, VSeq, VTuple, VU, fresh_name, opt_of, seq_of, usort

TM_ = "pyoak.typing"
KINDS = ["NEWTYPE", "INT", "BOOL", "FLOAT", "COMPLEX", "NONETYPE", "ANY", "UNION", "TUPLE", "COLL", "COLLBARE", "LITERAL", "TYPEGEN", "CLASS", "ELLIPSIS"]
K = {k: i for i, k in enumerate(KINDS)}
VK = {"TRUE": 0, "FALSE": 1, "INT": 2, "FLOAT": 3, "NONE": 4, "OTHER": 5}


def build():
    reg = Registry()
    world = World(reg)
    lib = SpecLib()
    TY, VAL, ORG = usort("Ty"), usort("Val"), usort("TyOrigin")
    STY, SVAL = seq_of(TY), seq_of(VAL)
    kind = z3.Function("ty_kind", TY.z3(), z3.IntSort())
    args = z3.Function("ty_args", TY.z3(), STY.z3())
    inner = z3.Function("newtype_inner", TY.z3(), TY.z3())
    vkind = z3.Function("val_kind", VAL.z3(), z3.IntSort())
    elems = z3.Function("val_elems", VAL.z3(), SVAL.z3())
    py_inst = z3.Function("py_isinstance", VAL.z3(), TY.z3(), z3.BoolSort())          # isinstance(value, type_) for a plain class
    origin_inst = z3.Function("origin_isinstance", VAL.z3(), TY.z3(), z3.BoolSort())  # isinstance(value, get_origin(type_))
    lit_member = z3.Function("literal_member", VAL.z3(), TY.z3(), z3.BoolSort())     # value in get_args(Literal[...])
    py_subclass = z3.Function("py_issubclass", VAL.z3(), TY.z3(), z3.BoolSort())
    has_none = z3.Function("union_has_none", TY.z3(), z3.BoolSort())
    all_conf = z3.Function("all_conf", SVAL.z3(), TY.z3(), z3.BoolSort())
    any_member = z3.Function("any_member", VAL.z3(), STY.z3(), z3.BoolSort())
    zip_conf = z3.Function("zip_conf", SVAL.z3(), STY.z3(), z3.BoolSort())
    all_spec = z3.Function("all_specified", SVAL.z3(), TY.z3(), z3.BoolSort())
    mem_spec = z3.Function("members_specified", VAL.z3(), STY.z3(), z3.BoolSort())
    zip_spec = z3.Function("zip_specified", SVAL.z3(), STY.z3(), z3.BoolSort())
    conforms = lib.fn("conforms", [VAL, TY], BOOL)
    specified = lib.fn("specified", [VAL, TY], BOOL)
    isk = lambda t, *ks: z3.Or(*[kind(t) == K[k] for k in ks])
    isv = lambda v, *ks: z3.Or(*[vkind(v) == VK[k] for k in ks])
    variadic = lambda t: z3.And(z3.Length(args(t)) == 2, kind(args(t)[1]) == K["ELLIPSIS"])

    def plain_inst(v, t):
        """isinstance(value, type_) for non-generic classes; fixed for the builtin scalars"""
        return z3.If(kind(t) == K["INT"], isv(v, "INT", "TRUE", "FALSE"),
                     z3.If(kind(t) == K["BOOL"], isv(v, "TRUE", "FALSE"),
                           z3.If(kind(t) == K["FLOAT"], isv(v, "FLOAT"),
                                 z3.If(kind(t) == K["NONETYPE"], isv(v, "NONE"), py_inst(v, t)))))

    def conforms_rhs(a, p):
        v, t = a
        tup = z3.If(z3.Length(args(t)) == 0, z3.Length(elems(v)) == 0,
                    z3.If(variadic(t), all_conf(elems(v), args(t)[0]),
                          z3.And(z3.Length(args(t)) == z3.Length(elems(v)), zip_conf(elems(v), args(t)))))
        return z3.If(kind(t) == K["NEWTYPE"], conforms.t(v, inner(t)),
               z3.If(kind(t) == K["ANY"], z3.BoolVal(True),
               z3.If(kind(t) == K["UNION"], any_member(v, args(t)),
               z3.If(kind(t) == K["INT"], isv(v, "INT"),                     # bools never conform to int
               z3.If(kind(t) == K["BOOL"], isv(v, "TRUE", "FALSE"),
               z3.If(kind(t) == K["FLOAT"], isv(v, "INT", "FLOAT"),                                # ints are acceptable for float
               z3.If(kind(t) == K["COMPLEX"], z3.Or(isv(v, "INT", "FLOAT"), py_inst(v, t)),
               z3.If(kind(t) == K["NONETYPE"], isv(v, "NONE"),
               z3.If(kind(t) == K["CLASS"], py_inst(v, t),
               z3.If(kind(t) == K["COLLBARE"], py_inst(v, t),
               z3.If(kind(t) == K["TUPLE"], z3.And(origin_inst(v, t), tup),
               z3.If(kind(t) == K["COLL"], z3.And(origin_inst(v, t), z3.Or(z3.Length(args(t)) == 0, all_conf(elems(v), args(t)[0]))),
               z3.If(kind(t) == K["LITERAL"], lit_member(v, t),
               z3.If(kind(t) == K["TYPEGEN"], z3.And(z3.Length(args(t)) > 0, py_subclass(v, args(t)[0])),
                     z3.BoolVal(False)))))))))))))))

    def specified_rhs(a, p):
        v, t = a
        return z3.If(kind(t) == K["NEWTYPE"], specified.t(v, inner(t)),
               z3.If(kind(t) == K["UNION"], mem_spec(v, args(t)),
               z3.If(isk(t, "FLOAT", "COMPLEX"), z3.Not(isv(v, "TRUE", "FALSE")),
               z3.If(kind(t) == K["TUPLE"], z3.If(z3.Length(args(t)) == 0, z3.BoolVal(True),
                                                z3.If(variadic(t), all_spec(elems(v), args(t)[0]), zip_spec(elems(v), args(t)))),
               z3.If(kind(t) == K["COLL"], z3.Or(z3.Length(args(t)) != 1, all_spec(elems(v), args(t)[0])),
                     z3.BoolVal(True))))))

    conforms.rule("conforms-def", 0, "always")(conforms_rhs)
    specified.rule("specified-def", 0, "always")(specified_rhs)
    sf = world.spec_fns
    sf.update({"conforms": conforms, "specified": specified, "kind": lambda t: VInt(kind(t.term)), "args": lambda t: STY.wrap(args(t.term)),
               "inner": lambda t: TY.wrap(inner(t.term)), "wf_ty": lambda t: VBool(wf_ty(t.term)), "wf_val": lambda v: VBool(z3.And(vkind(v.term) >= 0, vkind(v.term) <= 5))})
    for k, i in K.items():
        world.consts["K_" + k] = VInt(i)

    def wf_ty(t):
        """shape facts the typing module guarantees for the annotation grammar"""
        return z3.And(kind(t) >= 0, kind(t) < len(KINDS), kind(t) != K["ELLIPSIS"],
                      z3.Implies(kind(t) == K["NEWTYPE"], kind(inner(t)) != K["NEWTYPE"]),
                      z3.Implies(kind(t) == K["UNION"], z3.Length(args(t)) >= 2),
                      z3.Implies(kind(t) == K["COLL"], z3.Length(args(t)) <= 2),
                      z3.Implies(z3.Not(isk(t, "UNION", "TUPLE", "COLL", "LITERAL", "TYPEGEN")), z3.Length(args(t)) == 0))

    # ---- the introspection helpers: assumed contracts over kind / args -----------------------------------------
    A = reg.add
    P = ["C13"]
    why = "statement about CPython's typing module; assumed, validated natively by rt.c13 on the annotation grammar"
    for name, cond in (("is_new_type", "kind(type_) == K_NEWTYPE"), ("is_union", "kind(type_) == K_UNION"), ("is_literal", "kind(type_) == K_LITERAL"),
                       ("is_type_generic", "kind(type_) == K_TYPEGEN"), ("is_tuple", "kind(type_) == K_TUPLE or is_bare_tuple(type_)"),
                       ("is_collection", "kind(type_) == K_TUPLE or kind(type_) == K_COLL or kind(type_) == K_COLLBARE"),
                       ("is_optional", "kind(type_) == K_UNION and union_has_none(type_)")):
        A(Contract(f"{TM_}:{name}", params={"type_": "Ty"}, returns="bool", trusted=True, props=P, ensures=[f"result == ({cond})"],
                   trusted_reason=("callee summary; proved in contracts.typing_area as " + name + "#body against the kind model" + (" (union_has_none(t) abbreviates: some argument of t has kind NONETYPE)" if name == "is_optional" else "")) if name in ("is_optional", "is_new_type") else why))
    bare_tuple = z3.Function("is_bare_tuple", TY.z3(), z3.BoolSort())
    sf["is_bare_tuple"] = lambda t: VBool(z3.And(kind(t.term) == K["COLLBARE"], bare_tuple(t.term)))
    sf["union_has_none"] = lambda t: VBool(has_none(t.term))
    A(Contract(f"{TM_}:unwrap_newtype", params={"type_": "Ty"}, returns="Ty", trusted=True, props=P,
               trusted_reason="callee summary; proved in contracts.typing_area as unwrap_newtype#body against the kind model (isinstance(t, NewType) is kind == NEWTYPE, t.__supertype__ is inner(t))",
               ensures=["implies(kind(type_) == K_NEWTYPE, result == inner(type_))", "implies(kind(type_) != K_NEWTYPE, result == type_)"]))
    A(Contract("typing:get_args", params={"tp": "Ty"}, returns="Seq[Ty]", trusted=True, trusted_reason=why, props=P, ensures=["result == args(tp)"]))
    get_origin_none = lambda t: z3.Not(isk(t, "UNION", "TUPLE", "COLL", "LITERAL", "TYPEGEN"))
    sf["origin_is_none"] = lambda t: VBool(get_origin_none(t.term))
    org_of = z3.Function("ty_origin", TY.z3(), ORG.z3())
    A(Contract("typing:get_origin", params={"tp": "Ty"}, returns="Opt[TyOrigin]", trusted=True, trusted_reason=why, props=P,
               ensures=["(result is None) == origin_is_none(tp)", "implies(result is not None, result == origin_of(tp))"]))
    sf["origin_of"] = lambda t: ORG.wrap(org_of(t.term))

    # ---- hooks: the Python operations on Ty / Val --------------------------------------------------------------
    TYCONST = {"int": "INT", "float": "FLOAT", "complex": "COMPLEX", "Any": "ANY", "Ellipsis": "ELLIPSIS", "bool": "BOOL"}

    def name_hook(m, n):
        if n in ("float", "complex", "Any", "Ellipsis"):
            return VPy(("tyconst", n))
        if n in ("get_args", "get_origin"):
            return VPy(("contract", f"typing:{n}"))
        return None

    def tyconst_of(v):
        if isinstance(v, VPy) and isinstance(v.obj, tuple) and v.obj[0] == "tyconst":
            return TYCONST[v.obj[1]]
        if isinstance(v, VPy) and v.obj == ("builtin", "int"):
            return "INT"
        if isinstance(v, VPy) and v.obj is Ellipsis:
            return "ELLIPSIS"
        return None

    def eq_hook(m, a, b):
        for x, y in ((a, b), (b, a)):
            if isinstance(x, VU) and x.sort == TY and tyconst_of(y):
                return kind(x.term) == K[tyconst_of(y)]
            if isinstance(x, VU) and x.sort == VAL and isinstance(y, VBool) and z3.is_true(y.term):
                return vkind(x.term) == VK["TRUE"]
            if isinstance(x, VU) and x.sort == VAL and isinstance(y, VBool) and z3.is_false(y.term):
                return vkind(x.term) == VK["FALSE"]
        from pyvc.values import VNone
        for x, y in ((a, b), (b, a)):
            if isinstance(x, VU) and x.sort == VAL and isinstance(y, VNone):
                return vkind(x.term) == VK["NONE"]
        return None

    def isinst_hook(m, v, cls):
        if isinstance(v, VU) and v.sort == VAL:
            c = tyconst_of(cls) or (cls.name.upper() if isinstance(cls, VCls) and cls.name in ("int", "float") else None)
            if c == "INT":
                return isv(v.term, "INT", "TRUE", "FALSE")
            if c == "FLOAT":
                return isv(v.term, "FLOAT")
            if (isinstance(cls, VU) and cls.sort == ORG) or (isinstance(cls, VOpt) and cls.sort.elem == ORG):
                t = m.ghost_env.get("_origin_of")
                return origin_inst(v.term, t.term)
        return None

    def call_hook(m, func, a, kw, node):
        if isinstance(func, VPy) and func.obj == ("builtin", "isinstance") and isinstance(a[0], VU) and a[0].sort == VAL and isinstance(a[1], VU) and a[1].sort == TY:
            v, t = a[0].term, a[1].term
            # isinstance() with a subscripted generic, Literal, Any or type[...] raises TypeError; plain classes do not
            if m.ctx.branch(isk(t, "ANY", "TUPLE", "COLL", "LITERAL", "TYPEGEN", "NEWTYPE", "ELLIPSIS")):
                raise RaiseSig(VExc("TypeError"))
            if m.ctx.branch(kind(t) == K["UNION"]):
                # isinstance accepts unions and treats bools as ints: any member isinstance
                return VBool(z3.Bool(fresh_name("isinstance_union")))
            return VBool(plain_inst(v, t))
        if isinstance(func, VPy) and func.obj == ("builtin", "len") and isinstance(a[0], VU) and a[0].sort == VAL:
            return VInt(z3.Length(elems(a[0].term)))
        if isinstance(func, VPy) and func.obj == ("builtin", "issubclass") and isinstance(a[0], VU) and a[0].sort == VAL:
            return VBool(py_subclass(a[0].term, TY.coerce(a[1]).term))
        if isinstance(func, VPy) and func.obj == ("contract", "typing:get_origin"):
            m.ghost_env["_origin_of"] = a[0]
            return NotImplemented
        return NotImplemented

    def in_hook(m, container, item):
        if isinstance(item, VU) and item.sort == VAL and isinstance(container, VSeq) and container.sort == STY:
            t = m.env["type_"]
            m.ctx.check(container.term == args(t.term), f"{m.contract.key}/literal-args-are-the-annotation's", "model")
            return lit_member(item.term, t.term)
        return None

    def anyall(m, name, ge, env):
        """The three recursive positions of is_instance, recognised by structure (is_instance applied to the loop variables), not by the names of
        locals; the iterated expressions are evaluated and the induction-hypothesis predicates applied to those terms."""
        if len(ge.generators) != 1 or ge.generators[0].ifs:
            return None
        gen, el = ge.generators[0], ge.elt
        if not (isinstance(el, ast.Call) and isinstance(el.func, ast.Name) and el.func.id == "is_instance" and len(el.args) == 2 and not el.keywords):
            return None
        tnames = [gen.target.id] if isinstance(gen.target, ast.Name) else ([x.id for x in gen.target.elts] if isinstance(gen.target, ast.Tuple) and all(isinstance(x, ast.Name) for x in gen.target.elts) else None)
        if tnames is None:
            return None
        a0_is_t = isinstance(el.args[0], ast.Name) and el.args[0].id in tnames
        a1_is_t = isinstance(el.args[1], ast.Name) and el.args[1].id in tnames
        saved = m.env
        try:
            m.env = dict(env)

            def seq_ty(x):
                sv = m.seq_value(x) if not isinstance(x, VSeq) else x
                return sv if sv is not None and sv.sort == STY else None
            if name == "any" and len(tnames) == 1 and not a0_is_t and a1_is_t:
                # any(is_instance(<value>, t) for t in <member types>)
                v = m.eval(el.args[0])
                ts = seq_ty(m.eval(gen.iter))
                if isinstance(v, VU) and v.sort == VAL and ts is not None:
                    m.ctx.check(mem_spec(v.term, ts.term), f"{m.contract.key}/recursive-positions-specified[union members]", "ih")
                    return VBool(any_member(v.term, ts.term))
            if name == "all" and len(tnames) == 1 and a0_is_t and not a1_is_t:
                # all(is_instance(item, <type>) for item in <value>)
                it = m.eval(gen.iter)
                ty = m.eval(el.args[1])
                if isinstance(it, VU) and it.sort == VAL and isinstance(ty, VU) and ty.sort == TY:
                    m.ctx.check(all_spec(elems(it.term), ty.term), f"{m.contract.key}/recursive-positions-specified[elements]", "ih")
                    return VBool(all_conf(elems(it.term), ty.term))
            if name == "all" and len(tnames) == 2 and [getattr(x, "id", None) for x in el.args] == tnames and isinstance(gen.iter, ast.Call) \
                    and ast.unparse(gen.iter.func) == "zip" and len(gen.iter.args) == 2 and not gen.iter.keywords:
                # all(is_instance(item, item_type) for item, item_type in zip(<value>, <types>))
                it = m.eval(gen.iter.args[0])
                ts = seq_ty(m.eval(gen.iter.args[1]))
                if isinstance(it, VU) and it.sort == VAL and ts is not None:
                    m.ctx.check(zip_spec(elems(it.term), ts.term), f"{m.contract.key}/recursive-positions-specified[zip]", "ih")
                    return VBool(zip_conf(elems(it.term), ts.term))
        finally:
            m.env = saved
        return None

    world.name_hooks.append(name_hook)
    world.eq_hooks.append(eq_hook)
    world.isinstance_hooks.insert(0, isinst_hook)
    world.call_hooks.insert(0, call_hook)
    world.py_in_hooks = [in_hook]
    world.anyall_hooks = [anyall]
    world.exc_parents["TypeError"] = "Exception"
    A(Contract(f"{TM_}:is_instance", params={"value": "Val", "type_": "Ty"}, returns="bool", props=P,
               requires=["wf_ty(type_)", "wf_val(value)", "specified(value, type_)", "implies(kind(type_) == K_NEWTYPE, wf_ty(inner(type_)))"],
               may_raise=["RuntimeError"],
               ensures=["result == conforms(value, type_)"],
               note="conforms: bool only for bool (never for int), int and float for float, None only for NoneType / unions containing it, unions by any member, "
                    "fixed tuples element-wise with exact length, variadic element-wise, empty tuple annotation only the empty tuple, literals by membership, "
                    "plain classes by instance, Any always; recursive calls (NewType, union members, elements) are the induction hypothesis"))
    sf["origin_isinstance"] = lambda v, t: VBool(origin_inst(v.term, t.term))
    # ---- _check_runtime_types: exactly the non-conforming fields, in order ------------------------------------
    from pyvc.core import mk_snoc
    from pyvc.values import rec_sort
    FLD, NODE, TI = usort("Fld"), usort("NodeObj"), usort("TypeInfo")
    FT = rec_sort("FieldTy", [("field", FLD), ("info", TI)], tuple_like=True)
    SFT, SF = seq_of(FT), seq_of(FLD)
    resolved = z3.Function("resolved_type", TI.z3(), TY.z3())
    fvalue = z3.Function("field_value", NODE.z3(), FLD.z3(), VAL.z3())
    isinst_res = z3.Function("is_instance_result", VAL.z3(), TY.z3(), z3.BoolSort())
    bad = lib.fn("bad_fields", [NODE, SFT], SF)
    bad.rule("bad_fields-empty", 1, "empty")(lambda a, p: z3.Empty(SF.z3()))
    bad.rule("bad_fields-snoc", 1, "snoc")(lambda a, p: z3.Concat(bad.t(a[0], p[0]),
                                                                z3.If(isinst_res(fvalue(a[0], FT.get(p[1], "field").term), resolved(FT.get(p[1], "info").term)),
                                                                      z3.Empty(SF.z3()), z3.Unit(FT.get(p[1], "field").term))))
    sf["bad_fields"] = bad
    sf["is_instance_result"] = lambda v, t: VBool(isinst_res(v.term, t.term))

    def attr2(m, obj, name):
        if isinstance(obj, VU) and obj.sort == TI and name == "resolved_type":
            return TY.wrap(resolved(obj.term))
        if isinstance(obj, VU) and obj.sort == FLD and name == "name":
            return VPy(("fieldname", obj))
        if isinstance(obj, VSeq) and obj.sort == SFT and name == "items":
            from pyvc.values import VBound
            return VBound(obj, "items")
        return None

    def call2(m, func, a, kw, node):
        from pyvc.values import VBound
        if isinstance(func, VBound) and isinstance(func.recv, VSeq) and func.recv.sort == SFT and func.name == "items":
            return func.recv
        if isinstance(func, VPy) and func.obj == ("builtin", "getattr") and isinstance(a[0], VU) and a[0].sort == NODE and isinstance(a[1], VPy) and a[1].obj[0] == "fieldname":
            return VAL.wrap(fvalue(a[0].term, a[1].obj[1].term))
        return NotImplemented

    world.attr_hooks.insert(0, attr2)
    world.call_hooks.insert(0, call2)
    A(Contract(f"{TM_}:is_instance", variant_of="callee", params={"value": "Val", "type_": "Ty"}, returns="bool", props=P, trusted=True,
               trusted_reason="proved above; summarised for its caller by the result function is_instance_result, which equals conforms wherever the statement speaks (specified)",
               may_raise=["RuntimeError"], ensures=["result == is_instance_result(value, type_)", "implies(specified(value, type_), result == conforms(value, type_))"]))
    reg.contracts[f"{TM_}:is_instance#callee"].fn = f"{TM_}:is_instance"
    orig_lookup = world.registry.contracts

    def resolve(m, n):
        if n == "is_instance" and m.contract.qualname == "_check_runtime_types":
            return VPy(("contract", f"{TM_}:is_instance#callee"))
        return None

    world.name_hooks.insert(0, resolve)
    A(Contract("pyoak.node:_check_runtime_types", params={"node": "NodeObj", "type_map": "Seq[FieldTy]"}, returns="Seq[Fld]", props=P,
               may_raise=["RuntimeError"], locals={"incorrect_fields": "List[Fld]"},
               ensures=["result == bad_fields(node, type_map)"],
               loops={1: Loop(inv=["incorrect_fields == bad_fields(node, done1)"])},
               note="the returned list is exactly the fields whose value is_instance rejects for the field's resolved type, in mapping order (type_map abstracted as its items sequence)"))
    # ---- the two NewType helpers against the kind model: isinstance(t, NewType) is `kind == NEWTYPE`, t.__supertype__ is inner(t) -----------------------
    def isinst_nt(m, v, cls):
        if isinstance(v, VU) and v.sort == TY and getattr(cls, "name", None) == "NewType":
            return kind(v.term) == K["NEWTYPE"]
        return None

    def attr_nt(m, obj, name):
        if isinstance(obj, VU) and obj.sort == TY and name == "__supertype__":
            return TY.wrap(inner(obj.term))
        return None

    world.isinstance_hooks.insert(0, isinst_nt)
    world.attr_hooks.insert(0, attr_nt)
    world.name_hooks.append(lambda m, n: VCls("NewType") if n == "NewType" else None)
    A(Contract(f"{TM_}:unwrap_newtype", variant_of="body", params={"type_": "Ty"}, returns="Ty", props=P, requires=["wf_ty(type_)"],
               ensures=["implies(kind(old(type_)) == K_NEWTYPE, result == inner(old(type_)))", "implies(kind(old(type_)) != K_NEWTYPE, result == old(type_))"],
               loops={1: Loop(inv=["type_ == old(type_) or (kind(old(type_)) == K_NEWTYPE and type_ == inner(old(type_)) and kind(type_) != K_NEWTYPE)"])},
               note="the wrapped type of a NewType, the type itself otherwise (the loop runs at most once: wf_ty says a NewType wraps a non-NewType); "
                    "model: isinstance(t, NewType) is kind == NEWTYPE, t.__supertype__ is inner(t)"))
    reg.contracts[f"{TM_}:unwrap_newtype#body"].fn = f"{TM_}:unwrap_newtype"
    A(Contract(f"{TM_}:is_new_type", variant_of="body", params={"type_": "Ty"}, returns="bool", props=P, ensures=["result == (kind(type_) == K_NEWTYPE)"],
               note="isinstance against typing.NewType (a TypeError from isinstance would answer False; none arises in the model)"))
    reg.contracts[f"{TM_}:is_new_type#body"].fn = f"{TM_}:is_new_type"
    # ---- is_optional against the kind model: a union one of whose arguments is NoneType -------------------------------------------------------------
    any_nonetype = lib.fn("any_nonetype", [STY], BOOL)
    any_nonetype.rule("any_nonetype-empty", 0, "empty")(lambda a, p: z3.BoolVal(False))
    any_nonetype.rule("any_nonetype-cons", 0, "cons")(lambda a, p: z3.Or(kind(p[0]) == K["NONETYPE"], any_nonetype.t(p[1])))
    sf["any_nonetype"] = any_nonetype
    sf["type_args"] = sf["args"]            # (`args` is also a local of is_optional)

    def anyall_none(m, name, ge, env):
        # any(a is type(None) for a in <types>): Python's any over the argument sequence, with `a is type(None)` read as kind(a) == NONETYPE
        if name != "any" or len(ge.generators) != 1 or ge.generators[0].ifs or not isinstance(ge.generators[0].target, ast.Name):
            return None
        el, tv = ge.elt, ge.generators[0].target.id
        if not (isinstance(el, ast.Compare) and len(el.ops) == 1 and isinstance(el.ops[0], ast.Is) and isinstance(el.left, ast.Name) and el.left.id == tv
                and ast.unparse(el.comparators[0]) == "type(None)"):
            return None
        saved = m.env
        try:
            m.env = dict(env)
            it = m.eval(ge.generators[0].iter)
            sv = m.seq_value(it) if not isinstance(it, VSeq) else it
            if sv is None or sv.sort != STY:
                return None
            return VBool(any_nonetype.t(sv.term))
        finally:
            m.env = saved

    world.anyall_hooks.append(anyall_none)

    def is_hook_optional(m, a, b):
        # get_origin(t) is typing.Optional: never (CPython's get_origin returns typing.Union for Optional[...])
        for x, y in ((a, b), (b, a)):
            if isinstance(y, VPy) and y.obj == ("typing_const", "Optional") and (isinstance(x, VOpt) and x.sort.elem == ORG or isinstance(x, VU) and x.sort == ORG or isinstance(x, VNone)):
                return z3.BoolVal(False)
        return None

    from pyvc.values import VNone
    world.eq_hooks.insert(0, is_hook_optional)
    world.name_hooks.append(lambda m, n: VPy(("typing_const", "Optional")) if n == "Optional" else None)
    A(Contract(f"{TM_}:is_optional", variant_of="body", params={"type_": "Ty"}, returns="bool", props=P,
               ensures=["result == (kind(type_) == K_UNION and any_nonetype(type_args(type_)))"],
               note="a union with NoneType among its arguments (union_has_none(t) in the other contracts abbreviates any_nonetype(args(t))); get_origin never returns typing.Optional"))
    reg.contracts[f"{TM_}:is_optional#body"].fn = f"{TM_}:is_optional"
    world.trusted_notes.append("wf_ty / wf_val (the shape facts CPython's typing module guarantees for annotations, the value kinds) are assumed of EVERY annotation and value object, nested ones included: the induction hypotheses used for members, element types and wrapped types rely on that, the recursive summary is_instance#callee does not re-require them")
    return world, lib, reg, []
