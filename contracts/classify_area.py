"""C11 (proved part): the recursive shape predicates of pyoak.typing over the annotation model of C13.

  mentions_node(t)     a node class occurs anywhere in t (through NewType, unions, tuples, any generic)
  child_ty(t, seq)     the statement's child shapes: a node class; a union of node classes (+ None, only outside
                       tuples); with seq: a fixed or variadic tuple whose members are child_ty(., False)
  prop_ok(t)           no mutable collection anywhere
has_check_type_in_type == mentions_node, _is_valid_child_field_type == OK exactly for child_ty,
is_valid_child_field_type is total (inner TypeError -> OTHER), is_valid_property_type == prop_ok.
Nested positions are the induction hypothesis (opaque any_/all_ terms), as in C13."""
from __future__ import annotations

import ast

import z3

from pyvc.contract import Contract, Registry
from pyvc.specfn import SpecLib
from pyvc.symex import RaiseSig, World
from pyvc.values import BOOL, INT, NONE, STR, EngineError, V, VBool, VCls, VExc, VInt, VOpt, VPy, VSeq, VTuple, VU, fresh_name, opt_of, seq_of, usort

from .typing_area import K, KINDS

TM_ = "pyoak.typing"


def build():
    reg = Registry()
    world = World(reg)
    lib = SpecLib()
    TY, CK = usort("Ty"), usort("CheckType")
    STY = seq_of(TY)
    kind = z3.Function("ty_kind", TY.z3(), z3.IntSort())
    args = z3.Function("ty_args", TY.z3(), STY.z3())
    inner = z3.Function("newtype_inner", TY.z3(), TY.z3())
    is_node = z3.Function("is_node_class", TY.z3(), z3.BoolSort())          # issubclass(t, ASTNode) for a plain class t
    is_mut = z3.Function("is_mutable_collection_ty", TY.z3(), z3.BoolSort())
    is_coll = z3.Function("is_collection_ty", TY.z3(), z3.BoolSort())
    is_nonetype = lambda t: kind(t) == K["NONETYPE"]
    any_mentions = z3.Function("any_mentions_node", STY.z3(), z3.BoolSort())
    all_members_nodes = z3.Function("all_non_none_members_are_nodes", STY.z3(), z3.BoolSort())
    all_child_noseq = z3.Function("all_child_ty_noseq", STY.z3(), z3.BoolSort())
    all_prop_ok = z3.Function("all_prop_ok", STY.z3(), z3.BoolSort())
    has_none = z3.Function("union_has_none", TY.z3(), z3.BoolSort())
    isk = lambda t, *ks: z3.Or(*[kind(t) == K[k] for k in ks])
    is_class = lambda t: isk(t, "INT", "BOOL", "FLOAT", "COMPLEX", "NONETYPE", "CLASS", "COLLBARE")   # issubclass() does not raise
    variadic = lambda t: z3.And(z3.Length(args(t)) == 2, kind(args(t)[1]) == K["ELLIPSIS"])
    mentions = lib.fn("mentions_node", [TY], BOOL)
    child_ty = lib.fn("child_ty", [TY, BOOL], BOOL)
    prop_ok = lib.fn("prop_ok", [TY], BOOL)
    mentions.rule("mentions_node-def", 0, "always")(lambda a, p: z3.If(kind(a[0]) == K["NEWTYPE"], mentions.t(inner(a[0])),
                                                                     z3.Or(z3.And(is_class(a[0]), is_node(a[0])), any_mentions(args(a[0])))))

    def child_rhs(a, p):
        t, seq = a
        tup = z3.If(z3.Length(args(t)) == 0, z3.BoolVal(False), z3.If(variadic(t), child_ty.t(args(t)[0], z3.BoolVal(False)), all_child_noseq(args(t))))
        return z3.If(kind(t) == K["NEWTYPE"], child_ty.t(inner(t), seq),
               z3.If(kind(t) == K["UNION"], z3.And(z3.Or(seq, z3.Not(has_none(t))), all_members_nodes(args(t))),
               z3.If(z3.And(seq, kind(t) == K["TUPLE"]), tup,
               z3.If(z3.And(seq, kind(t) == K["COLLBARE"], bare_tuple(t)), z3.BoolVal(False),     # bare `tuple`: no member types
                     z3.And(z3.Not(is_mut(t)), is_class(t), is_node(t))))))

    bare_tuple = z3.Function("is_bare_tuple", TY.z3(), z3.BoolSort())
    child_ty.rule("child_ty-def", 0, "always")(child_rhs)
    prop_ok.rule("prop_ok-def", 0, "always")(lambda a, p: z3.If(is_coll(a[0]), z3.And(z3.Not(is_mut(a[0])), all_prop_ok(args(a[0]))),
                                                              z3.If(kind(a[0]) == K["UNION"], all_prop_ok(args(a[0])),
                                                                    z3.If(kind(a[0]) == K["NEWTYPE"], prop_ok.t(inner(a[0])), z3.BoolVal(True)))))
    sf = world.spec_fns
    sf.update({"mentions_node": mentions, "child_ty": child_ty, "prop_ok": prop_ok, "kind": lambda t: VInt(kind(t.term)), "args": lambda t: STY.wrap(args(t.term)),
               "inner": lambda t: TY.wrap(inner(t.term)), "union_has_none": lambda t: VBool(has_none(t.term)),
               "is_mut": lambda t: VBool(is_mut(t.term)), "is_coll": lambda t: VBool(is_coll(t.term)),
               "is_bare_tuple": lambda t: VBool(z3.And(kind(t.term) == K["COLLBARE"], bare_tuple(t.term)))})
    for k, i in K.items():
        world.consts["K_" + k] = VInt(i)

    def wf(t):
        return z3.And(kind(t) >= 0, kind(t) < len(KINDS), kind(t) != K["ELLIPSIS"], z3.Implies(kind(t) == K["NEWTYPE"], kind(inner(t)) != K["NEWTYPE"]),
                      z3.Implies(isk(t, "TUPLE", "COLL", "COLLBARE"), is_coll(t)), z3.Implies(is_coll(t), isk(t, "TUPLE", "COLL", "COLLBARE")),
                      z3.Implies(is_mut(t), isk(t, "COLL", "COLLBARE")), z3.Implies(kind(t) == K["TUPLE"], z3.Not(is_mut(t))),
                      z3.Implies(z3.Not(isk(t, "UNION", "TUPLE", "COLL", "LITERAL", "TYPEGEN")), z3.Length(args(t)) == 0),
                      z3.Implies(bare_tuple(t), z3.And(kind(t) == K["COLLBARE"], z3.Not(is_mut(t)), z3.Not(is_node(t)))),
                      z3.Implies(is_node(t), kind(t) == K["CLASS"]))

    wfd = lib.fn("wf_deep", [TY], BOOL)   # wf at the type itself, at the wrapped type of a NewType and at the first argument (recursive)
    wfd.rule("wf_deep-def", 0, "always", raw=True)(lambda a, p: z3.Implies(wfd.t(a[0]), z3.And(wf(a[0]), z3.Implies(kind(a[0]) == K["NEWTYPE"], wfd.t(inner(a[0]))),
                                                                                             z3.Implies(z3.Length(args(a[0])) > 0, wfd.t(args(a[0])[0])))))
    sf["wf_ty"] = wfd
    A = reg.add
    P = ["C11"]
    why = "statement about CPython's typing module; assumed, validated natively by rt.c11 / rt.c13 on the annotation grammar"
    for name, cond in (("is_new_type", "kind(type_) == K_NEWTYPE"), ("is_union", "kind(type_) == K_UNION"), ("is_tuple", "kind(type_) == K_TUPLE or is_bare_tuple(type_)"),
                       ("is_collection", "is_coll(type_)"), ("is_mutable_collection", "is_mut(type_)"),
                       ("is_optional", "kind(type_) == K_UNION and union_has_none(type_)")):
        A(Contract(f"{TM_}:{name}", params={"type_": "Ty"}, returns="bool", trusted=True, trusted_reason=why, props=P, ensures=[f"result == ({cond})"]))
    A(Contract(f"{TM_}:unwrap_newtype", params={"type_": "Ty"}, returns="Ty", trusted=True, trusted_reason=why, props=P,
               ensures=["implies(kind(type_) == K_NEWTYPE, result == inner(type_))", "implies(kind(type_) != K_NEWTYPE, result == type_)"]))
    A(Contract("typing:get_args", params={"tp": "Ty"}, returns="Seq[Ty]", trusted=True, trusted_reason=why, props=P, ensures=["result == args(tp)"]))
    REASONS = ["OK", "OPT_IN_SEQ", "MUT_SEQ", "NON_NODE_TYPE", "EMPTY_TUPLE", "OTHER"]
    RS = usort("Reason")
    rconst = {r: RS.fresh("REASON_" + r) for r in REASONS}
    world.axioms.append(z3.Distinct(*[c.term for c in rconst.values()]))
    for r, c in rconst.items():
        world.consts["R_" + r] = c

    def attr(m, obj, name):
        if isinstance(obj, VCls) and obj.name == "InvalidTypeReason" and name in rconst:
            return rconst[name]
        return None

    def name_hook(m, n):
        if n == "InvalidTypeReason":
            return VCls("InvalidTypeReason")
        if n == "get_args":
            return VPy(("contract", "typing:get_args"))
        if n == "Ellipsis":
            return VPy(("tyconst", "Ellipsis"))
        return None

    def eq_hook(m, a, b):
        for x, y in ((a, b), (b, a)):
            if isinstance(x, VU) and x.sort == TY and isinstance(y, VPy) and y.obj == ("tyconst", "Ellipsis"):
                return kind(x.term) == K["ELLIPSIS"]
        return None

    def call_hook(m, func, a, kw, node):
        if isinstance(func, VPy) and func.obj == ("builtin", "issubclass") and isinstance(a[0], VU) and a[0].sort == TY:
            # issubclass(x, cls) raises TypeError unless x is a class
            if m.ctx.branch(z3.Not(is_class(a[0].term))):
                raise RaiseSig(VExc("TypeError"))
            return VBool(is_node(a[0].term))
        if isinstance(func, VPy) and func.obj == ("builtin", "type") and len(a) == 1 and isinstance(a[0], VPy) and a[0].obj is None:
            return VPy(("nonetype",))
        return NotImplemented

    def anyall(m, name, ge, env):
        src = ast.unparse(ge)
        saved = m.env
        try:
            m.env = dict(env)
            t = m.env["type_"]
            same_args = lambda: m.ctx.check(m.equal(m.env["args"], STY.wrap(args(t.term))), f"{m.contract.key}/args-are-the-annotation's", "model") if "args" in m.env else None
            if src == "(has_check_type_in_type(t, check_type) for t in get_args(type_))" and name == "any":
                return VBool(any_mentions(args(t.term)))
            if src in ("(issubclass(unwrap_newtype(t), node_base_type) for t in args if t is not type(None))",) and name == "all":
                same_args()
                # the member test may raise TypeError for a non-class member: then the caller's `except TypeError` answers NON_NODE_TYPE,
                # which is what `False` gives as well
                return VBool(all_members_nodes(args(t.term)))
            if src == "(_is_valid_child_field_type(t, node_base_type, False) == InvalidTypeReason.OK for t in args)" and name == "all":
                same_args()
                return VBool(all_child_noseq(args(t.term)))
            if src == "(is_valid_property_type(t) for t in agrs)" and name == "all":
                return VBool(all_prop_ok(args(t.term)))
            if src == "(is_valid_property_type(t) for t in get_args(type_))" and name == "all":
                return VBool(all_prop_ok(args(t.term)))
        finally:
            m.env = saved
        return None

    world.attr_hooks.insert(0, attr)
    world.name_hooks.append(name_hook)
    world.eq_hooks.append(eq_hook)
    world.call_hooks.insert(0, call_hook)
    world.anyall_hooks = [anyall]
    world.exc_parents["TypeError"] = "Exception"
    world.class_parents["InvalidTypeReason"] = []
    A(Contract(f"{TM_}:has_check_type_in_type", params={"type_": "Ty", "check_type": "CheckType"}, returns="bool", props=P,
               requires=["wf_ty(type_)"], ensures=["result == mentions_node(type_)"],
               note="check_type is the node base class; a class mentions a node iff it is a node class, a NewType as the type it wraps, anything else through its arguments"))
    A(Contract(f"{TM_}:_is_valid_child_field_type", params={"type_": "Ty", "node_base_type": "CheckType", "allow_sequence": "bool"}, returns="Reason", props=P,
               requires=["wf_ty(type_)"], may_raise=["TypeError"],
               ensures=["(result == R_OK) == child_ty(type_, allow_sequence)"],
               note="OK exactly for the statement's child shapes; a TypeError (issubclass on a non-class) may escape and is mapped to OTHER by the public wrapper"))
    A(Contract(f"{TM_}:_is_valid_child_field_type", variant_of="callee", params={"type_": "Ty", "node_base_type": "CheckType", "allow_sequence": "bool"}, returns="Reason",
               props=P, trusted=True, trusted_reason="proved above", may_raise=["TypeError"],
               ensures=["(result == R_OK) == child_ty(type_, allow_sequence)", "implies(child_ty(type_, allow_sequence), True)"]))
    reg.contracts[f"{TM_}:_is_valid_child_field_type#callee"].fn = f"{TM_}:_is_valid_child_field_type"
    escapes = z3.Function("type_error_escapes", TY.z3(), z3.BoolSort())
    A(Contract(f"{TM_}:is_valid_child_field_type", params={"type_": "Ty", "node_type": "CheckType"}, returns="Reason", props=P,
               requires=["wf_ty(type_)"],
               ensures=["implies(result == R_OK, child_ty(type_, True))"],
               note="total: never raises; OK only for a child shape (a TypeError inside yields OTHER)"))
    A(Contract(f"{TM_}:is_valid_property_type", params={"type_": "Ty"}, returns="bool", props=P,
               requires=["wf_ty(type_)"], ensures=["result == prop_ok(type_)"],
               note="a property annotation is valid iff no mutable collection occurs anywhere in it"))
    return world, lib, reg, []
