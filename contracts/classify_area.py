"""C11 (proved part): the recursive shape predicates of pyoak.typing over the annotation model of C13.

  mentions_node(t)     a node class occurs anywhere in t (through NewType, unions, tuples, any generic)
  child_ty(t, seq)     the statement's child shapes: a node class; a union of node classes (+ None, only outside
                       tuples); with seq: a fixed or variadic tuple whose members are child_ty(., False)
  prop_ok(t)           no mutable collection anywhere
has_check_type_in_type == mentions_node, _is_valid_child_field_type == OK exactly for child_ty,
is_valid_child_field_type is total (inner TypeError -> OTHER), is_valid_property_type == prop_ok.
Nested positions are the induction hypothesis (opaque any_/all_ terms), as in C13."""
from __future__ import annotations

import ast

import z3

from pyvc.contract import Contract, Registry
from pyvc.specfn import SpecLib
from pyvc.symex import RaiseSig, World
from pyvc.values import BOOL, INT, NONE, STR, EngineError, V, VBool, VCls, VExc, VInt, VOpt, VPy, VSeq, VTuple, VU, fresh_name, opt_of, seq_of, usort

from .typing_area import K, KINDS

TM_ = "pyoak.typing"


def build():
    reg = Registry()
    world = World(reg)
    lib = SpecLib()
    TY, CK = usort("Ty"), usort("CheckType")
    STY = seq_of(TY)
    kind = z3.Function("ty_kind", TY.z3(), z3.IntSort())
    args = z3.Function("ty_args", TY.z3(), STY.z3())
    inner = z3.Function("newtype_inner", TY.z3(), TY.z3())
    is_node = z3.Function("is_node_class", TY.z3(), z3.BoolSort())          # issubclass(t, ASTNode) for a plain class t
    is_mut = z3.Function("is_mutable_collection_ty", TY.z3(), z3.BoolSort())
    is_coll = z3.Function("is_collection_ty", TY.z3(), z3.BoolSort())
    is_nonetype = lambda t: kind(t) == K["NONETYPE"]
    any_mentions = z3.Function("any_mentions_node", STY.z3(), z3.BoolSort())
    all_members_nodes = z3.Function("all_non_none_members_are_nodes", STY.z3(), z3.BoolSort())
    all_child_noseq = z3.Function("all_child_ty_noseq", STY.z3(), z3.BoolSort())
    all_prop_ok = z3.Function("all_prop_ok", STY.z3(), z3.BoolSort())
    has_none = z3.Function("union_has_none", TY.z3(), z3.BoolSort())
    isk = lambda t, *ks: z3.Or(*[kind(t) == K[k] for k in ks])
    is_class = lambda t: isk(t, "INT", "BOOL", "FLOAT", "COMPLEX", "NONETYPE", "CLASS", "COLLBARE")   # issubclass() does not raise
    variadic = lambda t: z3.And(z3.Length(args(t)) == 2, kind(args(t)[1]) == K["ELLIPSIS"])
    mentions = lib.fn("mentions_node", [TY], BOOL)
    child_ty = lib.fn("child_ty", [TY, BOOL], BOOL)
    prop_ok = lib.fn("prop_ok", [TY], BOOL)
    mentions.rule("mentions_node-def", 0, "always")(lambda a, p: z3.If(kind(a[0]) == K["NEWTYPE"], mentions.t(inner(a[0])),
                                                                     z3.Or(z3.And(is_class(a[0]), is_node(a[0])), any_mentions(args(a[0])))))

    def child_rhs(a, p):
        t, seq = a
        tup = z3.If(z3.Length(args(t)) == 0, z3.BoolVal(False), z3.If(variadic(t), child_ty.t(args(t)[0], z3.BoolVal(False)), all_child_noseq(args(t))))
        return z3.If(kind(t) == K["NEWTYPE"], child_ty.t(inner(t), seq),
               z3.If(kind(t) == K["UNION"], z3.And(z3.Or(seq, z3.Not(has_none(t))), all_members_nodes(args(t))),
               z3.If(z3.And(seq, kind(t) == K["TUPLE"]), tup,
               z3.If(z3.And(seq, kind(t) == K["COLLBARE"], bare_tuple(t)), z3.BoolVal(False),     # bare `tuple`: no member types
                     z3.And(z3.Not(is_mut(t)), is_class(t), is_node(t))))))

    bare_tuple = z3.Function("is_bare_tuple", TY.z3(), z3.BoolSort())
    child_ty.rule("child_ty-def", 0, "always")(child_rhs)
    prop_ok.rule("prop_ok-def", 0, "always")(lambda a, p: z3.If(is_coll(a[0]), z3.And(z3.Not(is_mut(a[0])), all_prop_ok(args(a[0]))),
                                                              z3.If(kind(a[0]) == K["UNION"], all_prop_ok(args(a[0])),
                                                                    z3.If(kind(a[0]) == K["NEWTYPE"], prop_ok.t(inner(a[0])), z3.BoolVal(True)))))
    sf = world.spec_fns
    sf.update({"mentions_node": mentions, "child_ty": child_ty, "prop_ok": prop_ok, "kind": lambda t: VInt(kind(t.term)), "args": lambda t: STY.wrap(args(t.term)),
               "inner": lambda t: TY.wrap(inner(t.term)), "union_has_none": lambda t: VBool(has_none(t.term)),
               "is_mut": lambda t: VBool(is_mut(t.term)), "is_coll": lambda t: VBool(is_coll(t.term)),
               "is_bare_tuple": lambda t: VBool(z3.And(kind(t.term) == K["COLLBARE"], bare_tuple(t.term)))})
    for k, i in K.items():
        world.consts["K_" + k] = VInt(i)

    def wf(t):
        return z3.And(kind(t) >= 0, kind(t) < len(KINDS), kind(t) != K["ELLIPSIS"], z3.Implies(kind(t) == K["NEWTYPE"], kind(inner(t)) != K["NEWTYPE"]),
                      z3.Implies(isk(t, "TUPLE", "COLL", "COLLBARE"), is_coll(t)), z3.Implies(is_coll(t), isk(t, "TUPLE", "COLL", "COLLBARE")),
                      z3.Implies(is_mut(t), isk(t, "COLL", "COLLBARE")), z3.Implies(kind(t) == K["TUPLE"], z3.Not(is_mut(t))),
                      z3.Implies(z3.Not(isk(t, "UNION", "TUPLE", "COLL", "LITERAL", "TYPEGEN")), z3.Length(args(t)) == 0),
                      z3.Implies(bare_tuple(t), z3.And(kind(t) == K["COLLBARE"], z3.Not(is_mut(t)), z3.Not(is_node(t)))),
                      z3.Implies(is_node(t), kind(t) == K["CLASS"]))

    wfd = lib.fn("wf_deep", [TY], BOOL)   # wf at the type itself, at the wrapped type of a NewType and at the first argument (recursive)
    wfd.rule("wf_deep-def", 0, "always", raw=True)(lambda a, p: z3.Implies(wfd.t(a[0]), z3.And(wf(a[0]), z3.Implies(kind(a[0]) == K["NEWTYPE"], wfd.t(inner(a[0]))),
                                                                                             z3.Implies(z3.Length(args(a[0])) > 0, wfd.t(args(a[0])[0])))))
    sf["wf_ty"] = wfd
    A = reg.add
    P = ["C11"]
    why = "statement about CPython's typing module; assumed, validated natively by rt.c11 / rt.c13 on the annotation grammar"
    for name, cond in (("is_new_type", "kind(type_) == K_NEWTYPE"), ("is_union", "kind(type_) == K_UNION"), ("is_tuple", "kind(type_) == K_TUPLE or is_bare_tuple(type_)"),
                       ("is_collection", "is_coll(type_)"), ("is_mutable_collection", "is_mut(type_)"),
                       ("is_optional", "kind(type_) == K_UNION and union_has_none(type_)")):
        A(Contract(f"{TM_}:{name}", params={"type_": "Ty"}, returns="bool", trusted=True, props=P, ensures=[f"result == ({cond})"],
                   trusted_reason=("callee summary; proved in contracts.typing_area as " + name + "#body against the kind model" + (" (union_has_none(t) abbreviates: some argument of t has kind NONETYPE)" if name == "is_optional" else "")) if name in ("is_optional", "is_new_type") else why))
    A(Contract(f"{TM_}:unwrap_newtype", params={"type_": "Ty"}, returns="Ty", trusted=True, props=P,
               trusted_reason="callee summary; proved in contracts.typing_area as unwrap_newtype#body against the kind model (isinstance(t, NewType) is kind == NEWTYPE, t.__supertype__ is inner(t))",
               ensures=["implies(kind(type_) == K_NEWTYPE, result == inner(type_))", "implies(kind(type_) != K_NEWTYPE, result == type_)"]))
    A(Contract("typing:get_args", params={"tp": "Ty"}, returns="Seq[Ty]", trusted=True, trusted_reason=why, props=P, ensures=["result == args(tp)"]))
    REASONS = ["OK", "OPT_IN_SEQ", "MUT_SEQ", "NON_NODE_TYPE", "EMPTY_TUPLE", "OTHER"]
    RS = usort("Reason")
    rconst = {r: RS.fresh("REASON_" + r) for r in REASONS}
    world.axioms.append(z3.Distinct(*[c.term for c in rconst.values()]))
    for r, c in rconst.items():
        world.consts["R_" + r] = c

    def attr(m, obj, name):
        if isinstance(obj, VCls) and obj.name == "InvalidTypeReason" and name in rconst:
            return rconst[name]
        return None

    def name_hook(m, n):
        if n == "InvalidTypeReason":
            return VCls("InvalidTypeReason")
        if n == "get_args":
            return VPy(("contract", "typing:get_args"))
        if n == "Ellipsis":
            return VPy(("tyconst", "Ellipsis"))
        return None

    def eq_hook(m, a, b):
        for x, y in ((a, b), (b, a)):
            if isinstance(x, VU) and x.sort == TY and isinstance(y, VPy) and y.obj == ("tyconst", "Ellipsis"):
                return kind(x.term) == K["ELLIPSIS"]
        return None

    def call_hook(m, func, a, kw, node):
        if isinstance(func, VPy) and func.obj == ("builtin", "issubclass") and isinstance(a[0], VU) and a[0].sort == TY:
            # issubclass(x, cls) raises TypeError unless x is a class
            if m.ctx.branch(z3.Not(is_class(a[0].term))):
                raise RaiseSig(VExc("TypeError"))
            return VBool(is_node(a[0].term))
        if isinstance(func, VPy) and func.obj == ("builtin", "type") and len(a) == 1 and isinstance(a[0], VPy) and a[0].obj is None:
            return VPy(("nonetype",))
        return NotImplemented

    def anyall(m, name, ge, env):
        """The four generator expressions of the shape predicates, recognised by *structure* (callee applied to the loop variable, the
        other arguments, the filter), not by the names of locals: the iterated expression is evaluated and the opaque induction-hypothesis
        predicate is applied to that sequence term."""
        if len(ge.generators) != 1 or not isinstance(ge.generators[0].target, ast.Name):
            return None
        gen = ge.generators[0]
        tv = gen.target.id
        el, cmp_src = ge.elt, None
        if isinstance(el, ast.Compare) and len(el.ops) == 1 and isinstance(el.ops[0], ast.Eq):
            el, cmp_src = el.left, ast.unparse(el.comparators[0])
        if not (isinstance(el, ast.Call) and isinstance(el.func, ast.Name)):
            return None
        callee, a_src, ifs = el.func.id, [ast.unparse(x) for x in el.args], [ast.unparse(x) for x in gen.ifs]
        saved = m.env
        try:
            m.env = dict(env)
            it = m.eval(gen.iter)
            sv = m.seq_value(it) if not isinstance(it, VSeq) else it
            if sv is None or sv.sort != STY:
                return None
            if name == "any" and callee == "has_check_type_in_type" and a_src == [tv, "check_type"] and not ifs and cmp_src is None:
                return VBool(any_mentions(sv.term))
            if name == "all" and callee == "issubclass" and a_src == [f"unwrap_newtype({tv})", "node_base_type"] and ifs == [f"{tv} is not type(None)"] and cmp_src is None:
                # the member test may raise TypeError for a non-class member: then the caller's `except TypeError` answers NON_NODE_TYPE,
                # which is what `False` gives as well
                return VBool(all_members_nodes(sv.term))
            if name == "all" and callee == "_is_valid_child_field_type" and a_src == [tv, "node_base_type", "False"] and not ifs and cmp_src == "InvalidTypeReason.OK":
                # a member's check may raise TypeError; by the callee's exceptional postcondition that member is not a child shape
                if m.ctx.branch(z3.Bool(fresh_name("member_check_raises"))):
                    m.ctx.assume(z3.Not(all_child_noseq(sv.term)))
                    raise RaiseSig(VExc("TypeError"))
                return VBool(all_child_noseq(sv.term))
            if name == "all" and callee == "is_valid_property_type" and a_src == [tv] and not ifs and cmp_src is None:
                return VBool(all_prop_ok(sv.term))
        finally:
            m.env = saved
        return None

    world.attr_hooks.insert(0, attr)
    world.name_hooks.append(name_hook)
    world.eq_hooks.append(eq_hook)
    world.call_hooks.insert(0, call_hook)
    world.anyall_hooks = [anyall]
    world.exc_parents["TypeError"] = "Exception"
    world.class_parents["InvalidTypeReason"] = []
    A(Contract(f"{TM_}:has_check_type_in_type", params={"type_": "Ty", "check_type": "CheckType"}, returns="bool", props=P,
               requires=["wf_ty(type_)"], ensures=["result == mentions_node(type_)"],
               note="check_type is the node base class; a class mentions a node iff it is a node class, a NewType as the type it wraps, anything else through its arguments"))
    A(Contract(f"{TM_}:_is_valid_child_field_type", params={"type_": "Ty", "node_base_type": "CheckType", "allow_sequence": "bool"}, returns="Reason", props=P,
               requires=["wf_ty(type_)"], may_raise=["TypeError"], exc_ensures=["not child_ty(type_, allow_sequence)"],
               ensures=["(result == R_OK) == child_ty(type_, allow_sequence)"],
               note="OK exactly for the statement's child shapes; a TypeError (issubclass on a non-class) may escape only for an annotation that is not a child shape, and is mapped to OTHER by the public wrapper"))
    A(Contract(f"{TM_}:_is_valid_child_field_type", variant_of="callee", params={"type_": "Ty", "node_base_type": "CheckType", "allow_sequence": "bool"}, returns="Reason",
               props=P, trusted=True, trusted_reason="proved above (recursion: induction hypothesis; its precondition is asserted at every recursive call)",
               requires=["wf_ty(type_)"], may_raise=["TypeError"], exc_ensures=["not child_ty(type_, allow_sequence)"],
               ensures=["(result == R_OK) == child_ty(type_, allow_sequence)"]))
    reg.contracts[f"{TM_}:_is_valid_child_field_type#callee"].fn = f"{TM_}:_is_valid_child_field_type"
    escapes = z3.Function("type_error_escapes", TY.z3(), z3.BoolSort())
    A(Contract(f"{TM_}:is_valid_child_field_type", params={"type_": "Ty", "node_type": "CheckType"}, returns="Reason", props=P,
               requires=["wf_ty(type_)"],
               ensures=["(result == R_OK) == child_ty(type_, True)"],
               note="total: never raises; OK exactly for a child shape (a TypeError inside yields OTHER, and only arises for non-child shapes)"))
    A(Contract(f"{TM_}:is_valid_property_type", params={"type_": "Ty"}, returns="bool", props=P,
               requires=["wf_ty(type_)"], ensures=["result == prop_ok(type_)"],
               note="a property annotation is valid iff no mutable collection occurs anywhere in it"))
    # ---- process_node_fields: the authoritative partition of a class's dataclass fields ---------------------------------
    from pyvc.contract import Loop
    from pyvc.core import mk_snoc
    from pyvc.maps import VMap, map_sort
    from pyvc.values import VStr, rec_sort
    from pyvc.verify import Lemma
    NCLS, FLD, INFO = usort("NodeClassObj"), usort("DField"), usort("TyInfo")
    FT = rec_sort("FieldAndType", [("fld", FLD), ("ty", TY)], tuple_like=True)
    BAD = rec_sort("BadField", [("name", STR), ("reason", STR), ("ty", TY)], tuple_like=True)
    SFT, SF = seq_of(FT), seq_of(FLD)
    MFI = map_sort(FLD, INFO)
    OI = MFI.opt
    field_types = z3.Function("field_types_of", NCLS.z3(), SFT.z3())
    info_of = z3.Function("type_info_of", TY.z3(), INFO.z3())
    fld_name = z3.Function("dfield_name", FLD.z3(), z3.StringSort())
    reason_text = z3.Function("reason_value", RS.z3(), z3.StringSort())
    f_of = lambda x: FT.get(FT.wrap(x).term, "fld").term
    t_of = lambda x: FT.get(FT.wrap(x).term, "ty").term
    is_bad = lambda x: z3.If(mentions.t(t_of(x)), z3.Not(child_ty.t(t_of(x), z3.BoolVal(True))), z3.Not(prop_ok.t(t_of(x))))
    cmap, pmap = lib.fn("child_map", [SFT], MFI), lib.fn("prop_map", [SFT], MFI)
    ckeys, pkeys = lib.fn("child_keys", [SFT], SF), lib.fn("prop_keys", [SFT], SF)
    any_bad = lib.fn("any_bad_field", [SFT], BOOL)
    all_wf = lib.fn("all_wf_ty", [SFT], BOOL)
    present = lambda mp, k: z3.Not(OI.is_none(z3.Select(mp, k)))
    for (mp, ks, sel, nm) in ((cmap, ckeys, lambda x: z3.And(mentions.t(t_of(x)), z3.Not(is_bad(x))), "child"), (pmap, pkeys, lambda x: z3.And(z3.Not(mentions.t(t_of(x))), z3.Not(is_bad(x))), "prop")):
        mp.rule(f"{nm}_map-empty", 0, "empty")(lambda a, p: MFI.empty().term)
        mp.rule(f"{nm}_map-snoc", 0, "snoc")(lambda a, p, mp=mp, sel=sel: z3.If(sel(p[1]), z3.Store(mp.t(p[0]), f_of(p[1]), OI.some(INFO.wrap(info_of(t_of(p[1])))).term), mp.t(p[0])))
        ks.rule(f"{nm}_keys-empty", 0, "empty")(lambda a, p: z3.Empty(SF.z3()))
        ks.rule(f"{nm}_keys-snoc", 0, "snoc")(lambda a, p, mp=mp, ks=ks, sel=sel: z3.If(z3.And(sel(p[1]), z3.Not(present(mp.t(p[0]), f_of(p[1])))), mk_snoc(ks.t(p[0]), f_of(p[1])), ks.t(p[0])))
    any_bad.rule("any_bad-empty", 0, "empty")(lambda a, p: z3.BoolVal(False))
    any_bad.rule("any_bad-snoc", 0, "snoc")(lambda a, p: z3.Or(any_bad.t(p[0]), is_bad(p[1])))
    all_wf.rule("all_wf-empty", 0, "empty")(lambda a, p: z3.BoolVal(True))
    all_wf.rule("all_wf-snoc", 0, "snoc")(lambda a, p: z3.And(all_wf.t(p[0]), wfd.t(t_of(p[1]))))
    all_wf.rule("all_wf-prefix", 0, "concat", "lemma", raw=True)(lambda a, p: z3.Implies(all_wf.t(z3.Concat(p[0], p[1])), all_wf.t(p[0])))
    sf.update({"child_map": cmap, "prop_map": pmap, "child_keys": ckeys, "prop_keys": pkeys, "any_bad_field": any_bad, "all_wf_ty": all_wf,
               "field_types_of": lambda c: SFT.wrap(field_types(c.term))})

    def attr_p(m, obj, name):
        if isinstance(obj, VU) and obj.sort == FLD and name == "name":
            return VStr(fld_name(obj.term))
        if isinstance(obj, VU) and obj.sort == RS and name == "value":
            return VStr(reason_text(obj.term))
        if isinstance(obj, VSeq) and obj.sort == SFT and name == "items":
            return VPy(("ft_items", obj))
        return None

    def call_p(m, func, a, kw, node):
        if isinstance(func, VPy) and isinstance(func.obj, tuple) and func.obj[0] == "ft_items":
            return func.obj[1]
        return NotImplemented

    world.attr_hooks.insert(0, attr_p)
    world.call_hooks.insert(0, call_p)
    world.exc_parents["InvalidFieldAnnotations"] = "Exception"
    A(Contract(f"{TM_}:get_field_types", params={"type_": "NodeClassObj"}, returns="Seq[FieldAndType]", props=P, trusted=True,
               trusted_reason="proved below as get_field_types#body (an insertion-ordered dict: resolved_types_map / resolved_types_keys over the dataclass fields); here the "
                              "same result is named as the item list of that dict, which is what `.items()` iterates",
               may_raise=["Exception"], ensures=["result == field_types_of(type_)"]))
    A(Contract(f"{TM_}:get_type_info", params={"type_": "Ty", "allow_sequence": "bool"}, returns="TyInfo", props=P, trusted=True,
               trusted_reason="cached constructor of the (is_collection, type) record", ensures=["result == type_info_of(type_)"]))
    sf["type_info_of"] = lambda t: INFO.wrap(info_of(t.term))
    A(Contract(f"{TM_}:process_node_fields", params={"type_": "NodeClassObj", "node_base_type": "CheckType"}, returns="Tuple[Dict,Dict]", props=P,
               requires=["all_wf_ty(field_types_of(type_))"],
               locals={"incorrect_fields": "List[BadField]", "child_fields": "ODict[DField,TyInfo]", "props": "ODict[DField,TyInfo]"},
               may_raise=["Exception"],
               raises=[("InvalidFieldAnnotations", "any_bad_field(field_types_of(type_))")],
               ensures=["result[0] == child_map(field_types_of(type_))", "keys_of(result[0]) == child_keys(field_types_of(type_))",
                        "result[1] == prop_map(field_types_of(type_))", "keys_of(result[1]) == prop_keys(field_types_of(type_))"],
               loops={1: Loop(inv=["child_fields == child_map(done1)", "keys_of(child_fields) == child_keys(done1)", "props == prop_map(done1)", "keys_of(props) == prop_keys(done1)",
                                   "(len(incorrect_fields) > 0) == any_bad_field(done1)", "all_wf_ty(seq1)"])},
               note="a field whose annotation mentions a node class is a child field when the annotation is one of the child shapes, a field that mentions none is a property when it "
                    "holds no mutable collection; any other field makes the whole class rejected with InvalidFieldAnnotations; otherwise children and properties are listed in "
                    "dataclass field order"))
    # ---- check_annotations: the definition-time check (best effort: forward references may not resolve yet) ------------------------------
    # get_type_hints either resolves every annotation of the class (hints_of: name / type pairs in __annotations__ order), or fails with NameError
    # (unresolved forward reference) or TypeError; which of the three happens is a fact about CPython and the module's namespace (uninterpreted).
    NT = rec_sort("NameAndType", [("name", STR), ("ty", TY)], tuple_like=True)
    SNT = seq_of(NT)
    hints_of = z3.Function("hints_of", NCLS.z3(), SNT.z3())
    fail_name, fail_type = z3.Function("hints_fail_with_name_error", NCLS.z3(), z3.BoolSort()), z3.Function("hints_fail_with_type_error", NCLS.z3(), z3.BoolSort())
    skipped = z3.Function("is_classvar_or_initvar", TY.z3(), z3.BoolSort())
    cv, iv = z3.Function("is_classvar_ty", TY.z3(), z3.BoolSort()), z3.Function("is_initvar_ty", TY.z3(), z3.BoolSort())
    ht = lambda x: NT.get(NT.wrap(x).term, "ty").term
    hint_bad = lambda x: z3.And(z3.Not(cv(ht(x))), z3.Not(iv(ht(x))),
                                z3.If(mentions.t(ht(x)), z3.Not(child_ty.t(ht(x), z3.BoolVal(True))), z3.Not(prop_ok.t(ht(x)))))
    any_bad_hint = lib.fn("any_bad_hint", [SNT], BOOL)
    any_bad_hint.rule("any_bad_hint-empty", 0, "empty")(lambda a, p: z3.BoolVal(False))
    any_bad_hint.rule("any_bad_hint-snoc", 0, "snoc")(lambda a, p: z3.Or(any_bad_hint.t(p[0]), hint_bad(p[1])))
    all_wf_h = lib.fn("all_wf_hints", [SNT], BOOL)
    all_wf_h.rule("all_wf_hints-empty", 0, "empty")(lambda a, p: z3.BoolVal(True))
    all_wf_h.rule("all_wf_hints-snoc", 0, "snoc")(lambda a, p: z3.And(all_wf_h.t(p[0]), wfd.t(ht(p[1]))))
    all_wf_h.rule("all_wf_hints-prefix", 0, "concat", "lemma", raw=True)(lambda a, p: z3.Implies(all_wf_h.t(z3.Concat(p[0], p[1])), all_wf_h.t(p[0])))
    sf.update({"any_bad_hint": any_bad_hint, "all_wf_hints": all_wf_h, "hints_of": lambda c: SNT.wrap(hints_of(c.term)),
               "hints_fail_with_name_error": lambda c: VBool(fail_name(c.term)), "hints_fail_with_type_error": lambda c: VBool(fail_type(c.term))})
    exc_msg = z3.Function("exception_message", z3.IntSort(), z3.StringSort())

    def attr_c(m, obj, name):
        if isinstance(obj, VSeq) and obj.sort == SNT and name == "items":
            return VPy(("ft_items", obj))
        if isinstance(obj, VExc) and name == "args":
            return VPy(("exc_args", obj))
        return None

    def index_c(m, obj, idx):
        if isinstance(obj, VPy) and isinstance(obj.obj, tuple) and obj.obj[0] == "exc_args":
            return VStr(z3.String("caught_exception_message"))      # the message of the TypeError get_type_hints raised: any string
        return None

    def call_c(m, func, a, kw, node):
        if isinstance(func, VPy) and isinstance(func.obj, tuple) and func.obj[0] == "contract" and func.obj[1].endswith(":is_dataclass_kw_only") and len(a) == 1 \
                and isinstance(a[0], VU) and a[0].sort == NCLS:
            return VBool(z3.BoolVal(False))       # the argument passed is the class being checked, never the KW_ONLY sentinel
        return NotImplemented

    world.attr_hooks.insert(0, attr_c)
    world.index_hooks = getattr(world, "index_hooks", []) + [index_c]
    world.call_hooks.insert(0, call_c)
    for e_ in ("NameError",):
        world.exc_parents[e_] = "Exception"
    why_t = "statement about CPython's typing / dataclasses modules (ClassVar, InitVar, KW_ONLY sentinels); assumed"
    A(Contract(f"{TM_}:is_classvar", params={"type_": "Ty"}, returns="bool", props=P, trusted=True, trusted_reason=why_t, ensures=["result == is_classvar_ty(type_)"]))
    A(Contract(f"{TM_}:is_initvar", params={"type_": "Ty"}, returns="bool", props=P, trusted=True, trusted_reason=why_t, ensures=["result == is_initvar_ty(type_)"]))
    A(Contract(f"{TM_}:is_dataclass_kw_only", params={"type_": "Ty"}, returns="bool", props=P, trusted=True, trusted_reason=why_t, ensures=[]))
    sf.update({"is_classvar_ty": lambda t: VBool(cv(t.term)), "is_initvar_ty": lambda t: VBool(iv(t.term))})
    A(Contract("typing:get_type_hints", params={"obj": "NodeClassObj"}, returns="Seq[NameAndType]", props=P, trusted=True,
               trusted_reason="typing.get_type_hints: resolves every annotation of the class and its bases, or fails with NameError (unresolved forward reference) / TypeError; "
                              "validated natively by rt.c11 over the compilation modes",
               raises=[("NameError", "hints_fail_with_name_error(obj)"), ("TypeError", "hints_fail_with_type_error(obj)")],
               ensures=["result == hints_of(obj)"]))
    A(Contract(f"{TM_}:check_annotations", params={"type_": "NodeClassObj", "node_base_type": "CheckType"}, returns="bool", props=P,
               requires=["all_wf_hints(hints_of(type_))", "not (hints_fail_with_name_error(type_) and hints_fail_with_type_error(type_))"],
               locals={"incorrect_fields": "List[BadField]"},
               raises=[("InvalidFieldAnnotations", "not hints_fail_with_name_error(type_) and not hints_fail_with_type_error(type_) and any_bad_hint(hints_of(type_))"),
                       ("TypeError", "only: hints_fail_with_type_error(type_)")],
               ensures=["result == (not hints_fail_with_name_error(type_))"],
               loops={1: Loop(inv=["(len(incorrect_fields) > 0) == any_bad_hint(done1)", "all_wf_hints(seq1)"])},
               note="when every annotation resolves: rejects with InvalidFieldAnnotations exactly when some annotation other than a ClassVar / InitVar mentions a node class without "
                    "being a child shape, or mentions none but holds a mutable collection -- the same verdict process_node_fields reaches at first instantiation; False when a "
                    "forward reference is unresolved (nothing checked yet); a TypeError from get_type_hints is either re-raised with a clearer message or leaves the class unchecked"))
    # ---- get_field_types: the resolved annotation of every dataclass field -----------------------------------------------------------
    # raw annotation of a field: none (a literal `None` annotation) | a string (postponed annotation) | a type
    RAW = usort("RawAnnotation")
    raw_kind = z3.Function("raw_kind", RAW.z3(), z3.IntSort())            # 0 None, 1 str, 2 type
    raw_ty = z3.Function("raw_as_type", RAW.z3(), TY.z3())
    f_raw = z3.Function("dfield_raw_type", FLD.z3(), RAW.z3())
    dc_fields = z3.Function("dataclass_fields", NCLS.z3(), SF.z3())
    OTY = opt_of(TY)
    hint_of = z3.Function("type_hint_of", NCLS.z3(), z3.StringSort(), OTY.z3())     # get_type_hints(cls).get(name)
    NONETYPE = TY.fresh("NONETYPE_TY")
    world.axioms.append(kind(NONETYPE.term) == K["NONETYPE"])
    unwrapped = lambda t: z3.If(kind(t) == K["NEWTYPE"], inner(t), t)

    def resolved(c, f):      # Opt[Ty]: what the loop body computes before the None test
        r = f_raw(f)
        return z3.If(raw_kind(r) == 0, OTY.some(NONETYPE).term, z3.If(raw_kind(r) == 1, hint_of(c, fld_name(f)), OTY.some(TY.wrap(raw_ty(r))).term))

    ftmap = lib.fn("resolved_types_map", [NCLS, SF], map_sort(FLD, TY))
    ftkeys = lib.fn("resolved_types_keys", [NCLS, SF], SF)
    unresolved = lib.fn("some_field_unresolved", [NCLS, SF], BOOL)
    MFT = map_sort(FLD, TY)
    ftmap.rule("ftmap-empty", 1, "empty")(lambda a, p: MFT.empty().term)
    ftmap.rule("ftmap-snoc", 1, "snoc")(lambda a, p: z3.Store(ftmap.t(a[0], p[0]), p[1], MFT.opt.some(TY.wrap(unwrapped(OTY.val(resolved(a[0], p[1]))))).term))
    ftkeys.rule("ftkeys-empty", 1, "empty")(lambda a, p: z3.Empty(SF.z3()))
    ftkeys.rule("ftkeys-snoc", 1, "snoc")(lambda a, p: z3.If(z3.Not(MFT.opt.is_none(z3.Select(ftmap.t(a[0], p[0]), p[1]))), ftkeys.t(a[0], p[0]), mk_snoc(ftkeys.t(a[0], p[0]), p[1])))
    unresolved.rule("unresolved-empty", 1, "empty")(lambda a, p: z3.BoolVal(False))
    unresolved.rule("unresolved-snoc", 1, "snoc")(lambda a, p: z3.Or(unresolved.t(a[0], p[0]), OTY.is_none(resolved(a[0], p[1]))))
    unresolved.rule("unresolved-prefix", 1, "concat", "lemma", raw=True)(lambda a, p: z3.Implies(unresolved.t(a[0], p[0]), unresolved.t(a[0], z3.Concat(p[0], p[1]))))
    sf.update({"resolved_types_map": ftmap, "resolved_types_keys": ftkeys, "some_field_unresolved": unresolved,
               "dataclass_fields": lambda c: SF.wrap(dc_fields(c.term))})

    def attr_g(m, obj, name):
        if isinstance(obj, VU) and obj.sort == FLD and name == "type":
            return RAW.wrap(f_raw(obj.term))
        if isinstance(obj, VPy) and isinstance(obj.obj, tuple) and obj.obj[0] == "hints" and name == "get":
            from pyvc.values import VBound
            return VBound(obj, "get")
        return None

    def call_g(m, func, a, kw, node):
        from pyvc.values import VBound
        if isinstance(func, VPy) and func.obj == ("builtin", "fields") and isinstance(a[0], VU) and a[0].sort == NCLS:
            return SF.wrap(dc_fields(a[0].term))
        if isinstance(func, VPy) and func.obj == ("get_type_hints",) and isinstance(a[0], VU) and a[0].sort == NCLS and m.contract.qualname == "check_annotations":
            return m.call_contract("typing:get_type_hints", a, kw)
        if isinstance(func, VPy) and func.obj == ("get_type_hints",) and isinstance(a[0], VU) and a[0].sort == NCLS:
            # typing.get_type_hints may raise NameError (unresolved forward reference) or TypeError
            if m.ctx.branch(z3.Bool(fresh_name("get_type_hints_raises"))):
                raise RaiseSig(VExc("NameError"))
            return VPy(("hints", a[0]))
        if isinstance(func, VBound) and isinstance(func.recv, VPy) and isinstance(func.recv.obj, tuple) and func.recv.obj[0] == "hints" and func.name == "get":
            return VOpt(hint_of(func.recv.obj[1].term, STR.coerce(a[0]).term), OTY)
        if isinstance(func, VPy) and func.obj == ("builtin", "type") and len(a) == 1 and isinstance(a[0], VNone_):
            return NONETYPE
        return NotImplemented

    from pyvc.values import VNone as VNone_

    def isinst_g(m, v, cls):
        if isinstance(v, VU) and v.sort == RAW and getattr(cls, "name", "") == "str":
            return raw_kind(v.term) == 1
        return None

    def eq_g(m, a, b):
        for x, y in ((a, b), (b, a)):
            if isinstance(x, VU) and x.sort == RAW and isinstance(y, VNone_):
                return raw_kind(x.term) == 0
        return None

    def coerce_g(m, v, sname):
        if sname in ("Opt[Ty]", "Ty") and isinstance(v, VU) and v.sort == RAW:
            # f_type = field.type: from here on the raw annotation is used as a type (when it is one)
            return VOpt(z3.If(raw_kind(v.term) == 2, OTY.some(TY.wrap(raw_ty(v.term))).term, OTY.none().term), OTY) if sname == "Opt[Ty]" else TY.wrap(raw_ty(v.term))
        return None

    world.attr_hooks.insert(0, attr_g)
    world.call_hooks.insert(0, call_g)
    world.isinstance_hooks.insert(0, isinst_g)
    world.eq_hooks.insert(0, eq_g)
    world.none_hooks = [lambda m, v: (raw_kind(v.term) == 0) if isinstance(v, VU) and v.sort == RAW else None]
    world.coerce_hooks = getattr(world, "coerce_hooks", []) + [coerce_g]
    world.name_hooks.append(lambda m, n: VPy(("builtin", "fields")) if n == "fields" else (VPy(("get_type_hints",)) if n == "get_type_hints" else None))
    world.exc_parents["NameError"] = "Exception"
    world.exc_parents["RuntimeError"] = "Exception"
    A(Contract(f"{TM_}:get_field_types", variant_of="body", params={"type_": "NodeClassObj"}, returns="ODict[DField,Ty]", props=P,
               locals={"ret": "ODict[DField,Ty]"}, may_raise=["NameError"],
               requires=["raw_wf(dataclass_fields(type_))"],
               raises=[("RuntimeError", "some_field_unresolved(type_, dataclass_fields(type_))")],
               ensures=["result == resolved_types_map(type_, dataclass_fields(type_))", "keys_of(result) == resolved_types_keys(type_, dataclass_fields(type_))"],
               loops={1: Loop(inv=["ret == resolved_types_map(type_, done1)", "keys_of(ret) == resolved_types_keys(type_, done1)", "not some_field_unresolved(type_, done1)",
                                   "raw_wf(seq1)", "seq1 == dataclass_fields(type_)"])},
               note="for every dataclass field, in field order: a literal None annotation is NoneType, a string annotation is whatever get_type_hints resolves it to, anything else the "
                    "annotation itself; a NewType is replaced by the type it wraps (once: pyoak's unwrap_newtype contract); RuntimeError when a string annotation resolves to nothing"))
    reg.contracts[f"{TM_}:get_field_types#body"].fn = f"{TM_}:get_field_types"
    raw_wf = lib.fn("raw_wf", [SF], BOOL)
    raw_wf.rule("raw_wf-empty", 0, "empty")(lambda a, p: z3.BoolVal(True))
    raw_wf.rule("raw_wf-snoc", 0, "snoc")(lambda a, p: z3.And(raw_wf.t(p[0]), raw_kind(f_raw(p[1])) >= 0, raw_kind(f_raw(p[1])) <= 2))
    raw_wf.rule("raw_wf-prefix", 0, "concat", "lemma", raw=True)(lambda a, p: z3.Implies(raw_wf.t(z3.Concat(p[0], p[1])), raw_wf.t(p[0])))
    sf["raw_wf"] = raw_wf
    # each field lands in exactly one class (fields of a dataclass are distinct objects)
    has_f = lib.fn("has_field", [SFT, FLD], BOOL)
    nodup = lib.fn("distinct_fields", [SFT], BOOL)
    has_f.rule("has_field-empty", 0, "empty")(lambda a, p: z3.BoolVal(False))
    has_f.rule("has_field-snoc", 0, "snoc")(lambda a, p: z3.Or(has_f.t(p[0], a[1]), f_of(p[1]) == a[1]))
    nodup.rule("distinct_fields-empty", 0, "empty")(lambda a, p: z3.BoolVal(True))
    nodup.rule("distinct_fields-snoc", 0, "snoc")(lambda a, p: z3.And(nodup.t(p[0]), z3.Not(has_f.t(p[0], f_of(p[1])))))
    s_, x_, g_ = z3.Const("s_ex1", SFT.z3()), z3.Const("x_ex1", FT.z3()), z3.Const("g_ex1", FLD.z3())

    def one_class(s, g):
        inc, inp = present(cmap.t(s), g), present(pmap.t(s), g)
        return z3.Implies(z3.And(nodup.t(s), z3.Not(any_bad.t(s))), z3.And(z3.Implies(has_f.t(s, g), z3.Xor(inc, inp)), z3.Implies(z3.Not(has_f.t(s, g)), z3.And(z3.Not(inc), z3.Not(inp)))))

    def ex_base(bank):
        return [], one_class(z3.Empty(SFT.z3()), g_)

    def ex_step(bank):
        whole = mk_snoc(s_, x_)
        bank.add(whole, ("snoc", s_, x_))
        return [one_class(s_, g_), one_class(s_, f_of(x_))], one_class(whole, g_)
    lem = [Lemma("exactly-one-class", [("base", ex_base), ("step", ex_step)], P)]
    wa, wb, wy = z3.Const("wa_l", SFT.z3()), z3.Const("wb_l", SFT.z3()), z3.Const("wy_l", FT.z3())

    def wp_base(bank):
        return [], z3.Implies(all_wf.t(z3.Concat(wa, z3.Empty(SFT.z3()))), all_wf.t(wa))

    def wp_step(bank):
        ih = z3.Implies(all_wf.t(z3.Concat(wa, wb)), all_wf.t(wa))
        whole = z3.Concat(wa, mk_snoc(wb, wy))
        bank.add(whole, ("snoc", z3.Concat(wa, wb), wy))
        return [ih], z3.Implies(all_wf.t(whole), all_wf.t(wa))
    lem.append(Lemma("all_wf-prefix", [("base", wp_base), ("step", wp_step)], P))
    ha, hb, hy = z3.Const("ha_l", SNT.z3()), z3.Const("hb_l", SNT.z3()), z3.Const("hy_l", NT.z3())

    def hp_step(bank):
        ih = z3.Implies(all_wf_h.t(z3.Concat(ha, hb)), all_wf_h.t(ha))
        whole = z3.Concat(ha, mk_snoc(hb, hy))
        bank.add(whole, ("snoc", z3.Concat(ha, hb), hy))
        return [ih], z3.Implies(all_wf_h.t(whole), all_wf_h.t(ha))
    lem.append(Lemma("all_wf_hints-prefix", [("base", lambda bank: ([], z3.Implies(all_wf_h.t(z3.Concat(ha, z3.Empty(SNT.z3()))), all_wf_h.t(ha)))), ("step", hp_step)], P))
    fa, fb_, fy = z3.Const("fa_l", SF.z3()), z3.Const("fb_l", SF.z3()), z3.Const("fy_l", FLD.z3())
    cq = z3.Const("c_l", NCLS.z3())

    def rw_base(bank):
        return [], z3.Implies(raw_wf.t(z3.Concat(fa, z3.Empty(SF.z3()))), raw_wf.t(fa))

    def rw_step(bank):
        ih = z3.Implies(raw_wf.t(z3.Concat(fa, fb_)), raw_wf.t(fa))
        whole = z3.Concat(fa, mk_snoc(fb_, fy))
        bank.add(whole, ("snoc", z3.Concat(fa, fb_), fy))
        return [ih], z3.Implies(raw_wf.t(whole), raw_wf.t(fa))
    lem.append(Lemma("raw_wf-prefix", [("base", rw_base), ("step", rw_step)], P))

    def ur_base(bank):
        return [], z3.Implies(unresolved.t(cq, fa), unresolved.t(cq, z3.Concat(fa, z3.Empty(SF.z3()))))

    def ur_step(bank):
        ih = z3.Implies(unresolved.t(cq, fa), unresolved.t(cq, z3.Concat(fa, fb_)))
        whole = z3.Concat(fa, mk_snoc(fb_, fy))
        bank.add(whole, ("snoc", z3.Concat(fa, fb_), fy))
        return [ih], z3.Implies(unresolved.t(cq, fa), unresolved.t(cq, whole))
    lem.append(Lemma("unresolved-prefix", [("base", ur_base), ("step", ur_step)], P))
    world.trusted_notes.append("annotation model: a field's raw annotation is None | a string | a type (raw_kind); get_type_hints(cls).get(name) is an uninterpreted partial function and may raise NameError")
    world.trusted_notes.append("process_node_fields iterates the item list of get_field_types' dict (field_types_of); Field objects of one class are distinct (lemma exactly-one-class assumes it)")
    world.trusted_notes.append('wf (the shape facts about annotations: kind range, argument counts, collection / mutability flags) is assumed of EVERY annotation object, nested ones included: the opaque induction-hypothesis predicates over the members of a union / tuple (all_non_none_members_are_nodes, all_child_ty_noseq, all_prop_ok, any_mentions) stand for the recursive calls on those members')
    return world, lib, reg, lem
