"""C05: dfs (pre- and post-order), bfs, gather against textbook recursive spec functions.

Spec functions (head/tail recursion over sequences, DESIGN section 3.2), with symbolic filter `fl`
and prune `pr` (Opt[Fn]; F(x) = fl is None or fl(x); P(x) = pr is not None and pr(x)):
  mapinfo(p, cs)      = [Info(c.child, p, c.field, c.index) for c in cs]        kidinfo(n) = mapinfo(n, kids(n))
  pre(x)              = ([x] if F(x) else []) ++ ([] if P(x) else cpre(kidinfo(x.node)))
  cpre([])            = []            cpre([x] ++ r)  = pre(x) ++ cpre(r)
  post(x)             = ([] if P(x) else cpost(kidinfo(x.node))) ++ ([x] if F(x) else [])
  cpost([])           = []            cpost([x] ++ r) = post(x) ++ cpost(r)
  todo(s ++ [x])      = pre(x) ++ todo(s)            (what a LIFO stack still has to emit, top-down)
  todoB(s ++ [x])     = todoB(s) ++ post(x)          (same, for the reversed bottom-up construction)
  filt(s)             = [x for x in s if F(x)]       expand(s) = concat([] if P(x) else kidinfo(x.node) for x in s)
The accessor get_child_nodes_with_field is used through its C12 contract (== kids(self))."""
from __future__ import annotations

import z3

from pyvc.contract import Contract, Loop, Registry
from pyvc.core import mk_cons, mk_snoc
from pyvc.specfn import SpecLib
from pyvc.symex import World
from pyvc.values import BOOL, V, VBool, VOpt, VPy, VRec, VSeq, VU, opt_of, seq_of
from pyvc.verify import Lemma

from .node_common import M, NodeVocab


def build():
    reg = Registry()
    world = World(reg)
    lib = SpecLib()
    nv = NodeVocab(world, lib)
    REF, INFO, CPOS, FN = nv.REF, nv.INFO, nv.CPOS, nv.FN
    OFN = opt_of(FN)
    SI, SC = seq_of(INFO), seq_of(CPOS)
    apply_sf = lib.fn("apply_fn", [FN, INFO], BOOL)
    apply_fn = apply_sf.decl
    SCLS = seq_of(nv.CLS)
    gfilter = z3.Function("gfilter", SCLS.z3(), z3.BoolSort(), OFN.z3(), FN.z3())
    inst_any = z3.Function("inst_any", nv.CLS.z3(), SCLS.z3(), z3.BoolSort())

    def F(fl, x):
        return z3.Or(OFN.is_none(fl), apply_fn(OFN.val(fl), x))

    def Pr(pr, x):
        return z3.And(z3.Not(OFN.is_none(pr)), apply_fn(OFN.val(pr), x))

    def info_of(p, c):
        return INFO.mk(CPOS.get(c, "child"), REF.wrap(p), CPOS.get(c, "field"), CPOS.get(c, "index")).term

    E_I, E_C = z3.Empty(SI.z3()), z3.Empty(SC.z3())
    mapinfo = lib.fn("mapinfo", [REF, SC], SI)
    rev = lib.fn("rev", [SC], SC)
    pre = lib.fn("pre", [OFN, OFN, INFO], SI)
    cpre = lib.fn("cpre", [OFN, OFN, SI], SI)
    post = lib.fn("post", [OFN, OFN, INFO], SI)
    cpost = lib.fn("cpost", [OFN, OFN, SI], SI)
    todo = lib.fn("todo", [OFN, OFN, SI], SI)
    todoB = lib.fn("todoB", [OFN, OFN, SI], SI)
    filt = lib.fn("filt", [OFN, SI], SI)
    expand = lib.fn("expand", [OFN, SI], SI)
    nodes_of = lib.fn("nodes_of", [SI], seq_of(REF))

    def kidinfo_t(n):
        return mapinfo.t(n, nv.kids.t(n))

    node_of = lambda x: INFO.get(x, "node").term
    # ---- definitions -------------------------------------------------------------------------
    mapinfo.rule("mapinfo-empty", 1, "empty")(lambda a, p: E_I)
    mapinfo.rule("mapinfo-cons", 1, "cons")(lambda a, p: mk_cons(info_of(a[0], p[0]), mapinfo.t(a[0], p[1])))
    mapinfo.rule("mapinfo-snoc", 1, "snoc", "lemma")(lambda a, p: mk_snoc(mapinfo.t(a[0], p[0]), info_of(a[0], p[1])))
    rev.rule("rev-empty", 0, "empty")(lambda a, p: E_C)
    rev.rule("rev-snoc", 0, "snoc")(lambda a, p: mk_cons(p[1], rev.t(p[0])))
    rev.rule("rev-cons", 0, "cons", "lemma")(lambda a, p: mk_snoc(rev.t(p[1]), p[0]))
    rev.rule("rev-rev", 0, "app:rev", "lemma")(lambda a, p: p[0])
    pre.rule("pre-def", 2, "always")(lambda a, p: z3.Concat(z3.If(F(a[0], a[2]), z3.Unit(a[2]), E_I),
                                                          z3.If(Pr(a[1], a[2]), E_I, cpre.t(a[0], a[1], kidinfo_t(node_of(a[2]))))))
    post.rule("post-def", 2, "always")(lambda a, p: z3.Concat(z3.If(Pr(a[1], a[2]), E_I, cpost.t(a[0], a[1], kidinfo_t(node_of(a[2])))),
                                                            z3.If(F(a[0], a[2]), z3.Unit(a[2]), E_I)))
    cpre.rule("cpre-empty", 2, "empty")(lambda a, p: E_I)
    cpre.rule("cpre-cons", 2, "cons")(lambda a, p: z3.Concat(pre.t(a[0], a[1], p[0]), cpre.t(a[0], a[1], p[1])))
    cpost.rule("cpost-empty", 2, "empty")(lambda a, p: E_I)
    cpost.rule("cpost-cons", 2, "cons")(lambda a, p: z3.Concat(post.t(a[0], a[1], p[0]), cpost.t(a[0], a[1], p[1])))
    cpost.rule("cpost-snoc", 2, "snoc", "lemma")(lambda a, p: z3.Concat(cpost.t(a[0], a[1], p[0]), post.t(a[0], a[1], p[1])))
    todo.rule("todo-empty", 2, "empty")(lambda a, p: E_I)
    todo.rule("todo-snoc", 2, "snoc")(lambda a, p: z3.Concat(pre.t(a[0], a[1], p[1]), todo.t(a[0], a[1], p[0])))
    todoB.rule("todoB-empty", 2, "empty")(lambda a, p: E_I)
    todoB.rule("todoB-snoc", 2, "snoc")(lambda a, p: z3.Concat(todoB.t(a[0], a[1], p[0]), post.t(a[0], a[1], p[1])))
    filt.rule("filt-empty", 1, "empty")(lambda a, p: E_I)
    filt.rule("filt-cons", 1, "cons")(lambda a, p: z3.Concat(z3.If(F(a[0], p[0]), z3.Unit(p[0]), E_I), filt.t(a[0], p[1])))
    filt.rule("filt-snoc", 1, "snoc", "lemma")(lambda a, p: z3.Concat(filt.t(a[0], p[0]), z3.If(F(a[0], p[1]), z3.Unit(p[1]), E_I)))
    expand.rule("expand-empty", 1, "empty")(lambda a, p: E_I)
    expand.rule("expand-cons", 1, "cons")(lambda a, p: z3.Concat(z3.If(Pr(a[0], p[0]), E_I, kidinfo_t(node_of(p[0]))), expand.t(a[0], p[1])))
    expand.rule("expand-snoc", 1, "snoc", "lemma")(lambda a, p: z3.Concat(expand.t(a[0], p[0]), z3.If(Pr(a[0], p[1]), E_I, kidinfo_t(node_of(p[1])))))
    nodes_of.rule("nodes_of-empty", 0, "empty")(lambda a, p: z3.Empty(seq_of(REF).z3()))
    nodes_of.rule("nodes_of-snoc", 0, "snoc")(lambda a, p: mk_snoc(nodes_of.t(p[0]), node_of(p[1])))

    bfsq = lib.fn("bfsq", [OFN, OFN, SI], SI)
    bfsq.rule("bfsq-empty", 2, "empty")(lambda a, p: E_I)
    bfsq.rule("bfsq-cons", 2, "cons")(lambda a, p: z3.Concat(z3.If(F(a[0], p[0]), z3.Unit(p[0]), E_I),
                                                           bfsq.t(a[0], a[1], z3.Concat(p[1], z3.If(Pr(a[1], p[0]), E_I, kidinfo_t(node_of(p[0])))))))

    def classtest(cs, exact, n):
        return z3.If(exact, z3.Contains(cs, z3.Unit(nv.cls_of(n))), inst_any(nv.cls_of(n), cs))

    # the filter closure built by gather: its defining equation, instantiated at every application
    apply_sf.rule("gfilter-def", 0, "app:gfilter")(lambda a, p: z3.And(classtest(p[0], p[1], node_of(a[1])), F(p[2], a[1])))

    sf = world.spec_fns
    sf["bfsq"] = bfsq
    sf["gfilter"] = lambda cs, exact, extra: OFN.some(FN.wrap(gfilter(SCLS.coerce(cs).term, exact.term, OFN.coerce(extra).term)))
    sf["classtest"] = lambda cs, exact, n: VBool(classtest(SCLS.coerce(cs).term, exact.term, REF.coerce(n).term))
    sf["F"] = lambda fl, x: VBool(F(OFN.coerce(fl).term, INFO.coerce(x).term))
    sf["classes_of"] = lambda oc: SCLS.coerce(oc) if not isinstance(oc, VU) else SCLS.wrap(z3.Unit(oc.term))
    sf.update({"mapinfo": mapinfo, "rev": rev, "cpre": cpre, "cpost": cpost, "todo": todo, "todoB": todoB, "filt": filt,
               "expand": expand, "pre": pre, "post": post, "nodes_of": nodes_of,
               "kidinfo": lambda n: SI.wrap(kidinfo_t(REF.coerce(n).term))})

    # ---- callbacks ---------------------------------------------------------------------------
    def call(m, func, args, kwargs, node):
        f = func
        if isinstance(f, VOpt) and f.sort == OFN:
            f = FN.coerce(f)
        if isinstance(f, VU) and f.sort == FN and len(args) == 1:
            return VBool(apply_fn(f.term, INFO.coerce(args[0]).term))
        return NotImplemented

    world.call_hooks.append(call)

    def comp_info(parent_src):
        def hook(m, sv, gen, e):
            parent = m.eval(e.elt.args[1])
            return SI.wrap(mapinfo.t(REF.coerce(parent).term, SC.coerce(sv).term))
        return hook

    world.comp_hooks = {
        "NodeTraversalInfo(c, self, f, i) for (c, f, i) in": comp_info("self"),
        "NodeTraversalInfo(c, child.node, f, i) for (c, f, i) in": comp_info("child.node"),
    }

    def isinst(m, v, cls):
        if isinstance(v, VU) and v.sort == REF and isinstance(cls, VSeq) and cls.sort == SCLS:
            return inst_any(nv.cls_of(v.term), cls.term)
        if isinstance(v, VU) and v.sort == nv.CLS:
            return z3.BoolVal(False) if getattr(cls, "name", "") in ("tuple",) else None
        if isinstance(v, VSeq) and v.sort == SCLS and getattr(cls, "name", "") == "tuple":
            return z3.BoolVal(True)
        return None

    world.isinstance_hooks.insert(0, isinst)

    def closure_coerce(m, obj, sortname):
        """gather's local filter_fn closure, abstracted by its verified contract (gfilter)."""
        from pyvc import extract
        tag, node, defenv = obj
        if getattr(node, "name", "") != "filter_fn":
            raise __import__("pyvc.values", fromlist=["EngineError"]).EngineError("unknown closure passed as a callback")
        defs = extract.find_all_defs(m.mod, "ASTNode.gather.filter_fn")
        idx = [i for i, d in enumerate(defs) if d is node]
        if not idx or len(defs) != 2:
            raise __import__("pyvc.values", fromlist=["EngineError"]).EngineError("gather.filter_fn definitions changed shape")
        exact = VBool(idx[0] == 1)
        return sf["gfilter"](defenv["obj_classes"], exact, defenv["extra_filter"])

    world.closure_coerce = closure_coerce
    A = reg.add
    P = ["C05"]
    A(Contract(f"{M}:ASTNode.get_child_nodes_with_field", params={"self": "Ref", "sort_keys": "bool"}, returns="Seq[ChildPos]", props=P,
               trusted=True, trusted_reason="proved per class under C12 (generated accessor == kids(self), in declaration order when sort_keys is False)",
               ensures=["implies(not sort_keys, result == kids(self))"]))
    A(Contract(f"{M}:ASTNode.get_child_nodes", params={"self": "Ref", "sort_keys": "bool"}, returns="Seq[Ref]", props=P,
               trusted=True, trusted_reason="proved per class under C12",
               ensures=["implies(not sort_keys, result == nodes_of(kidinfo(self)))"]))
    TD = "cpre(filter, prune, kidinfo(self))"
    BU = "cpost(filter, prune, kidinfo(self))"
    A(Contract(f"{M}:ASTNode.dfs", params={"self": "Ref", "prune": "Opt[Fn]", "filter": "Opt[Fn]", "bottom_up": "bool"}, returns="Seq[Info]", props=P,
               locals={"build_stack": "List[Info]", "yield_queue": "Deque[Info]"},
               ensures=[f"implies(not bottom_up, result == {TD})", f"implies(bottom_up, result == {BU})"],
               loops={
                   1: Loop(inv=["implies(not bottom_up, todo(filter, prune, build_stack) == cpre(filter, prune, mapinfo(self, rev(done1))))",
                                "implies(bottom_up, todoB(filter, prune, build_stack) == cpost(filter, prune, mapinfo(self, done1)))",
                                "len(yield_queue) == 0"]),
                   2: Loop(inv=[f"implies(not bottom_up, yield_queue + todo(filter, prune, build_stack) == {TD})",
                                f"implies(bottom_up, todoB(filter, prune, build_stack) + yield_queue == {BU})"]),
                   3: Loop(inv=["implies(not bottom_up, todo(filter, prune, build_stack) == cpre(filter, prune, mapinfo(child_info.node, rev(done3))) + todo(filter, prune, build_stack_at3))",
                                "implies(bottom_up, todoB(filter, prune, build_stack) == todoB(filter, prune, build_stack_at3) + cpost(filter, prune, mapinfo(child_info.node, done3)))"]),
                   4: Loop(inv=[f"implies(not bottom_up, out + yield_queue == {TD})", f"implies(bottom_up, out + yield_queue == {BU})"]),
               }))
    A(Contract(f"{M}:ASTNode.bfs", params={"self": "Ref", "prune": "Opt[Fn]", "filter": "Opt[Fn]"}, returns="Seq[Info]", props=P,
               locals={"queue": "Deque[Info]"},
               ensures=["result == bfsq(filter, prune, kidinfo(self))"],
               loops={1: Loop(inv=["out + bfsq(filter, prune, queue) == bfsq(filter, prune, kidinfo(self))"])},
               note="bfsq is the queue recursion; lemma bfs-levels shows it is the level-by-level order"))
    # gather: the two filter closures against the defining equation of gfilter, then gather itself
    for idx, exact in ((0, "False"), (1, "True")):
        A(Contract(f"{M}:ASTNode.gather.filter_fn", variant_of=f"def{idx}", props=P, returns="bool",
                   params={"node_info": "Info"}, ghost={"obj_classes": "Seq[Cls]", "extra_filter": "Opt[Fn]"},
                   ensures=[f"result == (classtest(obj_classes, {exact}, node_info.node) and F(extra_filter, node_info))"]))
    for variant, osort in ((None, "Seq[Cls]"), ("single-class", "Cls")):
        A(Contract(f"{M}:ASTNode.gather", variant_of=variant, props=P, returns="Seq[Ref]",
                   params={"self": "Ref", "obj_class": osort, "exact_type": "bool", "extra_filter": "Opt[Fn]", "prune": "Opt[Fn]"},
                   ensures=["result == nodes_of(cpre(gfilter(classes_of(obj_class), exact_type, extra_filter), prune, kidinfo(self)))"],
                   loops={1: Loop(inv=["out == nodes_of(done1)"])}))
    return world, lib, reg, lemmas(nv, lib, dict(bfsq=bfsq, mapinfo=mapinfo, rev=rev, cpost=cpost, post=post, filt=filt, expand=expand, F=F, Pr=Pr,
                                                 info_of=info_of, kidinfo_t=kidinfo_t, node_of=node_of))


def lemmas(nv, lib, d):
    """Induction lemmas used as 'lemma' rules above.  Each: base + step VC over fresh symbols,
    discharged with the *definition* rules only (the lemma's own rule is used as the induction
    hypothesis, at the strictly smaller sequence)."""
    from pyvc.core import TermBank
    REF, INFO, CPOS, FN = nv.REF, nv.INFO, nv.CPOS, nv.FN
    OFN = opt_of(FN)
    SI, SC = seq_of(INFO), seq_of(CPOS)
    E_I, E_C = z3.Empty(SI.z3()), z3.Empty(SC.z3())
    mapinfo, rev, cpost, post, filt, expand = d["mapinfo"], d["rev"], d["cpost"], d["post"], d["filt"], d["expand"]
    L = []

    def snoc_from_cons(name, f_t, unit_rhs, extra_args, elem_sort, seq_sort, empty):
        """Lemma f(s ++ [y]) == f(s) ++ U(y), for f defined by cons recursion f([x] ++ r) = U(x) ++ f(r).
        Induction on s:  s = []  and  s = [x] ++ r with hypothesis for r."""
        def base(bank):
            y = z3.Const("y_" + name, elem_sort)
            ex = [z3.Const(f"e{i}_{name}", s) for i, s in enumerate(extra_args)]
            lhs = f_t(*ex, mk_snoc(empty, y))
            return [], lhs == z3.Concat(f_t(*ex, empty), unit_rhs(ex, y))

        def step(bank):
            x = z3.Const("x_" + name, elem_sort)
            y = z3.Const("y_" + name, elem_sort)
            r = z3.Const("r_" + name, seq_sort)
            ex = [z3.Const(f"e{i}_{name}", s) for i, s in enumerate(extra_args)]
            ih = f_t(*ex, mk_snoc(r, y)) == z3.Concat(f_t(*ex, r), unit_rhs(ex, y))
            s = mk_cons(x, r)
            whole = mk_snoc(s, y)
            # ([x] ++ r) ++ [y] == [x] ++ (r ++ [y])  (associativity is built into the theory of sequences)
            bank.add(whole, ("cons", x, mk_snoc(r, y)))
            goal = f_t(*ex, whole) == z3.Concat(f_t(*ex, s), unit_rhs(ex, y))
            return [ih], goal
        return Lemma(name, [("base", base), ("step", step)], ["C05", "C03", "C02", "C06", "C07", "C09"])

    L.append(snoc_from_cons("mapinfo-snoc", lambda p, s: mapinfo.t(p, s), lambda ex, y: z3.Unit(d["info_of"](ex[0], y)), [REF.z3()], CPOS.z3(), SC.z3(), E_C))
    L.append(snoc_from_cons("cpost-snoc", lambda a, b, s: cpost.t(a, b, s), lambda ex, y: post.t(ex[0], ex[1], y), [OFN.z3(), OFN.z3()], INFO.z3(), SI.z3(), E_I))
    L.append(snoc_from_cons("filt-snoc", lambda a, s: filt.t(a, s), lambda ex, y: z3.If(d["F"](ex[0], y), z3.Unit(y), E_I), [OFN.z3()], INFO.z3(), SI.z3(), E_I))
    L.append(snoc_from_cons("expand-snoc", lambda a, s: expand.t(a, s), lambda ex, y: z3.If(d["Pr"](ex[0], y), E_I, d["kidinfo_t"](d["node_of"](y))), [OFN.z3()], INFO.z3(), SI.z3(), E_I))

    # bfs by levels:  bfsq(a ++ w) == filt(a) ++ bfsq(w ++ expand(a))   (induction on a, w universally quantified).
    # With w = [] it reads bfsq(level_k) == filt(level_k) ++ bfsq(level_{k+1}): the queue recursion used in the
    # contract of bfs is exactly the level-by-level order of the statement.
    bfsq = d["bfsq"]

    def bl_base(bank):
        fl, pr = z3.Const("fl_bl", OFN.z3()), z3.Const("pr_bl", OFN.z3())
        w = z3.Const("w_bl", SI.z3())
        return [], bfsq.t(fl, pr, z3.Concat(E_I, w)) == z3.Concat(filt.t(fl, E_I), bfsq.t(fl, pr, z3.Concat(w, expand.t(pr, E_I))))

    def bl_step(bank):
        fl, pr = z3.Const("fl_bl", OFN.z3()), z3.Const("pr_bl", OFN.z3())
        w, r = z3.Const("w_bl", SI.z3()), z3.Const("r_bl", SI.z3())
        x = z3.Const("x_bl", INFO.z3())
        ex = z3.If(d["Pr"](pr, x), E_I, d["kidinfo_t"](d["node_of"](x)))
        w2 = z3.Concat(w, ex)
        ih = bfsq.t(fl, pr, z3.Concat(r, w2)) == z3.Concat(filt.t(fl, r), bfsq.t(fl, pr, z3.Concat(w2, expand.t(pr, r))))
        a = mk_cons(x, r)
        whole = z3.Concat(a, w)
        bank.add(whole, ("cons", x, z3.Concat(r, w)))
        goal = bfsq.t(fl, pr, whole) == z3.Concat(filt.t(fl, a), bfsq.t(fl, pr, z3.Concat(w, expand.t(pr, a))))
        return [ih], goal
    L.append(Lemma("bfs-levels", [("base", bl_base), ("step", bl_step)], ["C05"],
                   note="bfsq(level) == filt(level) ++ bfsq(expand(level)); definitions of bfsq / filt / expand only"))

    # rev([x] ++ r) == rev(r) ++ [x]   by induction on r (snoc form):  r = [] ;  r = q ++ [y]
    def rc_base(bank):
        x = z3.Const("x_rc", CPOS.z3())
        return [], rev.t(mk_cons(x, E_C)) == mk_snoc(rev.t(E_C), x)

    def rc_step(bank):
        x, y = z3.Const("x_rc", CPOS.z3()), z3.Const("y_rc", CPOS.z3())
        q = z3.Const("q_rc", SC.z3())
        ih = rev.t(mk_cons(x, q)) == mk_snoc(rev.t(q), x)
        r = mk_snoc(q, y)
        whole = mk_cons(x, r)
        bank.add(whole, ("snoc", mk_cons(x, q), y))
        return [ih], rev.t(whole) == mk_snoc(rev.t(r), x)
    L.append(Lemma("rev-cons", [("base", rc_base), ("step", rc_step)], ["C05"], note="uses only rev-empty / rev-snoc"))

    # rev(rev(s)) == s  by induction on s (snoc form), using rev-cons
    def rr_base(bank):
        return [], rev.t(rev.t(E_C)) == E_C

    def rr_step(bank):
        y = z3.Const("y_rr", CPOS.z3())
        q = z3.Const("q_rr", SC.z3())
        ih = rev.t(rev.t(q)) == q
        return [ih], rev.t(rev.t(mk_snoc(q, y))) == mk_snoc(q, y)
    L.append(Lemma("rev-rev", [("base", rr_base), ("step", rr_step)], ["C05"], note="uses rev-snoc and the lemma rev-cons", uses=["rev-cons"]))
    return L
