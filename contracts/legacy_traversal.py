"""C20 (traversal part): the legacy AwareASTNode.dfs / bfs / gather against recursive specs over node streams.

lkids(n) : Seq[Ref] is what get_child_nodes() yields (the child nodes in field order, tuples flattened); `children` is
list(get_child_nodes()).  With symbolic filter fl and prune pr (F(x) = fl is None or fl(x); P(x) = pr is truthy and pr(x)):
  lpre(x)   = ([x] if F(x)) ++ ([] if P(x) else clpre(lkids(x)))          clpre([x] ++ r)  = lpre(x) ++ clpre(r)
  lpost(x)  = ([] if P(x) else clpost(lkids(x))) ++ ([x] if F(x))         clpost([x] ++ r) = lpost(x) ++ clpost(r)
  lbfsq([x] ++ r) = ([x] if F(x)) ++ lbfsq(r ++ ([] if P(x) else lkids(x)))                (the level order, cf. lemma bfs-levels of C05)
  B([x] ++ r)     = B(r) ++ lpost(x)          what a front-first work queue still has to put *in front of* the bottom-up output
The start node is offered to filter and prune like any other node; with skip_self it is neither yielded nor tested:
  dfs  = lpre(self) | lpost(self)             resp.  clpre(lkids(self)) | clpost(lkids(self))   with skip_self
  bfs  = lbfsq([self])                        resp.  lbfsq(lkids(self))"""
from __future__ import annotations

import z3

from pyvc.contract import Contract, Loop, Registry
from pyvc.core import mk_cons, mk_snoc
from pyvc.specfn import SpecLib
from pyvc.symex import World
from pyvc.values import BOOL, EngineError, V, VBool, VHeapRef, VOpt, VPy, VSeq, VU, opt_of, seq_of
from pyvc.verify import Lemma

from .node_common import NodeVocab

LM = "pyoak.legacy.node"


def build():
    reg = Registry()
    world = World(reg)
    lib = SpecLib()
    nv = NodeVocab(world, lib)
    REF, FN, CLS = nv.REF, nv.FN, nv.CLS
    OFN = opt_of(FN)
    SR, SCLS = seq_of(REF), seq_of(CLS)
    E = z3.Empty(SR.z3())
    apply_sf = lib.fn("apply_fn", [FN, REF], BOOL)
    apply_fn = apply_sf.decl
    world.usort_class["Ref"] = "AwareASTNode"
    world.class_parents["AwareASTNode"] = []
    world.class_module["AwareASTNode"] = LM
    F = lambda fl, x: z3.Or(OFN.is_none(fl), apply_fn(OFN.val(fl), x))
    P = lambda pr, x: z3.And(z3.Not(OFN.is_none(pr)), apply_fn(OFN.val(pr), x))
    lkids = lib.fn("lkids", [REF], SR)
    rev = lib.fn("rev_nodes", [SR], SR)
    lpre, clpre = lib.fn("lpre", [OFN, OFN, REF], SR), lib.fn("clpre", [OFN, OFN, SR], SR)
    lpost, clpost = lib.fn("lpost", [OFN, OFN, REF], SR), lib.fn("clpost", [OFN, OFN, SR], SR)
    lbfsq = lib.fn("lbfsq", [OFN, OFN, SR], SR)
    Bq = lib.fn("bottom_up_rest", [OFN, OFN, SR], SR)
    unit_if = lambda c, x: z3.If(c, z3.Unit(x), E)
    rev.rule("rev_nodes-empty", 0, "empty")(lambda a, p: E)
    rev.rule("rev_nodes-snoc", 0, "snoc")(lambda a, p: mk_cons(p[1], rev.t(p[0])))
    rev.rule("rev_nodes-cons", 0, "cons", "lemma")(lambda a, p: mk_snoc(rev.t(p[1]), p[0]))
    rev.rule("rev_nodes-rev", 0, "app:rev_nodes", "lemma")(lambda a, p: p[0])
    lpre.rule("lpre-def", 2, "always")(lambda a, p: z3.Concat(unit_if(F(a[0], a[2]), a[2]), z3.If(P(a[1], a[2]), E, clpre.t(a[0], a[1], lkids.t(a[2])))))
    lpost.rule("lpost-def", 2, "always")(lambda a, p: z3.Concat(z3.If(P(a[1], a[2]), E, clpost.t(a[0], a[1], lkids.t(a[2]))), unit_if(F(a[0], a[2]), a[2])))
    clpre.rule("clpre-empty", 2, "empty")(lambda a, p: E)
    clpre.rule("clpre-cons", 2, "cons")(lambda a, p: z3.Concat(lpre.t(a[0], a[1], p[0]), clpre.t(a[0], a[1], p[1])))
    clpre.rule("clpre-concat", 2, "concat", "lemma")(lambda a, p: z3.Concat(clpre.t(a[0], a[1], p[0]), clpre.t(a[0], a[1], p[1])))
    clpost.rule("clpost-empty", 2, "empty")(lambda a, p: E)
    clpost.rule("clpost-cons", 2, "cons")(lambda a, p: z3.Concat(lpost.t(a[0], a[1], p[0]), clpost.t(a[0], a[1], p[1])))
    clpost.rule("clpost-snoc", 2, "snoc", "lemma")(lambda a, p: z3.Concat(clpost.t(a[0], a[1], p[0]), lpost.t(a[0], a[1], p[1])))
    lbfsq.rule("lbfsq-empty", 2, "empty")(lambda a, p: E)
    lbfsq.rule("lbfsq-cons", 2, "cons")(lambda a, p: z3.Concat(unit_if(F(a[0], p[0]), p[0]), lbfsq.t(a[0], a[1], z3.Concat(p[1], z3.If(P(a[1], p[0]), E, lkids.t(p[0]))))))
    Bq.rule("B-empty", 2, "empty")(lambda a, p: E)
    Bq.rule("B-cons", 2, "cons")(lambda a, p: z3.Concat(Bq.t(a[0], a[1], p[1]), lpost.t(a[0], a[1], p[0])))
    Bq.rule("B-concat", 2, "concat", "lemma")(lambda a, p: z3.Concat(Bq.t(a[0], a[1], p[1]), Bq.t(a[0], a[1], p[0])))
    Bq.rule("B-rev", 2, "app:rev_nodes", "lemma")(lambda a, p: clpost.t(a[0], a[1], p[0]))
    inst_any = z3.Function("inst_any", CLS.z3(), SCLS.z3(), z3.BoolSort())
    gfilter = z3.Function("lgfilter", SCLS.z3(), z3.BoolSort(), OFN.z3(), FN.z3())
    classtest = lambda cs, exact, n: z3.If(exact, z3.Contains(cs, z3.Unit(nv.cls_of(n))), inst_any(nv.cls_of(n), cs))
    apply_sf.rule("lgfilter-def", 0, "app:lgfilter")(lambda a, p: z3.And(classtest(p[0], p[1], a[1]), F(p[2], a[1])))
    sf = world.spec_fns
    sf.update({"lkids": lkids, "rev_nodes": rev, "rev_of": rev, "lpre": lpre, "clpre": clpre, "lpost": lpost, "clpost": clpost, "lbfsq": lbfsq, "bottom_up_rest": Bq,
               "unit": lambda x: SR.wrap(z3.Unit(REF.coerce(x).term)),
               "lgfilter": lambda cs, exact, extra: OFN.some(FN.wrap(gfilter(SCLS.coerce(cs).term, exact.term, OFN.coerce(extra).term))),
               "classtest": lambda cs, exact, n: VBool(classtest(SCLS.coerce(cs).term, exact.term, REF.coerce(n).term)),
               "F": lambda fl, x: VBool(F(OFN.coerce(fl).term, REF.coerce(x).term)),
               "classes_of": lambda oc: SCLS.coerce(oc) if not isinstance(oc, VU) else SCLS.wrap(z3.Unit(oc.term))})

    def call(m, func, args, kwargs, node):
        f = func
        if isinstance(f, VOpt) and f.sort == OFN:
            f = FN.coerce(f)
        if isinstance(f, VU) and f.sort == FN and len(args) == 1:
            return VBool(apply_fn(f.term, REF.coerce(args[0]).term))
        return NotImplemented

    def attr(m, obj, name):
        if isinstance(obj, VU) and obj.sort == REF and name == "children":
            # property: list(self.get_child_nodes())
            return VHeapRef(m.ctx.alloc("list", SR.wrap(lkids.t(obj.term))), "list")
        return None

    def isinst(m, v, cls):
        if isinstance(v, VU) and v.sort == REF and isinstance(cls, VSeq) and cls.sort == SCLS:
            return inst_any(nv.cls_of(v.term), cls.term)
        if isinstance(v, VU) and v.sort == CLS:
            return z3.BoolVal(False) if getattr(cls, "name", "") in ("tuple",) else None
        if isinstance(v, VSeq) and v.sort == SCLS and getattr(cls, "name", "") == "tuple":
            return z3.BoolVal(True)
        return None

    def closure_coerce(m, obj, sortname):
        from pyvc import extract
        tag, node, defenv = obj
        if getattr(node, "name", "") != "filter_fn":
            raise EngineError("unknown closure passed as a callback")
        defs = extract.find_all_defs(m.mod, "AwareASTNode.gather.filter_fn")
        idx = [i for i, d in enumerate(defs) if d is node]
        if not idx or len(defs) != 2:
            raise EngineError("gather.filter_fn definitions changed shape")
        return sf["lgfilter"](defenv["obj_classes"], VBool(idx[0] == 1), defenv["extra_filter"])

    world.call_hooks.append(call)
    world.attr_hooks.insert(0, attr)
    world.isinstance_hooks.insert(0, isinst)
    world.closure_coerce = closure_coerce
    world.truth_hooks.insert(0, lambda m, v: z3.BoolVal(True) if isinstance(v, VU) and v.sort == FN else None)   # a function object is truthy
    A = reg.add
    PR = ["C20"]
    A(Contract(f"{LM}:AwareASTNode.get_child_nodes", params={"self": "Ref"}, returns="Seq[Ref]", props=PR, trusted=True,
               trusted_reason="proved in contracts.legacy_children: the flattening of the child fields in field order (lkids_def), for well-typed children", ensures=["result == lkids(self)"]))
    TD, BU = "clpre(filter, prune, unit(self))", "bottom_up_rest(filter, prune, unit(self))"
    TDS, BUS = "clpre(filter, prune, lkids(self))", "clpost(filter, prune, lkids(self))"
    A(Contract(f"{LM}:AwareASTNode.dfs", params={"self": "Ref", "prune": "Opt[Fn]", "filter": "Opt[Fn]", "bottom_up": "bool", "skip_self": "bool"}, returns="Seq[Ref]", props=PR,
               generator=True, locals={"build_queue": "Deque[Ref]", "yield_queue": "Deque[Ref]"},
               ensures=["implies(not old(skip_self) and not bottom_up, result == lpre(filter, prune, self))",
                        "implies(not old(skip_self) and bottom_up, result == lpost(filter, prune, self))",
                        f"implies(old(skip_self) and not bottom_up, result == {TDS})",
                        f"implies(old(skip_self) and bottom_up, result == {BUS})"],
               loops={
                   1: Loop(inv=["implies(skip_self, old(skip_self) and build_queue == unit(self) and len(yield_queue) == 0)",
                                f"implies(not skip_self and not bottom_up and not old(skip_self), yield_queue + clpre(filter, prune, build_queue) == lpre(filter, prune, self))",
                                f"implies(not skip_self and not bottom_up and old(skip_self), yield_queue + clpre(filter, prune, build_queue) == {TDS})",
                                f"implies(not skip_self and bottom_up and not old(skip_self), bottom_up_rest(filter, prune, build_queue) + yield_queue == lpost(filter, prune, self))",
                                f"implies(not skip_self and bottom_up and old(skip_self), bottom_up_rest(filter, prune, build_queue) + yield_queue == {BUS})"]),
                   2: Loop(inv=["build_queue == rev_nodes(done2) + build_queue_at2", "seq2 == lkids(child)"]),
                   3: Loop(inv=["build_queue == rev_nodes(done3) + build_queue_at3", "seq3 == rev_nodes(lkids(child))"]),
                   4: Loop(inv=["out + yield_queue == yield_queue_at4", "len(out_at4) == 0"]),
               },
               note="pre-order / post-order of the start node's tree with filter and prune applied to every visited node, the start node included unless skip_self; "
                    "with skip_self the start node is neither yielded nor offered to filter / prune and its subtrees follow in order"))
    A(Contract(f"{LM}:AwareASTNode.bfs", params={"self": "Ref", "prune": "Opt[Fn]", "filter": "Opt[Fn]", "skip_self": "bool"}, returns="Seq[Ref]", props=PR,
               generator=True, locals={"queue": "Deque[Ref]"},
               ensures=["implies(not old(skip_self), result == lbfsq(filter, prune, unit(self)))", "implies(old(skip_self), result == lbfsq(filter, prune, lkids(self)))"],
               loops={1: Loop(inv=["implies(skip_self, old(skip_self) and queue == unit(self) and len(out) == 0)",
                                   "implies(not skip_self and not old(skip_self), out + lbfsq(filter, prune, queue) == lbfsq(filter, prune, unit(self)))",
                                   "implies(not skip_self and old(skip_self), out + lbfsq(filter, prune, queue) == lbfsq(filter, prune, lkids(self)))"])},
               note="the queue recursion lbfsq (level order, see lemma bfs-levels of C05) from the start node, or from its children with skip_self"))
    for idx, exact in ((0, "False"), (1, "True")):
        A(Contract(f"{LM}:AwareASTNode.gather.filter_fn", variant_of=f"def{idx}", props=PR, returns="bool",
                   params={"obj": "Ref"}, ghost={"obj_classes": "Seq[Cls]", "extra_filter": "Opt[Fn]"},
                   ensures=[f"result == (classtest(obj_classes, {exact}, obj) and F(extra_filter, obj))"]))
    A(Contract(f"{LM}:AwareASTNode.dfs", variant_of="callee", params={"self": "Ref", "prune": "Opt[Fn]", "filter": "Opt[Fn]", "bottom_up": "bool", "skip_self": "bool"},
               returns="Seq[Ref]", props=PR, trusted=True, trusted_reason="proved above",
               ensures=["implies(not skip_self and not bottom_up, result == lpre(filter, prune, self))", f"implies(skip_self and not bottom_up, result == {TDS})"]))
    reg.contracts[f"{LM}:AwareASTNode.dfs#callee"].fn = f"{LM}:AwareASTNode.dfs"
    for variant, osort in ((None, "Seq[Cls]"), ("single-class", "Cls")):
        G = "lgfilter(classes_of(obj_class), exact_type, extra_filter)"
        A(Contract(f"{LM}:AwareASTNode.gather", variant_of=variant, props=PR, returns="Seq[Ref]", generator=True,
                   params={"self": "Ref", "obj_class": osort, "exact_type": "bool", "extra_filter": "Opt[Fn]", "prune": "Opt[Fn]", "skip_self": "bool"},
                   ensures=[f"implies(not skip_self, result == lpre({G}, prune, self))", f"implies(skip_self, result == clpre({G}, prune, lkids(self)))"],
                   loops={1: Loop(inv=["out == done1"])},
                   note="the pre-order dfs with the class test (isinstance, or exact type) and the extra filter as filter"))
    world.trusted_notes.append('filter / prune callbacks are pure functions of the node (apply_fn); get_child_nodes() == lkids(node); `children` is list(get_child_nodes())')
    return world, lib, reg, lemmas(lib, nv, dict(rev=rev, clpre=clpre, lpre=lpre, clpost=clpost, lpost=lpost, Bq=Bq, OFN=OFN, SR=SR, E=E))


def lemmas(lib, nv, d):
    REF = nv.REF
    rev, clpre, lpre, clpost, lpost, Bq, OFN, SR, E = d["rev"], d["clpre"], d["lpre"], d["clpost"], d["lpost"], d["Bq"], d["OFN"], d["SR"], d["E"]
    P = ["C20"]
    L = []
    fl, pr = z3.Const("fl_l", OFN.z3()), z3.Const("pr_l", OFN.z3())
    x, y = z3.Const("x_l", REF.z3()), z3.Const("y_l", REF.z3())
    q, r, b = z3.Const("q_l", SR.z3()), z3.Const("r_l", SR.z3()), z3.Const("b_l", SR.z3())

    # rev([x] ++ r) == rev(r) ++ [x]   (induction on r, snoc form)
    def rc_base(bank):
        return [], rev.t(mk_cons(x, E)) == mk_snoc(rev.t(E), x)

    def rc_step(bank):
        ih = rev.t(mk_cons(x, q)) == mk_snoc(rev.t(q), x)
        rr = mk_snoc(q, y)
        whole = mk_cons(x, rr)
        bank.add(whole, ("snoc", mk_cons(x, q), y))
        return [ih], rev.t(whole) == mk_snoc(rev.t(rr), x)
    L.append(Lemma("rev_nodes-cons", [("base", rc_base), ("step", rc_step)], P))

    def rr_base(bank):
        return [], rev.t(rev.t(E)) == E

    def rr_step(bank):
        ih = rev.t(rev.t(q)) == q
        return [ih], rev.t(rev.t(mk_snoc(q, y))) == mk_snoc(q, y)
    L.append(Lemma("rev_nodes-rev", [("base", rr_base), ("step", rr_step)], P, uses=["rev_nodes-cons"]))

    # clpre(a ++ b) == clpre(a) ++ clpre(b)   (induction on a, cons form)
    def cc_base(bank):
        return [], clpre.t(fl, pr, z3.Concat(E, b)) == z3.Concat(clpre.t(fl, pr, E), clpre.t(fl, pr, b))

    def cc_step(bank):
        ih = clpre.t(fl, pr, z3.Concat(r, b)) == z3.Concat(clpre.t(fl, pr, r), clpre.t(fl, pr, b))
        a = mk_cons(x, r)
        whole = z3.Concat(a, b)
        bank.add(whole, ("cons", x, z3.Concat(r, b)))
        return [ih], clpre.t(fl, pr, whole) == z3.Concat(clpre.t(fl, pr, a), clpre.t(fl, pr, b))
    L.append(Lemma("clpre-concat", [("base", cc_base), ("step", cc_step)], P))

    # clpost(s ++ [y]) == clpost(s) ++ lpost(y)   (induction on s, cons form)
    def cs_base(bank):
        return [], clpost.t(fl, pr, mk_snoc(E, y)) == z3.Concat(clpost.t(fl, pr, E), lpost.t(fl, pr, y))

    def cs_step(bank):
        ih = clpost.t(fl, pr, mk_snoc(r, y)) == z3.Concat(clpost.t(fl, pr, r), lpost.t(fl, pr, y))
        s_ = mk_cons(x, r)
        whole = mk_snoc(s_, y)
        bank.add(whole, ("cons", x, mk_snoc(r, y)))
        return [ih], clpost.t(fl, pr, whole) == z3.Concat(clpost.t(fl, pr, s_), lpost.t(fl, pr, y))
    L.append(Lemma("clpost-snoc", [("base", cs_base), ("step", cs_step)], P))

    # B(a ++ b) == B(b) ++ B(a)   (induction on a, cons form)
    def bc_base(bank):
        return [], Bq.t(fl, pr, z3.Concat(E, b)) == z3.Concat(Bq.t(fl, pr, b), Bq.t(fl, pr, E))

    def bc_step(bank):
        ih = Bq.t(fl, pr, z3.Concat(r, b)) == z3.Concat(Bq.t(fl, pr, b), Bq.t(fl, pr, r))
        a = mk_cons(x, r)
        whole = z3.Concat(a, b)
        bank.add(whole, ("cons", x, z3.Concat(r, b)))
        return [ih], Bq.t(fl, pr, whole) == z3.Concat(Bq.t(fl, pr, b), Bq.t(fl, pr, a))
    L.append(Lemma("B-concat", [("base", bc_base), ("step", bc_step)], P))

    # B(rev(s)) == clpost(s)   (induction on s, snoc form; rev(s ++ [y]) = [y] ++ rev(s))
    def br_base(bank):
        return [], Bq.t(fl, pr, rev.t(E)) == clpost.t(fl, pr, E)

    def br_step(bank):
        ih = Bq.t(fl, pr, rev.t(q)) == clpost.t(fl, pr, q)
        return [ih], Bq.t(fl, pr, rev.t(mk_snoc(q, y))) == clpost.t(fl, pr, mk_snoc(q, y))
    L.append(Lemma("B-rev", [("base", br_base), ("step", br_step)], P, uses=["clpost-snoc"]))
    return L
