"""C09 (dispatch and generic_visit): ASTNode.accept, ASTVisitor.visit, ASTTransformVisitor.generic_visit.

Visitor methods are an uninterpreted partial map vmeth(visitor, name) : Opt[Meth]; calling a method is
the uninterpreted call_meth(meth, node).  first_meth(v, classes) is the first class of a sequence that
has a visit_<Class> method -- the MRO rule of the statement."""
from __future__ import annotations

import z3

from pyvc.contract import Contract, Loop, Registry
from pyvc.lemmas import concat_from_cons
from pyvc.specfn import SpecLib
from pyvc.symex import World
from pyvc.values import STR, V, VBool, VBound, VCls, VOpt, VPy, VStr, VU, opt_of, seq_of, usort
from pyvc.verify import Lemma

from .node_common import M, NodeVocab


def build():
    reg = Registry()
    world = World(reg)
    lib = SpecLib()
    nv = NodeVocab(world, lib)
    REF, CLS = nv.REF, nv.CLS
    VIS, METH, RES, CHG = usort("Visitor"), usort("Meth"), usort("VisitResult"), usort("Changes")
    OM = opt_of(METH)
    SC = seq_of(CLS)
    strict = z3.Function("visitor_strict", VIS.z3(), z3.BoolSort())
    vmeth = z3.Function("vmeth", VIS.z3(), z3.StringSort(), OM.z3())
    generic = z3.Function("generic_visit_of", VIS.z3(), METH.z3())
    call_meth = z3.Function("call_meth", METH.z3(), REF.z3(), RES.z3())
    mro = z3.Function("mro", CLS.z3(), SC.z3())
    vname = lambda c: z3.Concat(z3.StringVal("visit_"), nv.cls_name(c))
    first = lib.fn("first_meth", [VIS, SC], OM)
    first.rule("first-empty", 1, "empty")(lambda a, p: OM.none().term)
    first.rule("first-cons", 1, "cons")(lambda a, p: z3.If(OM.is_none(vmeth(a[0], vname(p[0]))), first.t(a[0], p[1]), vmeth(a[0], vname(p[0]))))
    first.rule("first-concat", 1, "concat", "lemma")(lambda a, p: z3.If(OM.is_none(first.t(a[0], p[0])), first.t(a[0], p[1]), first.t(a[0], p[0])))

    sf = world.spec_fns
    sf["first_meth"] = first
    sf["vmeth"] = lambda v, n: VOpt(vmeth(v.term, n.term), OM)
    sf["generic_of"] = lambda v: METH.wrap(generic(v.term))
    sf["call_meth"] = lambda m, n: RES.wrap(call_meth(METH.coerce(m).term, n.term))
    sf["strict"] = lambda v: VBool(strict(v.term))
    sf["mro"] = lambda c: SC.wrap(mro(c.term))
    sf["vname"] = lambda c: VStr(vname(c.term))
    sf["or_else"] = lambda o, d: METH.wrap(z3.If(OM.is_none(o.term), d.term, OM.val(o.term)))

    def attr(m, obj, name):
        if isinstance(obj, VU) and obj.sort == VIS:
            if name == "strict":
                return VBool(strict(obj.term))
            if name == "generic_visit":
                return METH.wrap(generic(obj.term))
            if name in ("visit", "_transform_children"):
                return VBound(obj, name)
        return None

    def call(m, func, args, kwargs, node):
        if isinstance(func, VPy) and func.obj == ("builtin", "getattr") and isinstance(args[0], VU) and args[0].sort == VIS and isinstance(args[1], VStr):
            return VOpt(vmeth(args[0].term, args[1].term), OM)
        if isinstance(func, VPy) and func.obj == ("getmro",):
            return SC.wrap(mro(CLS.coerce(args[0]).term))
        f = func
        if isinstance(f, VOpt) and f.sort == OM:
            f = METH.coerce(f)
        if isinstance(f, VU) and f.sort == METH and len(args) == 1:
            # a user visitor method: may raise anything; its result is a function of (method, node)
            from pyvc.symex import RaiseSig
            from pyvc.values import VExc, fresh_name
            if m.ctx.branch(z3.Bool(fresh_name("visitor_method_raises"))):
                raise RaiseSig(VExc("Exception"))
            return RES.wrap(call_meth(f.term, REF.coerce(args[0]).term))
        return NotImplemented

    world.attr_hooks.insert(0, attr)
    world.call_hooks.append(call)
    world.name_hooks.append(lambda m, n: VPy(("getmro",)) if n == "getmro" else None)
    # mro(cls) is never empty (it ends with object) and starts with the class itself
    A = reg.add
    P = ["C09"]
    butlast = lib.fn("butlast", [SC], SC)
    butlast.rule("butlast-snoc", 0, "snoc")(lambda a, p: p[0])

    def accept_result(n, v):
        c = nv.cls_of(n)
        own = vmeth(v, vname(c))
        fm = first.t(v, butlast.t(mro(c)))
        chosen = z3.If(strict(v), z3.If(OM.is_none(own), generic(v), OM.val(own)), z3.If(OM.is_none(fm), generic(v), OM.val(fm)))
        return call_meth(chosen, n)

    sf["accept_result"] = lambda n, v: RES.wrap(accept_result(REF.coerce(n).term, v.term))
    A(Contract(f"{M}:ASTNode.accept", params={"self": "Ref", "visitor": "Visitor"}, returns="VisitResult", props=P,
               requires=["len(mro(cls_of(self))) > 0"],
               locals={"visitor_method": "Opt[Meth]"},
               may_raise=["Exception"],
               ensures=["result == accept_result(self, visitor)"],
               loops={1: Loop(inv=["first_meth(visitor, done1) is None", "visitor_method is None"])},
               note="accept_result: strict -> the visit_<Class> method of the node's own class or generic_visit; otherwise the first class of mro[:-1] (object excluded) that has one, else generic_visit; the chosen method is called with the node"))
    A(Contract("pyoak.visitor:ASTVisitor.visit", params={"self": "Visitor", "node": "Ref"}, returns="VisitResult", props=P,
               requires=["len(mro(cls_of(node))) > 0"],
               may_raise=["Exception"], ensures=["result == accept_result(node, self)"]))
    # generic_visit: identity when nothing changed, dataclasses.replace otherwise
    empty_chg = z3.Function("changes_empty", CHG.z3(), z3.BoolSort())
    tc = z3.Function("transform_children_of", VIS.z3(), REF.z3(), CHG.z3())
    dcr = z3.Function("dc_replace", REF.z3(), CHG.z3(), REF.z3())
    sf["changes_empty"] = lambda c: VBool(empty_chg(c.term))
    sf["tc_of"] = lambda v, n: CHG.wrap(tc(v.term, n.term))
    sf["dc_replace"] = lambda n, c: REF.wrap(dcr(n.term, c.term))
    world.truth_hooks.append(lambda m, v: z3.Not(empty_chg(v.term)) if isinstance(v, VU) and v.sort == CHG else None)
    world.usort_class["Visitor"] = "ASTTransformVisitor"
    world.class_parents["ASTTransformVisitor"] = ["ASTVisitor"]
    world.class_parents["ASTVisitor"] = []
    world.class_module.update({"ASTTransformVisitor": "pyoak.visitor", "ASTVisitor": "pyoak.visitor"})
    A(Contract("pyoak.visitor:ASTTransformVisitor._transform_children", params={"self": "Visitor", "node": "Ref"}, returns="Changes", props=P,
               trusted=True, trusted_reason="per-field change tracking; covered by the bounded reference comparison in rt.c09 (its dict-of-lists bookkeeping is not yet under a discharged contract)",
               may_raise=["Exception"], ensures=["result == tc_of(self, node)"]))

    def call2(m, func, args, kwargs, node):
        if isinstance(func, VPy) and func.obj == ("builtin", "replace") and isinstance(args[0], VU) and args[0].sort == REF:
            from pyvc.symex import RaiseSig
            from pyvc.values import VExc, fresh_name
            if m.ctx.branch(z3.Bool(fresh_name("construction_raises"))):
                raise RaiseSig(VExc("Exception"))
            return REF.wrap(dcr(args[0].term, CHG.coerce(kwargs["**"]).term))
        return NotImplemented

    world.call_hooks.append(call2)
    A(Contract("pyoak.visitor:ASTTransformVisitor.generic_visit", params={"self": "Visitor", "node": "Ref"}, returns="Ref", props=P,
               may_raise=["Exception"],
               ensures=["implies(changes_empty(tc_of(self, node)), result == node)",
                        "implies(not changes_empty(tc_of(self, node)), result == dc_replace(node, tc_of(self, node)))"],
               note="no change -> the very same node object; otherwise a new node built by dataclasses.replace from exactly the collected changes"))
    lem = [concat_from_first(first, vmeth, vname, OM, VIS, CLS, SC)]
    return world, lib, reg, lem


def concat_from_first(first, vmeth, vname, OM, VIS, CLS, SC):
    """first_meth(v, a ++ b) == first_meth(v, a) if it is not None else first_meth(v, b); induction on a."""
    from pyvc.core import mk_cons
    E = z3.Empty(SC.z3())
    v = z3.Const("v_fc", VIS.z3())
    x = z3.Const("x_fc", CLS.z3())
    r, b = z3.Const("r_fc", SC.z3()), z3.Const("b_fc", SC.z3())
    pick = lambda p, q: z3.If(OM.is_none(p), q, p)

    def base(bank):
        return [], first.t(v, z3.Concat(E, b)) == pick(first.t(v, E), first.t(v, b))

    def step(bank):
        ih = first.t(v, z3.Concat(r, b)) == pick(first.t(v, r), first.t(v, b))
        a = mk_cons(x, r)
        whole = z3.Concat(a, b)
        bank.add(whole, ("cons", x, z3.Concat(r, b)))
        return [ih], first.t(v, whole) == pick(first.t(v, a), first.t(v, b))
    return Lemma("first-concat", [("base", base), ("step", step)], ["C09"])
