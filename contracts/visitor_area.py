"""C09 (dispatch and generic_visit): ASTNode.accept, ASTVisitor.visit, ASTTransformVisitor.generic_visit.

Visitor methods are an uninterpreted partial map vmeth(visitor, name) : Opt[Meth]; calling a method is
the uninterpreted call_meth(meth, node).  first_meth(v, classes) is the first class of a sequence that
has a visit_<Class> method -- the MRO rule of the statement."""
from __future__ import annotations

import z3

from pyvc.contract import Contract, Loop, Registry
from pyvc.lemmas import concat_from_cons
from pyvc.specfn import SpecLib
from pyvc.symex import World
from pyvc.values import STR, V, VBool, VBound, VCls, VOpt, VPy, VStr, VU, opt_of, seq_of, usort
from pyvc.verify import Lemma

from .node_common import M, NodeVocab


def build():
    reg = Registry()
    world = World(reg)
    lib = SpecLib()
    nv = NodeVocab(world, lib)
    REF, CLS = nv.REF, nv.CLS
    VIS, METH, RES, CHG = usort("Visitor"), usort("Meth"), usort("VisitResult"), usort("Changes")
    OM = opt_of(METH)
    SC = seq_of(CLS)
    strict = z3.Function("visitor_strict", VIS.z3(), z3.BoolSort())
    vmeth = z3.Function("vmeth", VIS.z3(), z3.StringSort(), OM.z3())
    generic = z3.Function("generic_visit_of", VIS.z3(), METH.z3())
    call_meth = z3.Function("call_meth", METH.z3(), REF.z3(), RES.z3())
    mro = z3.Function("mro", CLS.z3(), SC.z3())
    vname = lambda c: z3.Concat(z3.StringVal("visit_"), nv.cls_name(c))
    first = lib.fn("first_meth", [VIS, SC], OM)
    first.rule("first-empty", 1, "empty")(lambda a, p: OM.none().term)
    first.rule("first-cons", 1, "cons")(lambda a, p: z3.If(OM.is_none(vmeth(a[0], vname(p[0]))), first.t(a[0], p[1]), vmeth(a[0], vname(p[0]))))
    first.rule("first-concat", 1, "concat", "lemma")(lambda a, p: z3.If(OM.is_none(first.t(a[0], p[0])), first.t(a[0], p[1]), first.t(a[0], p[0])))

    sf = world.spec_fns
    sf["first_meth"] = first
    sf["vmeth"] = lambda v, n: VOpt(vmeth(v.term, n.term), OM)
    sf["generic_of"] = lambda v: METH.wrap(generic(v.term))
    sf["call_meth"] = lambda m, n: RES.wrap(call_meth(METH.coerce(m).term, n.term))
    sf["strict"] = lambda v: VBool(strict(v.term))
    sf["mro"] = lambda c: SC.wrap(mro(c.term))
    sf["vname"] = lambda c: VStr(vname(c.term))
    sf["or_else"] = lambda o, d: METH.wrap(z3.If(OM.is_none(o.term), d.term, OM.val(o.term)))

    def attr(m, obj, name):
        if isinstance(obj, VU) and obj.sort == VIS:
            if name == "strict":
                return VBool(strict(obj.term))
            if name == "generic_visit":
                return METH.wrap(generic(obj.term))
            if name in ("visit", "_transform_children"):
                return VBound(obj, name)
        return None

    def call(m, func, args, kwargs, node):
        if isinstance(func, VPy) and func.obj == ("builtin", "getattr") and isinstance(args[0], VU) and args[0].sort == VIS and isinstance(args[1], VStr):
            return VOpt(vmeth(args[0].term, args[1].term), OM)
        if isinstance(func, VPy) and func.obj == ("getmro",):
            return SC.wrap(mro(CLS.coerce(args[0]).term))
        f = func
        if isinstance(f, VOpt) and f.sort == OM:
            f = METH.coerce(f)
        if isinstance(f, VU) and f.sort == METH and len(args) == 1:
            # a user visitor method: may raise anything; its result is a function of (method, node)
            from pyvc.symex import RaiseSig
            from pyvc.values import VExc, fresh_name
            if m.ctx.branch(z3.Bool(fresh_name("visitor_method_raises"))):
                raise RaiseSig(VExc("Exception"))
            return RES.wrap(call_meth(f.term, REF.coerce(args[0]).term))
        return NotImplemented

    world.attr_hooks.insert(0, attr)
    world.call_hooks.append(call)
    world.name_hooks.append(lambda m, n: VPy(("getmro",)) if n == "getmro" else None)
    # mro(cls) is never empty (it ends with object) and starts with the class itself
    A = reg.add
    P = ["C09"]
    butlast = lib.fn("butlast", [SC], SC)
    butlast.rule("butlast-snoc", 0, "snoc")(lambda a, p: p[0])

    def accept_result(n, v):
        c = nv.cls_of(n)
        own = vmeth(v, vname(c))
        fm = first.t(v, butlast.t(mro(c)))
        chosen = z3.If(strict(v), z3.If(OM.is_none(own), generic(v), OM.val(own)), z3.If(OM.is_none(fm), generic(v), OM.val(fm)))
        return call_meth(chosen, n)

    sf["accept_result"] = lambda n, v: RES.wrap(accept_result(REF.coerce(n).term, v.term))
    A(Contract(f"{M}:ASTNode.accept", params={"self": "Ref", "visitor": "Visitor"}, returns="VisitResult", props=P,
               requires=["len(mro(cls_of(self))) > 0"],
               locals={"visitor_method": "Opt[Meth]"},
               may_raise=["Exception"],
               ensures=["result == accept_result(self, visitor)"],
               loops={1: Loop(inv=["first_meth(visitor, done1) is None", "visitor_method is None"])},
               note="accept_result: strict -> the visit_<Class> method of the node's own class or generic_visit; otherwise the first class of mro[:-1] (object excluded) that has one, else generic_visit; the chosen method is called with the node"))
    A(Contract("pyoak.visitor:ASTVisitor.visit", params={"self": "Visitor", "node": "Ref"}, returns="VisitResult", props=P,
               requires=["len(mro(cls_of(node))) > 0"],
               may_raise=["Exception"], ensures=["result == accept_result(node, self)"]))
    # generic_visit: identity when nothing changed, dataclasses.replace otherwise
    empty_chg = z3.Function("changes_empty", CHG.z3(), z3.BoolSort())
    tc = z3.Function("transform_children_of", VIS.z3(), REF.z3(), CHG.z3())
    dcr = z3.Function("dc_replace", REF.z3(), CHG.z3(), REF.z3())
    sf["changes_empty"] = lambda c: VBool(empty_chg(c.term))
    sf["tc_of"] = lambda v, n: CHG.wrap(tc(v.term, n.term))
    sf["dc_replace"] = lambda n, c: REF.wrap(dcr(n.term, c.term))
    world.truth_hooks.append(lambda m, v: z3.Not(empty_chg(v.term)) if isinstance(v, VU) and v.sort == CHG else None)
    world.usort_class["Visitor"] = "ASTTransformVisitor"
    world.class_parents["ASTTransformVisitor"] = ["ASTVisitor"]
    world.class_parents["ASTVisitor"] = []
    world.class_module.update({"ASTTransformVisitor": "pyoak.visitor", "ASTVisitor": "pyoak.visitor"})
    A(Contract("pyoak.visitor:ASTTransformVisitor._transform_children", params={"self": "Visitor", "node": "Ref"}, returns="Changes", props=P,
               trusted=True, trusted_reason="callee summary for generic_visit (the mapping of changed fields as an abstract value tc_of); the body is proved below as _transform_children#body (per-field change tracking, pointwise)",
               may_raise=["Exception"], ensures=["result == tc_of(self, node)"]))

    node_replace = z3.Function("astnode_replace", REF.z3(), CHG.z3(), REF.z3())   # ASTNode.replace: unregisters the original (C03) -- not what a transformer may do to its input

    def attr_nr(m, obj, name):
        if isinstance(obj, VU) and obj.sort == REF and name == "replace":
            return VBound(obj, "replace")
        return None

    world.attr_hooks.insert(0, attr_nr)

    def call2(m, func, args, kwargs, node):
        if isinstance(func, VBound) and isinstance(func.recv, VU) and func.recv.sort == REF and func.name == "replace":
            from pyvc.symex import RaiseSig
            from pyvc.values import VExc, fresh_name
            if m.ctx.branch(z3.Bool(fresh_name("construction_raises"))):
                raise RaiseSig(VExc("Exception"))
            return REF.wrap(node_replace(func.recv.term, CHG.coerce(kwargs["**"]).term))
        if isinstance(func, VPy) and func.obj == ("builtin", "replace") and isinstance(args[0], VU) and args[0].sort == REF:
            from pyvc.symex import RaiseSig
            from pyvc.values import VExc, fresh_name
            if m.ctx.branch(z3.Bool(fresh_name("construction_raises"))):
                raise RaiseSig(VExc("Exception"))
            return REF.wrap(dcr(args[0].term, CHG.coerce(kwargs["**"]).term))
        return NotImplemented

    world.call_hooks.append(call2)
    A(Contract("pyoak.visitor:ASTTransformVisitor.generic_visit", params={"self": "Visitor", "node": "Ref"}, returns="Ref", props=P,
               may_raise=["Exception"],
               ensures=["implies(changes_empty(tc_of(self, node)), result == node)",
                        "implies(not changes_empty(tc_of(self, node)), result == dc_replace(node, tc_of(self, node)))"],
               note="no change -> the very same node object; otherwise a new node built by dataclasses.replace from exactly the collected changes"))
    lem = [concat_from_first(first, vmeth, vname, OM, VIS, CLS, SC)]
    lem += transform_children(world, lib, reg, nv, VIS)
    world.trusted_notes.append("_transform_children: the results of the user's visit() calls are a skolem function of the call position (visit_result_at); the lists stored in the change dict are created in the function and never aliased; a dict comprehension over a set is the restriction of the dict to that set (keys_list_exactly, names_are_keys: quantified lemmas)")
    return world, lib, reg, lem


def transform_children(world, lib, reg, nv, VIS):
    """ASTTransformVisitor._transform_children against folds over the child positions kids(node).

    visit_result_at(i) : Opt[Ref] is the result of the i-th visit() call of this execution (a skolem function of the
    position: the visitor is user code and may return anything).  Over a prefix s of kids(node):
      tmap(s)   field name -> collected value: for a single field the visit result (a node or None), for a tuple field the
                list of the non-None results in order (created, possibly empty, at the field's first element)
      tchg(s)   the set of field names with a change: some visit result is None or is not the very child it was given
    The mapping returned is empty when tchg(kids) is empty; otherwise it holds exactly the names of tchg(kids), each with
    tmap's value, lists turned into tuples.  Stated pointwise for an arbitrary key k (ghost parameter)."""
    import ast as _ast

    from pyvc.core import mk_snoc
    from pyvc.maps import VMap, VSet, map_sort, set_sort
    from pyvc.symex import RaiseSig
    from pyvc.values import BOOL, INT, NONE, EngineError, VExc, VHeapRef, VInt, VNone, VSeq, fresh_name
    from .dup_area import field_vocab

    REF, CPOS = nv.REF, nv.CPOS
    SCP = seq_of(CPOS)
    OR = opt_of(REF)
    fv = field_vocab(world, lib, nv)
    FV, SR, kind, items, node_of = fv["FV"], fv["SR"], fv["kind"], fv["items"], fv["node"]
    mk_one, mk_many, mk_list, FV_NONE = fv["mk_one"], fv["mk_many"], fv["mk_list"], fv["FV_NONE"]
    CH, NS = map_sort(STR, FV), set_sort(STR)
    OFV = CH.opt
    res_at = z3.Function("visit_result_at", z3.IntSort(), OR.z3())
    present = lambda mp, k: z3.Not(OFV.is_none(z3.Select(mp, k)))
    got = lambda mp, k: OFV.val(z3.Select(mp, k))
    c_child = lambda p: CPOS.get(CPOS.wrap(p).term, "child").term
    c_name = lambda p: nv.fname(CPOS.get(CPOS.wrap(p).term, "field").term)
    c_idx = lambda p: CPOS.get(CPOS.wrap(p).term, "index").term
    OI = opt_of(INT)
    tmap, tchg = lib.fn("tmap", [SCP], CH), lib.fn("tchg", [SCP], NS)

    def tmap_snoc(a, p):
        s_, x = p
        r, nm, prev = res_at(z3.Length(s_)), c_name(x), tmap.t(s_)
        # tuple field: the entry is created (empty list) at the field's first element; a non-None result is appended
        m1 = z3.If(present(prev, nm), prev, z3.Store(prev, nm, OFV.some(FV.wrap(mk_list(z3.Empty(SR.z3())))).term))
        seqmap = z3.If(OR.is_none(r), m1, z3.Store(m1, nm, OFV.some(FV.wrap(mk_list(z3.Concat(items(got(m1, nm)), z3.Unit(OR.val(r)))))).term))
        single = z3.If(OR.is_none(r), FV_NONE.term, mk_one(OR.val(r)))
        return z3.If(OI.is_none(c_idx(x)), z3.Store(prev, nm, OFV.some(FV.wrap(single)).term), seqmap)

    def tchg_snoc(a, p):
        s_, x = p
        r = res_at(z3.Length(s_))
        return z3.If(z3.Or(OR.is_none(r), OR.val(r) != c_child(x)), z3.Store(tchg.t(s_), c_name(x), z3.BoolVal(True)), tchg.t(s_))

    tmap.rule("tmap-empty", 0, "empty")(lambda a, p: CH.empty().term)
    tmap.rule("tmap-snoc", 0, "snoc")(tmap_snoc)
    tchg.rule("tchg-empty", 0, "empty")(lambda a, p: NS.empty().term)
    tchg.rule("tchg-snoc", 0, "snoc")(tchg_snoc)
    # chg_sub(S, M): every name in S is a key of M  (forall k. S[k] => k in M); used through four proved consequences
    chg_sub = z3.Function("names_are_keys", NS.z3(), CH.z3(), z3.BoolSort())
    # keys_are(KS, S): the key sequence KS lists exactly the names of S
    keys_are = z3.Function("keys_list_exactly", z3.SeqSort(z3.StringSort()), NS.z3(), z3.BoolSort())
    conv = lambda v: z3.If(kind(v) == 3, mk_many(items(v)), v)

    def instances(formulas):
        out, seen, stack = [], set(), list(formulas)
        subs, kas, keys = [], [], {}
        while stack:
            f = stack.pop()
            if not z3.is_app(f) or f.get_id() in seen:
                continue
            seen.add(f.get_id())
            nm = f.decl().name()
            if nm == "names_are_keys":
                subs.append(f)
            if nm == "keys_list_exactly":
                kas.append(f)
            if f.decl().kind() in (z3.Z3_OP_STORE, z3.Z3_OP_SELECT) and f.arg(1).sort() == z3.StringSort():
                keys[f.arg(1).get_id()] = f.arg(1)
            if f.decl().kind() == z3.Z3_OP_SEQ_UNIT and f.arg(0).sort() == z3.StringSort():
                keys[f.arg(0).get_id()] = f.arg(0)
            stack.extend(f.children())
        done = set()

        def emit(x):
            if x.get_id() not in done:
                done.add(x.get_id())
                out.append(x)
        for ap in subs:
            S_, M_ = ap.arg(0), ap.arg(1)
            Ss, Ms = [S_], [M_]
            if z3.is_app(S_) and S_.decl().kind() == z3.Z3_OP_STORE:
                Ss.append(S_.arg(0))
            if z3.is_app(M_) and M_.decl().kind() == z3.Z3_OP_STORE:
                Ms.append(M_.arg(0))
            if z3.is_app(S_) and S_.decl().kind() == z3.Z3_OP_CONST_ARRAY:
                emit(z3.Implies(z3.Not(S_.arg(0)), ap))                                                            # S-empty
            if len(Ms) == 2:                                                                                       # S-store-map: a stored (present) value keeps every key
                emit(z3.Implies(z3.And(chg_sub(S_, Ms[1]), z3.Not(OFV.is_none(M_.arg(2)))), ap))
                for S0 in Ss[1:]:
                    emit(z3.Implies(z3.And(chg_sub(S0, Ms[1]), z3.Not(OFV.is_none(M_.arg(2)))), chg_sub(S0, M_)))
            if len(Ss) == 2:                                                                                       # S-add-name: the added name is a key
                emit(z3.Implies(z3.And(chg_sub(Ss[1], M_), z3.Or(z3.Not(S_.arg(2)), present(M_, S_.arg(1)))), ap))
            for k in keys.values():                                                                                # S-elim
                for S0 in Ss:
                    for M0 in Ms:
                        emit(z3.Implies(z3.And(chg_sub(S0, M0), z3.Select(S0, k)), present(M0, k)))
        for ap in kas:
            KS, S_ = ap.arg(0), ap.arg(1)
            for k in keys.values():                                                                                # K-elim (both directions)
                emit(z3.Implies(ap, z3.Contains(KS, z3.Unit(k)) == z3.Select(S_, k)))
        return out

    lib.extra_instantiators.append(instances)
    sf = world.spec_fns
    sf.update({"tmap": tmap, "tchg": tchg, "names_are_keys": lambda S_, M_: VBool(chg_sub(S_.term, M_.term)),
               "in_set": lambda S_, k: VBool(z3.Select(S_.term, STR.coerce(k).term)),
               "no_names": lambda S_: VBool(S_.term == NS.empty().term),
               "conv": lambda v: FV.wrap(conv(FV.coerce(v).term)),
               "is_list_val": lambda v: VBool(kind(FV.coerce(v).term) == 3),
               "kids_len_ok": lambda n: VBool(z3.BoolVal(True))})

    def attr(m, obj, name):
        if isinstance(obj, VU) and obj.sort == FV and name == "append":
            return VBound(obj, "append")
        return None

    world.attr_hooks.insert(0, attr)

    def call(m, func, a, kw, nd):
        q = m.contract.qualname
        if not q.endswith("_transform_children"):
            return NotImplemented
        if isinstance(func, VBound) and isinstance(func.recv, VU) and func.recv.sort == VIS and func.name == "visit":
            # the i-th visit() call of this execution: user code, may raise, returns a node or None
            if m.ctx.branch(z3.Bool(fresh_name("visit_raises"))):
                raise RaiseSig(VExc("Exception"))
            prev = m.ghost_env.get("prev_done1")
            if prev is None:
                raise EngineError("visit() outside the loop over the child positions")
            return VOpt(res_at(z3.Length(prev.term)), OR)
        if nd is not None and isinstance(nd.func, _ast.Attribute) and nd.func.attr == "append" and isinstance(nd.func.value, _ast.Subscript) \
                and isinstance(nd.func.value.value, _ast.Name):
            # d[key].append(x) on a dict whose values are lists created by `d[key] = []` in this function (never aliased): functional update of the entry
            d_ = m.env.get(nd.func.value.value.id)
            if isinstance(d_, VHeapRef) and m.ctx.cell(d_.addr).kind == "dict":
                from pyvc.maps import dict_getitem, dict_store
                cell = m.ctx.cell(d_.addr)
                key = m.eval(nd.func.value.slice)
                cur = dict_getitem(m, cell, key)
                if not m.ctx.branch(kind(cur.term) == 3):
                    raise RaiseSig(VExc("AttributeError"))
                x = REF.coerce(a[0])
                dict_store(m, cell, key, fv["lst"](m, VSeq(z3.Concat(items(cur.term), z3.Unit(x.term)), SR)))
                return NONE
        if isinstance(func, VPy) and func.obj == ("builtin", "tuple") and len(a) == 1 and isinstance(a[0], VU) and a[0].sort == FV:
            return fv["many"](m, VSeq(items(a[0].term), SR))
        return NotImplemented

    def isinst(m, v, cls):
        if isinstance(v, VU) and v.sort == FV and getattr(cls, "name", None) == "list":
            return kind(v.term) == 3
        return None

    def dictcomp(m, e, hint):
        # {fname: changes[fname] for fname in field_names_with_changes}: the restriction of a dict to a set of its keys
        if not (len(e.generators) == 1 and not e.generators[0].ifs and isinstance(e.generators[0].target, _ast.Name) and isinstance(e.key, _ast.Name)
                and e.key.id == e.generators[0].target.id and isinstance(e.value, _ast.Subscript) and isinstance(e.value.value, _ast.Name)
                and isinstance(e.value.slice, _ast.Name) and e.value.slice.id == e.key.id):
            return None
        S_ = m.eval(e.generators[0].iter)
        D_ = m.env.get(e.value.value.id)
        if not (isinstance(S_, VHeapRef) and m.ctx.cell(S_.addr).kind == "set" and isinstance(D_, VHeapRef) and m.ctx.cell(D_.addr).kind == "dict"):
            return None
        sv, dv = m.ctx.cell(S_.addr).value, m.ctx.cell(D_.addr).value
        # every iterated name must be a key (otherwise KeyError)
        ok = chg_sub(sv.term, dv.term)
        m.ctx.check(ok, f"{m.contract.key}/dictcomp/every-name-is-a-key", "model")
        kq = z3.Const("k_restrict", z3.StringSort())
        R = z3.Lambda([kq], z3.If(z3.Select(sv.term, kq), z3.Select(dv.term, kq), OFV.none().term))
        KS = seq_of(STR).fresh("restricted_keys")
        m.ctx.assume(keys_are(KS.term, sv.term))
        return VHeapRef(m.ctx.alloc("dict", VMap(R, CH), {"keys": KS}), "dict")

    world.call_hooks.insert(0, call)
    world.isinstance_hooks.insert(0, isinst)
    world.dictcomp_hook = dictcomp
    A = reg.add
    P = ["C09"]
    A(Contract(f"{M}:ASTNode.get_child_nodes_with_field", params={"self": "Ref", "sort_keys": "bool"}, returns="Seq[ChildPos]", props=P, trusted=True,
               trusted_reason="the specialised accessor generated per class, proved under C12 (== kids(self), in declaration order)", ensures=["result == kids(self)"]))
    KEY_IN = "in_set(tchg(kids(node)), k)"
    A(Contract("pyoak.visitor:ASTTransformVisitor._transform_children", variant_of="body", params={"self": "Visitor", "node": "Ref"}, returns="Dict[str,FieldVal]", props=P,
               ghost={"k": "str"}, may_raise=["Exception"],
               locals={"changes": "Dict[str,FieldVal]", "field_names_with_changes": "Set[str]", "new_child": "Opt[Ref]", "val": "FieldVal"},
               ensures=[f"implies(no_names(tchg(kids(node))), k not in result)",
                        f"implies(not no_names(tchg(kids(node))) and {KEY_IN}, k in result and result[k] == conv(tmap(kids(node))[k]) and not is_list_val(result[k]))",
                        f"implies(not no_names(tchg(kids(node))) and not {KEY_IN}, k not in result)"],
               loops={1: Loop(inv=["changes == tmap(done1)", "field_names_with_changes == tchg(done1)", "names_are_keys(field_names_with_changes, changes)", "seq1 == kids(node)"]),
                      2: Loop(inv=["implies(contains(done2, k), (k in changes) == (k in changes_at2) and changes[k] == conv(changes_at2[k]))",
                                   "implies(not contains(done2, k), (k in changes) == (k in changes_at2) and changes[k] == changes_at2[k])",
                                   "keys_of(changes) == seq2"])},
               note="for an arbitrary field name k: nothing is returned when no child changed; otherwise k is returned exactly when some child of field k was replaced or removed, "
                    "with the visit result (single field) or the tuple of the non-None visit results in order (tuple field)"))
    reg.contracts["pyoak.visitor:ASTTransformVisitor._transform_children#body"].fn = "pyoak.visitor:ASTTransformVisitor._transform_children"
    sf["contains"] = lambda s_, x: VBool(z3.Contains(s_.term, z3.Unit(STR.coerce(x).term)))
    # ---- the quantified facts behind names_are_keys / keys_list_exactly -------------------------------------------
    kq = z3.Const("k_q", z3.StringSort())
    Dsub = lambda S_, M_: z3.ForAll([kq], z3.Implies(z3.Select(S_, kq), present(M_, kq)))
    S0, M0 = z3.Const("S_l", NS.z3()), z3.Const("M_l", CH.z3())
    k0, v0, b0 = z3.Const("k0_l", z3.StringSort()), z3.Const("v0_l", OFV.z3()), z3.Const("b0_l", z3.BoolSort())

    def sub_all(bank):
        goal = z3.And(Dsub(NS.empty().term, M0),
                      z3.Implies(z3.And(Dsub(S0, M0), z3.Not(OFV.is_none(v0))), Dsub(S0, z3.Store(M0, k0, v0))),
                      z3.Implies(z3.And(Dsub(S0, M0), z3.Or(z3.Not(b0), present(M0, k0))), Dsub(z3.Store(S0, k0, b0), M0)),
                      z3.Implies(z3.And(Dsub(S0, M0), z3.Select(S0, k0)), present(M0, k0)))
        return [], goal
    # ---- an unchanged tree returns itself: visits that hand every child back change nothing ---------------------------------------------------
    iq = z3.Const("i_q", z3.IntSort())
    sq, xq = z3.Const("s_idv", SCP.z3()), z3.Const("x_idv", CPOS.z3())
    ES = z3.Empty(SCP.z3())
    handed_back = lambda s_: z3.ForAll([iq], z3.Implies(z3.And(iq >= 0, iq < z3.Length(s_)), res_at(iq) == OR.some(REF.wrap(c_child(s_[iq]))).term), patterns=[res_at(iq)])
    idv = lambda s_: z3.Implies(handed_back(s_), tchg.t(s_) == NS.empty().term)
    unchanged = Lemma("identity-visits-change-nothing",
                      [("base", lambda bank: ([], idv(ES))), ("step", lambda bank: ([idv(sq)], idv(mk_snoc(sq, xq))))], P,
                      note="if every visit() call returns the very child it was given, the set of changed field names is empty -- so _transform_children returns an empty "
                           "mapping (its contract), generic_visit returns the node itself (its contract), and, by induction on the height of the tree, a transformer "
                           "without visit_* methods returns the tree it was given")
    return [Lemma("names_are_keys-rules", [("all", sub_all)], P), unchanged]


def concat_from_first(first, vmeth, vname, OM, VIS, CLS, SC):
    """first_meth(v, a ++ b) == first_meth(v, a) if it is not None else first_meth(v, b); induction on a."""
    from pyvc.core import mk_cons
    E = z3.Empty(SC.z3())
    v = z3.Const("v_fc", VIS.z3())
    x = z3.Const("x_fc", CLS.z3())
    r, b = z3.Const("r_fc", SC.z3()), z3.Const("b_fc", SC.z3())
    pick = lambda p, q: z3.If(OM.is_none(p), q, p)

    def base(bank):
        return [], first.t(v, z3.Concat(E, b)) == pick(first.t(v, E), first.t(v, b))

    def step(bank):
        ih = first.t(v, z3.Concat(r, b)) == pick(first.t(v, r), first.t(v, b))
        a = mk_cons(x, r)
        whole = z3.Concat(a, b)
        bank.add(whole, ("cons", x, z3.Concat(r, b)))
        return [ih], first.t(v, whole) == pick(first.t(v, a), first.t(v, b))
    return Lemma("first-concat", [("base", base), ("step", step)], ["C09"])
