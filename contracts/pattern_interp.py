"""C17 / C08 (the pattern interpreter's productions): where the three semantic definition errors come from, and what each value
production compiles to.

Parse nodes are opaque (PNode): is_tree, data, children, text (str() of a token).  The interpreter's only state is the set of capture
names seen so far (SEEN); sub-trees are compiled by self.visit (dynamic dispatch, abstracted: any matcher, may raise, SEEN only grows).
Matchers are built by constructor symbols (mk_any(name), mk_value_none, mk_value_empty, mk_regex(text), mk_var(name), mk_node(types,
content), mk_seq(ms), with_name(m, name)), whose match semantics is proved in contracts.pattern_area.
  _check_unique_and_get_capture   None for anything that is not a `capture` tree; otherwise the name, registered in SEEN -- and the
                                  definition error exactly when that name was seen before
  value                           `None` -> ValueMatcher(None); a quoted string -> RegexMatcher(text without the quotes); `$x` -> VarMatcher(x), and
                                  the definition error exactly when x has not been captured yet; a nested tree -> self.tree
  tree                            class list: '*' -> any node; an unknown / non-node class name -> the definition error (exactly when such a name
                                  comes before any '*'); then one (field name, compiled spec) per field_spec in order
  check_and_get_ast_node_type     a class exactly when the name is registered and is a node class"""
from __future__ import annotations

import ast

import z3

from pyvc.contract import Contract, Loop, Registry
from pyvc.core import mk_snoc
from pyvc.maps import map_sort, set_sort
from pyvc.specfn import SpecLib
from pyvc.symex import RaiseSig, World
from pyvc.values import BOOL, INT, NONE, STR, EngineError, V, VBool, VBound, VCls, VExc, VHeapRef, VInt, VNone, VOpt, VPy, VRec, VSeq, VStr, VTuple, VU, fresh_name, opt_of, rec_sort, seq_of, usort
from pyvc.verify import Lemma

PM_ = "pyoak.match.pattern"
HM_ = "pyoak.match.helpers"


def build():
    reg = Registry()
    world = World(reg)
    lib = SpecLib()
    PN, MAT, CLSO, ITP = usort("PNode"), usort("Matcher"), usort("ClassObj"), usort("Interpreter")
    OSTR, OCLS = opt_of(STR), opt_of(CLSO)
    SPN, SM, SC, SS = seq_of(PN), seq_of(MAT), seq_of(CLSO), seq_of(STR)
    CI = rec_sort("ContentItem", [("fname", STR), ("sub", MAT)], tuple_like=True)
    SCI = seq_of(CI)
    is_tree = z3.Function("pn_is_tree", PN.z3(), z3.BoolSort())
    data = z3.Function("pn_data", PN.z3(), z3.StringSort())
    kids = z3.Function("pn_children", PN.z3(), SPN.z3())
    text = z3.Function("pn_text", PN.z3(), z3.StringSort())
    mk_any = z3.Function("mk_any", OSTR.z3(), MAT.z3())
    mk_value_none = MAT.fresh("MK_VALUE_NONE")
    mk_value_empty = MAT.fresh("MK_VALUE_EMPTY_TUPLE")
    mk_regex = z3.Function("mk_regex", z3.StringSort(), MAT.z3())
    mk_var = z3.Function("mk_var", z3.StringSort(), MAT.z3())
    mk_node = z3.Function("mk_node", SC.z3(), SCI.z3(), MAT.z3())
    types_get = z3.Function("TYPES_lookup", z3.StringSort(), OCLS.z3())
    is_node_cls = z3.Function("is_node_class", CLSO.z3(), z3.BoolSort())
    ASTNODE = CLSO.fresh("ASTNode_class")
    world.consts["ASTNode"] = ASTNODE
    world.usort_class = {"Interpreter": "PatternDefInterpreter"}
    world.class_parents["PatternDefInterpreter"] = []
    world.class_module["PatternDefInterpreter"] = PM_
    for e in ("ASTPatternDefinitionError", "RuntimeError", "AssertionError"):
        world.exc_parents[e] = "Exception"
    sf = world.spec_fns
    sf.update({"pn_is_tree": lambda p: VBool(is_tree(p.term)), "pn_data": lambda p: VStr(data(p.term)), "pn_children": lambda p: SPN.wrap(kids(p.term)),
               "pn_text": lambda p: VStr(text(p.term)), "mk_any": lambda n: MAT.wrap(mk_any(OSTR.coerce(n).term)), "mk_regex": lambda t: MAT.wrap(mk_regex(STR.coerce(t).term)),
               "mk_var": lambda t: MAT.wrap(mk_var(STR.coerce(t).term)), "mk_node": lambda ts, c: MAT.wrap(mk_node(SC.coerce(ts).term, SCI.coerce(c).term)),
               "TYPES_lookup": lambda n: VOpt(types_get(STR.coerce(n).term), OCLS), "is_node_class": lambda c: VBool(is_node_cls(CLSO.coerce(c).term)),
               "in_set": lambda s_, k: VBool(z3.Select(s_.term, STR.coerce(k).term)),
               "with_elem": lambda s_, k: type(s_)(z3.Store(s_.term, STR.coerce(k).term, z3.BoolVal(True)), s_.sort),
               "is_capture": lambda p: VBool(z3.And(is_tree(p.term), data(p.term) == z3.StringVal("capture"))),
               "substr_inner": lambda t: VStr(z3.SubString(t.term, 1, z3.If(z3.Length(t.term) - 2 < 0, 0, z3.Length(t.term) - 2)))})
    world.consts["MK_VALUE_NONE"], world.consts["MK_VALUE_EMPTY_TUPLE"] = mk_value_none, mk_value_empty
    G = {"SEEN": "Set[str]"}

    def attr(m, obj, name):
        if isinstance(obj, VU) and obj.sort == PN:
            if name == "data":
                return VStr(data(obj.term))
            if name == "children":
                return SPN.wrap(kids(obj.term))
        if isinstance(obj, VU) and obj.sort == ITP and name == "_captures_seen":
            return m.global_syms["SEEN"]
        if isinstance(obj, VU) and obj.sort == ITP and name == "visit":
            return VBound(obj, "visit")
        return None

    visit_res = z3.Function("visit_result", PN.z3(), set_sort(STR).z3(), MAT.z3())         # the matcher a sub-tree compiles to, given the captures seen so far
    visit_seen = z3.Function("visit_seen_after", PN.z3(), set_sort(STR).z3(), set_sort(STR).z3())  # ... and the captures seen afterwards

    def call(m, func, a, kw, nd):
        if isinstance(func, VPy) and func.obj == ("builtin", "str") and isinstance(a[0], VU) and a[0].sort == PN:
            return VStr(text(a[0].term))
        if isinstance(func, VBound) and isinstance(func.recv, VU) and func.recv.sort == ITP and func.name == "visit":
            # dynamic dispatch into the sub-tree's production: any matcher, may raise anything, captures inside only add names
            if m.ctx.branch(z3.Bool(fresh_name("visit_raises"))):
                raise RaiseSig(VExc("Exception"))
            cell = m.ctx.cell(m.global_syms["SEEN"].addr)
            before = cell.value
            res = MAT.wrap(visit_res(PN.coerce(a[0]).term, before.term))
            cell.value = before.sort.wrap(visit_seen(PN.coerce(a[0]).term, before.term))
            return res
        if isinstance(func, VCls):
            n = func.name
            if n == "ASTPatternDefinitionError":
                return VExc("ASTPatternDefinitionError")
            if n == "AnyMatcher":
                return MAT.wrap(mk_any(OSTR.coerce(kw["name"]).term if "name" in kw else OSTR.none().term))
            if n == "ValueMatcher":
                v = kw["value"]
                if isinstance(v, VNone):
                    return mk_value_none
                if isinstance(v, VTuple) and not v.items:
                    return mk_value_empty
                raise EngineError("ValueMatcher of another value")
            if n == "RegexMatcher":
                return MAT.wrap(mk_regex(STR.coerce(kw["_re_str"]).term))
            if n == "VarMatcher":
                return MAT.wrap(mk_var(STR.coerce(kw["var_name"]).term))
            if n == "NodeMatcher":
                ts, ct = kw["types"], kw["content"]
                tsv = m.seq_value(ts) if not isinstance(ts, VSeq) else ts
                ctv = m.seq_value(ct) if not isinstance(ct, VSeq) else ct
                return MAT.wrap(mk_node(SC.coerce(tsv).term, SCI.coerce(ctv if ctv is not None else VTuple([])).term))
        if isinstance(func, VPy) and func.obj == ("builtin", "tuple") and len(a) == 1 and isinstance(a[0], VHeapRef):
            sv = m.seq_value(a[0])
            if sv is not None:
                return sv
            return VTuple([])
        return NotImplemented

    def isinst(m, v, cls):
        if isinstance(v, VU) and v.sort == PN and getattr(cls, "name", "") == "Tree":
            return is_tree(v.term)
        return None

    def eq(m, x, y):
        for p, q in ((x, y), (y, x)):
            if isinstance(p, VU) and p.sort == PN and isinstance(q, VStr):
                # a Token is a str: equal to a literal when it is a token with that text
                return z3.And(z3.Not(is_tree(p.term)), text(p.term) == q.term)
        return None

    def types_hooks(m, c, i):
        if isinstance(c, VPy) and c.obj == ("TYPES",):
            return z3.Not(OCLS.is_none(types_get(STR.coerce(i).term)))
        return None

    def index_hook(m, c, i):
        if isinstance(c, VPy) and c.obj == ("TYPES",):
            return CLSO.wrap(OCLS.val(types_get(STR.coerce(i).term)))
        return None

    def call2(m, func, a, kw, nd):
        if isinstance(func, VPy) and func.obj == ("builtin", "issubclass") and isinstance(a[0], VU) and a[0].sort == CLSO:
            return VBool(is_node_cls(a[0].term))
        return NotImplemented

    def slice_hook(m, obj, lo, hi):
        # token[1:-1]: a Token is a str; the result is again opaque text
        if isinstance(obj, VU) and obj.sort == PN and isinstance(lo, VInt) and isinstance(hi, VInt) and z3.is_true(z3.simplify(z3.And(lo.term == 1, hi.term == -1))):
            t = text(obj.term)
            return VStr(z3.SubString(t, 1, z3.If(z3.Length(t) - 2 < 0, 0, z3.Length(t) - 2)))
        return None

    world.slice_hooks = [slice_hook]
    world.attr_hooks.insert(0, attr)
    world.call_hooks.insert(0, call)
    world.call_hooks.insert(0, call2)
    world.isinstance_hooks.insert(0, isinst)
    world.eq_hooks.insert(0, eq)
    world.py_eq_hooks = [eq]
    world.contains_hooks = [types_hooks]
    world.index_hooks = [index_hook]
    world.name_hooks.append(lambda m, n: VCls(n) if n in ("Tree", "ASTPatternDefinitionError", "AnyMatcher", "ValueMatcher", "RegexMatcher", "VarMatcher", "NodeMatcher")
                            else (VPy(("TYPES",)) if n == "TYPES" else None))
    A = reg.add
    P = ["C17", "C08"]
    A(Contract(f"{HM_}:check_and_get_ast_node_type", params={"class_name": "str"}, returns="Tuple[Opt[ClassObj],str]", props=P,
               ensures=["(result[0] is None) == (TYPES_lookup(class_name) is None or not is_node_class(TYPES_lookup(class_name)))",
                        "implies(result[0] is not None, result[0] == TYPES_lookup(class_name))"],
               note="a class exactly when the name is registered in TYPES and names a node class; otherwise (None, message)"))
    BADCLS = "(TYPES_lookup(args[0]) is None or not is_node_class(TYPES_lookup(args[0])))"
    world.exc_parents["ASTXpathDefinitionError"] = "Exception"
    A(Contract("pyoak.match.xpath:XPathTransformer.class_spec", params={"self": "py:transformer", "args": "Seq[str]"}, returns="ClassObj", props=["C17", "C07"],
               requires=["len(args) > 0"], raises=[("ASTXpathDefinitionError", BADCLS)], ensures=["result == TYPES_lookup(args[0])"],
               note="the class a step names: exactly the registered node class of that name; an unknown or non-node name is the xpath definition error"))
    A(Contract(f"{PM_}:PatternDefInterpreter._check_unique_and_get_capture", params={"self": "Interpreter", "child": "PNode"}, returns="Opt[str]", props=P, globals=G,
               modifies=["SEEN"],
               raises=[("ASTPatternDefinitionError", "is_capture(child) and len(pn_children(child)) > 0 and in_set(SEEN, pn_text(pn_children(child)[0]))")],
               may_raise=["IndexError"],
               exc_ensures=["SEEN == old(SEEN)"],
               ensures=["implies(not is_capture(child), result is None and SEEN == old(SEEN))",
                        "implies(is_capture(child), result == pn_text(pn_children(child)[0]) and SEEN == with_elem(old(SEEN), pn_text(pn_children(child)[0])))"],
               note="a capture name used a second time is the definition error (nothing is recorded then); a new name is recorded and returned; non-captures are left alone"))
    A(Contract(f"{PM_}:PatternDefInterpreter.tree", variant_of="callee", params={"self": "Interpreter", "tree": "PNode"}, returns="Matcher", props=P, globals=G, modifies=["SEEN"],
               trusted=True, trusted_reason="the nested-tree production, proved below; here only: any matcher, may raise", raises=[("Exception", "*")]))
    reg.contracts[f"{PM_}:PatternDefInterpreter.tree#callee"].fn = f"{PM_}:PatternDefInterpreter.tree"
    orig_lookup = world.mro_lookup

    def lookup(cls, name):
        if name == "tree" and cls == "PatternDefInterpreter" and getattr(world, "_in_value", False):
            return f"{PM_}:PatternDefInterpreter.tree#callee"
        return orig_lookup(cls, name)

    world.mro_lookup = lookup

    def setup_value(m):
        world._in_value = True

    V0 = "pn_children(tree)[0]"
    A(Contract(f"{PM_}:PatternDefInterpreter.value", params={"self": "Interpreter", "tree": "PNode"}, returns="Matcher", props=P, globals=G, modifies=["SEEN"], setup=setup_value,
               requires=["len(pn_children(tree)) == 1", f"implies(pn_is_tree({V0}) and pn_data({V0}) == 'var', len(pn_children({V0})) > 0)"],
               may_raise=["Exception"],
               raises=[("ASTPatternDefinitionError", f"pn_is_tree({V0}) and pn_data({V0}) == 'var' and not in_set(SEEN, pn_text(pn_children({V0})[0]))"),
                       ("RuntimeError", f"pn_is_tree({V0}) and pn_data({V0}) != 'tree' and pn_data({V0}) != 'var'")],
               ensures=[f"implies(pn_is_tree({V0}) and pn_data({V0}) == 'var', result == mk_var(pn_text(pn_children({V0})[0])) and SEEN == old(SEEN))",
                        f"implies(not pn_is_tree({V0}) and pn_text({V0}) == 'None', result == MK_VALUE_NONE and SEEN == old(SEEN))",
                        f"implies(not pn_is_tree({V0}) and pn_text({V0}) != 'None', result == mk_regex(substr_inner(pn_text({V0}))) and SEEN == old(SEEN))"],
               note="a variable that has not been captured before (in traversal order) is the definition error; `None` is the None value matcher; any other token is a quoted "
                    "regular expression compiled without its quotes; a nested tree goes to the tree production"))
    # ---- tree: class list, then the field specs in order ------------------------------------------------------------------
    SSET = set_sort(STR)
    star = lambda x: z3.And(z3.Not(is_tree(x)), text(x) == z3.StringVal("*"))
    known = lambda x: z3.And(z3.Not(OCLS.is_none(types_get(text(x)))), is_node_cls(OCLS.val(types_get(text(x)))))
    first_bad = lib.fn("first_special_is_unknown_class", [SPN], BOOL)
    star_first = lib.fn("first_special_is_star", [SPN], BOOL)
    classes = lib.fn("classes_named", [SPN], SC)
    first_bad.rule("first_bad-empty", 0, "empty")(lambda a, p: z3.BoolVal(False))
    first_bad.rule("first_bad-cons", 0, "cons")(lambda a, p: z3.If(star(p[0]), z3.BoolVal(False), z3.If(known(p[0]), first_bad.t(p[1]), z3.BoolVal(True))))
    star_first.rule("star_first-empty", 0, "empty")(lambda a, p: z3.BoolVal(False))
    star_first.rule("star_first-cons", 0, "cons")(lambda a, p: z3.If(star(p[0]), z3.BoolVal(True), z3.If(known(p[0]), star_first.t(p[1]), z3.BoolVal(False))))
    classes.rule("classes-empty", 0, "empty")(lambda a, p: z3.Empty(SC.z3()))
    classes.rule("classes-snoc", 0, "snoc")(lambda a, p: mk_snoc(classes.t(p[0]), OCLS.val(types_get(text(p[1])))))
    cont = lib.fn("field_specs_compiled", [SPN, SSET], SCI)
    seen_after = lib.fn("seen_after_field_specs", [SPN, SSET], SSET)
    all_fs = lib.fn("all_field_spec_trees", [SPN], BOOL)
    item = lambda c, S: CI.mk(STR.wrap(text(kids(c)[0])), MAT.wrap(visit_res(c, S))).term
    cont.rule("cont-empty", 0, "empty")(lambda a, p: z3.Empty(SCI.z3()))
    cont.rule("cont-cons", 0, "cons")(lambda a, p: z3.Concat(z3.Unit(item(p[0], a[1])), cont.t(p[1], visit_seen(p[0], a[1]))))
    seen_after.rule("seen_after-empty", 0, "empty")(lambda a, p: a[1])
    seen_after.rule("seen_after-cons", 0, "cons")(lambda a, p: seen_after.t(p[1], visit_seen(p[0], a[1])))
    all_fs.rule("all_fs-empty", 0, "empty")(lambda a, p: z3.BoolVal(True))
    all_fs.rule("all_fs-cons", 0, "cons")(lambda a, p: z3.And(is_tree(p[0]), data(p[0]) == z3.StringVal("field_spec"), z3.Length(kids(p[0])) > 0, all_fs.t(p[1])))
    sf.update({"first_special_is_unknown_class": first_bad, "first_special_is_star": star_first, "classes_named": classes, "field_specs_compiled": cont,
               "seen_after_field_specs": seen_after, "all_field_spec_trees": all_fs,
               "astnode_only": lambda: SC.wrap(z3.Unit(ASTNODE.term)), "tail_of": lambda s_: SPN.wrap(z3.Extract(s_.term, 1, z3.Length(s_.term) - 1))})

    def coerce(m, v, sname):
        if sname == "str" and isinstance(v, VU) and v.sort == PN:
            return VStr(text(v.term))
        return None

    world.coerce_hooks = [coerce]
    NAMES = "pn_children(pn_children(tree)[0])"
    A(Contract(f"{PM_}:PatternDefInterpreter.tree", params={"self": "Interpreter", "tree": "PNode"}, returns="Matcher", props=P, globals=G, modifies=["SEEN"],
               locals={"match_types": "List[ClassObj]", "content": "List[ContentItem]"},
               requires=["len(pn_children(tree)) > 0", "pn_is_tree(pn_children(tree)[0])", "pn_data(pn_children(tree)[0]) == 'class_spec'", "all_field_spec_trees(tail_of(pn_children(tree)))"],
               may_raise=["Exception"],
               raises=[("ASTPatternDefinitionError", f"first_special_is_unknown_class({NAMES})")],
               exc_ensures=[f"implies(first_special_is_unknown_class({NAMES}), SEEN == old(SEEN))"],
               ensures=[f"implies(first_special_is_star({NAMES}), result == mk_node(astnode_only(), field_specs_compiled(tail_of(pn_children(tree)), old(SEEN))))",
                        f"implies(not first_special_is_star({NAMES}), result == mk_node(classes_named({NAMES}), field_specs_compiled(tail_of(pn_children(tree)), old(SEEN))))",
                        "SEEN == seen_after_field_specs(tail_of(pn_children(tree)), old(SEEN))"],
               loops={1: Loop(inv=[f"first_special_is_unknown_class(rest1) == first_special_is_unknown_class({NAMES})", f"first_special_is_star(rest1) == first_special_is_star({NAMES})",
                                   "match_types == classes_named(done1)", f"seq1 == {NAMES}", "SEEN == old(SEEN)"]),
                      2: Loop(inv=["content + field_specs_compiled(rest2, SEEN) == field_specs_compiled(tail_of(pn_children(tree)), old(SEEN))",
                                   "seen_after_field_specs(rest2, SEEN) == seen_after_field_specs(tail_of(pn_children(tree)), old(SEEN))", "all_field_spec_trees(rest2)"])},
               note="the class names are read up to the first '*' (any node) or the first name that is not a registered node class (the definition error, before anything else "
                    "happens); otherwise all of them are the listed classes; then one (field name, compiled spec) per field_spec, compiled in order with the captures seen so far"))
    # ---- sequence and field_spec ----------------------------------------------------------------------------------------------
    OMAT = opt_of(MAT)
    with_name = z3.Function("with_name", MAT.z3(), z3.StringSort(), MAT.z3())             # dataclasses.replace(matcher, name=name)
    mk_seq = z3.Function("mk_seq", SM.z3(), OSTR.z3(), MAT.z3())                          # SequenceMatcher(matchers=..., name=...)
    is_seqm = z3.Function("is_sequence_matcher", MAT.z3(), z3.BoolSort())
    seq_ms = z3.Function("seqm_matchers", MAT.z3(), SM.z3())
    seq_tail = z3.Function("seqm_tail", MAT.z3(), OMAT.z3())
    ANY0 = mk_any(OSTR.none().term)
    cap = lambda c: z3.And(is_tree(c), data(c) == z3.StringVal("capture"))
    cname = lambda c: text(kids(c)[0])
    push = lambda ms, last: z3.If(OMAT.is_none(last), ms, mk_snoc(ms, OMAT.val(last)))
    SQo = lib.fn("sequence_outcome", [SM, OMAT, SPN, SSET], INT)      # 0 compiled, 1 definition error (capture used twice), 2 RuntimeError (capture with nothing to name)
    SQr = lib.fn("sequence_matchers", [SM, OMAT, SPN, SSET], SM)
    SQs = lib.fn("sequence_seen", [SM, OMAT, SPN, SSET], SSET)

    def sq(fn, leaf):
        def cons(a, p):
            ms, last, S = a[0], a[1], a[3]
            c, r = p
            dup = z3.Select(S, cname(c))
            cap_case = z3.If(dup, leaf("dup", ms, last, S), z3.If(OMAT.is_none(last), leaf("nolast", ms, last, S),
                                                              fn.t(ms, OMAT.some(MAT.wrap(with_name(OMAT.val(last), cname(c)))).term, r, z3.Store(S, cname(c), z3.BoolVal(True)))))
            tree_case = fn.t(push(ms, last), OMAT.some(MAT.wrap(visit_res(c, S))).term, r, visit_seen(c, S))
            star_case = fn.t(push(ms, last), OMAT.some(MAT.wrap(ANY0)).term, r, S)
            return z3.If(cap(c), cap_case, z3.If(is_tree(c), tree_case, star_case))
        return cons

    SQo.rule("sq_out-empty", 2, "empty")(lambda a, p: z3.IntVal(0))
    SQo.rule("sq_out-cons", 2, "cons")(sq(SQo, lambda k, ms, last, S: z3.IntVal(1 if k == "dup" else 2)))
    SQr.rule("sq_res-empty", 2, "empty")(lambda a, p: push(a[0], a[1]))
    SQr.rule("sq_res-cons", 2, "cons")(sq(SQr, lambda k, ms, last, S: ms))
    SQs.rule("sq_seen-empty", 2, "empty")(lambda a, p: a[3])
    SQs.rule("sq_seen-cons", 2, "cons")(sq(SQs, lambda k, ms, last, S: S))
    seq_wf = lib.fn("sequence_children_wf", [SPN], BOOL)       # every capture tree has its name token; every token is the '*' token
    seq_wf.rule("seq_wf-empty", 0, "empty")(lambda a, p: z3.BoolVal(True))
    seq_wf.rule("seq_wf-cons", 0, "cons")(lambda a, p: z3.And(z3.Implies(cap(p[0]), z3.Length(kids(p[0])) > 0), z3.Implies(z3.Not(is_tree(p[0])), text(p[0]) == z3.StringVal("*")), seq_wf.t(p[1])))
    sf.update({"sequence_outcome": SQo, "sequence_matchers": SQr, "sequence_seen": SQs, "sequence_children_wf": seq_wf,
               "no_matchers": lambda: SM.wrap(z3.Empty(SM.z3())), "no_last": lambda: VOpt(OMAT.none().term, OMAT),
               "mk_seq": lambda ms, n: MAT.wrap(mk_seq(SM.coerce(ms).term, OSTR.coerce(n).term)),
               "with_name": lambda m_, n: MAT.wrap(with_name(MAT.coerce(m_).term, STR.coerce(n).term)),
               "is_sequence_matcher": lambda m_: VBool(is_seqm(MAT.coerce(m_).term)), "seqm_matchers": lambda m_: SM.wrap(seq_ms(MAT.coerce(m_).term)),
               "seqm_tail": lambda m_: VOpt(seq_tail(MAT.coerce(m_).term), OMAT), "visit_result": lambda c, S: MAT.wrap(visit_res(c.term, S.term)),
               "visit_seen_after": lambda c, S: type(S)(visit_seen(c.term, S.term), S.sort)})

    sf["with_tail"] = lambda ms, t: SM.wrap(mk_snoc(SM.coerce(ms).term, OMAT.val(t.term)))

    def attr_s(m, obj, name):
        if isinstance(obj, VU) and obj.sort == MAT and name == "tail_matcher":
            return VOpt(seq_tail(obj.term), OMAT)
        if isinstance(obj, VU) and obj.sort == MAT and name == "matchers":
            return SM.wrap(seq_ms(obj.term))
        return None

    def call_s(m, func, a, kw, nd):
        if isinstance(func, VPy) and func.obj == ("builtin", "replace") and len(a) == 1 and set(kw) == {"name"}:
            return MAT.wrap(with_name(MAT.coerce(a[0]).term, STR.coerce(kw["name"]).term))
        if isinstance(func, VCls) and func.name == "SequenceMatcher":
            ms = kw["matchers"]
            msv = m.seq_value(ms) if not isinstance(ms, VSeq) else ms
            if msv is None and isinstance(ms, VTuple):
                msv = SM.coerce(ms)
            nm = OSTR.coerce(kw["name"]).term if "name" in kw else OSTR.none().term
            return MAT.wrap(mk_seq(SM.coerce(msv).term, nm))
        return NotImplemented

    def isinst_s(m, v, cls):
        if isinstance(v, VU) and v.sort == MAT and getattr(cls, "name", "") == "SequenceMatcher":
            return is_seqm(v.term)
        return None

    world.attr_hooks.insert(0, attr_s)
    world.call_hooks.insert(0, call_s)
    world.isinstance_hooks.insert(0, isinst_s)
    world.name_hooks.append(lambda m, n: VCls(n) if n in ("SequenceMatcher",) else None)
    START = "no_matchers(), no_last(), pn_children(tree), old(SEEN)"
    A(Contract(f"{PM_}:PatternDefInterpreter.sequence", params={"self": "Interpreter", "tree": "PNode"}, returns="Matcher", props=P, globals=G, modifies=["SEEN"],
               locals={"matchers": "List[Matcher]", "last_matcher": "Opt[Matcher]", "capture_name": "Opt[str]"},
               requires=["sequence_children_wf(pn_children(tree))"], may_raise=["Exception"],
               raises=[("ASTPatternDefinitionError", f"sequence_outcome({START}) == 1"), ("RuntimeError", f"sequence_outcome({START}) == 2")],
               ensures=[f"implies(len(sequence_matchers({START})) == 0, result == MK_VALUE_EMPTY_TUPLE)",
                        f"implies(len(sequence_matchers({START})) > 0, result == mk_seq(sequence_matchers({START}), None))",
                        f"SEEN == sequence_seen({START})"],
               loops={1: Loop(inv=[f"sequence_outcome(matchers, last_matcher, rest1, SEEN) == sequence_outcome({START})",
                                   f"sequence_matchers(matchers, last_matcher, rest1, SEEN) == sequence_matchers({START})",
                                   f"sequence_seen(matchers, last_matcher, rest1, SEEN) == sequence_seen({START})", "sequence_children_wf(rest1)"])},
               note="the elements in order: a value compiles through visit, '*' to the unnamed any-matcher, a capture names the element before it (the definition error when the name "
                    "was used before, RuntimeError when there is nothing to name); no element at all is the empty-tuple value matcher"))
    C1, C2 = "pn_children(tree)[1]", "pn_children(tree)[2]"
    NAMED = f"(with_name(visit_result({C1}, old(SEEN)), pn_text(pn_children({C2})[0])))"
    A(Contract(f"{PM_}:PatternDefInterpreter.field_spec", params={"self": "Interpreter", "tree": "PNode"}, returns="Matcher", props=P, globals=G, modifies=["SEEN"],
               locals={"name": "Opt[str]"},
               requires=["len(pn_children(tree)) >= 1", f"implies(len(pn_children(tree)) > 1 and is_capture({C1}), len(pn_children({C1})) > 0)",
                         f"implies(len(pn_children(tree)) > 1 and not is_capture({C1}), pn_is_tree({C1}))",
                         f"implies(len(pn_children(tree)) > 2 and is_capture({C2}), len(pn_children({C2})) > 0)"],
               may_raise=["Exception"],
               raises=[("ASTPatternDefinitionError", f"(len(pn_children(tree)) > 1 and is_capture({C1}) and in_set(SEEN, pn_text(pn_children({C1})[0])))"
                                                      f" or (len(pn_children(tree)) > 2 and not is_capture({C1}) and is_capture({C2}) and in_set(visit_seen_after({C1}, SEEN), pn_text(pn_children({C2})[0])))")],
               ensures=["implies(len(pn_children(tree)) == 1, result == mk_any(None) and SEEN == old(SEEN))",
                        f"implies(len(pn_children(tree)) > 1 and is_capture({C1}), result == mk_any(pn_text(pn_children({C1})[0])))",
                        f"implies(len(pn_children(tree)) == 2 and not is_capture({C1}), result == visit_result({C1}, old(SEEN)))",
                        f"implies(len(pn_children(tree)) > 2 and not is_capture({C1}) and not (is_sequence_matcher(visit_result({C1}, old(SEEN))) and seqm_tail(visit_result({C1}, old(SEEN))) is not None), "
                        f"result == {NAMED})",
                        f"implies(len(pn_children(tree)) > 2 and not is_capture({C1}) and is_sequence_matcher(visit_result({C1}, old(SEEN))) and seqm_tail(visit_result({C1}, old(SEEN))) is not None, "
                        f"result == mk_seq(with_tail(seqm_matchers(visit_result({C1}, old(SEEN))), seqm_tail(visit_result({C1}, old(SEEN)))), pn_text(pn_children({C2})[0])))"],
               note="a bare field: the unnamed any-matcher; a field with only a capture: the named any-matcher; otherwise the compiled value / sequence, named when a capture follows "
                    "(a sequence with a trailing '*' is rebuilt with the tail put back, so the copy keeps it)"))
    world.trusted_notes.append("the shape of lark's parse trees (first child of a tree production is a class_spec tree, the rest are field_spec trees, ...) is assumed at every depth: the recursive summary tree#callee does not re-require it for nested trees")
    return world, lib, reg, []
