"""C20 (last clause): calculate_xpath assigns every node of an attached root the path spelled by its chain of fields, indices and classes.

Heap view (as in contracts.legacy_heap): XP : Ref -> Opt[str] is the `_xpath` slot, written through object.__setattr__.  The functions here read
the position slots and the registry but do not write them, so parent / parent_field / parent_index / is_attached_root are functions of the node:
  lparent(n), lpf(n), lpi(n), attached_root(n);   lkids(n) = what get_child_nodes() yields.
  step(n)  =  "/@" + lpf(n).name + "[" + (str(lpi(n)) if lpi(n) else "0") + "]" + type(n).__name__        (opaque as xpath_step(n) in the large VCs; the
                                                                                                           f-string is checked against this text where it is formatted)
  in_sub(k, n)      k == n  or  in_sub_any(k, lkids(n))              the subtree of n (reflexive), as a relation on objects
Statements about *every* node of a subtree are opaque quantified predicates (pyvc.qpred), with skolem introduction and key elimination:
  spelled(X, s, n, px)   forall k. in_sub_any(k, s) ->  X[k] == (px if lparent(k) is n else X[lparent(k)]) + step(k)
  frame(X', X, s, n)     forall k. not in_sub_any(k, s) and k is not n ->  X'[k] == X[k]
  parents(s, n)          forall k. in_sub_any(k, s) ->  lparent(k) is n  or  in_sub_any(lparent(k), s)
Precondition forest_ok(n) -- the part of C18's invariant (and of the statement's hypothesis `one object at one position`) the argument uses:
every child reports n as parent and has its parent field recorded, n is not below its own child, the subtrees at different child positions
are disjoint, parents of inner nodes lie inside, recursively."""
from __future__ import annotations

import z3

from pyvc.contract import Contract, Loop, Registry
from pyvc.core import mk_cons, mk_snoc
from pyvc.maps import VMap, map_sort
from pyvc.qpred import QPred, instantiator
from pyvc.specfn import SpecLib
from pyvc.symex import World
from pyvc.values import BOOL, INT, NONE, STR, EngineError, VBool, VCls, VNone, VOpt, VPy, VStr, VU, opt_of, seq_of
from pyvc.verify import Lemma

from .node_common import NodeVocab

LM = "pyoak.legacy.node"


def build():
    reg = Registry()
    world = World(reg)
    lib = SpecLib()
    nv = NodeVocab(world, lib)
    REF, FLD = nv.REF, nv.FLD
    OREF, OFLD, OINT, OSTR = opt_of(REF), opt_of(FLD), opt_of(INT), opt_of(STR)
    SR = seq_of(REF)
    XM = map_sort(REF, STR)
    E = z3.Empty(SR.z3())
    world.usort_class["Ref"] = "AwareASTNode"
    world.class_parents["AwareASTNode"] = []
    world.class_module["AwareASTNode"] = LM
    lparent = z3.Function("lparent", REF.z3(), OREF.z3())
    lpf = z3.Function("lparent_field", REF.z3(), OFLD.z3())
    lpi = z3.Function("lparent_index", REF.z3(), OINT.z3())
    att_root = z3.Function("attached_root", REF.z3(), z3.BoolSort())
    lkids = lib.fn("lkids", [REF], SR)
    par = lambda k: OREF.val(lparent(k))

    def int_str(t):
        return z3.If(t >= 0, z3.IntToStr(t), z3.Concat(z3.StringVal("-"), z3.IntToStr(-t)))

    def step(n):
        i = lpi(n)
        istr = z3.If(z3.Or(OINT.is_none(i), OINT.val(i) == 0), z3.StringVal("0"), int_str(OINT.val(i)))
        return z3.Concat(z3.StringVal("/@"), nv.fname(OFLD.val(lpf(n))), z3.StringVal("["), istr, z3.StringVal("]"), nv.cls_name(nv.cls_of(n)))

    # In the large VCs the step text is the opaque function xpath_step(n); that the code formats exactly step(n) is a separate, small obligation
    # at the f-string (xpath-format), so integer-to-string reasoning stays out of the quantifier instances.
    step_u = z3.Function("xpath_step", REF.z3(), z3.StringSort())

    def fstring(m, e):
        if m.contract.qualname != "_set_xpath" or m.spec:
            return None
        full = m.ex_JoinedStr(e)
        px, node = m.env.get("parent_xpath"), m.env.get("node")
        if not (isinstance(px, VStr) and isinstance(node, VU) and node.sort == REF):
            return None
        m.ctx.check(full.term == z3.Concat(px.term, step(node.term)), f"{m.contract.key}/xpath-format", "model")
        return VStr(z3.Concat(px.term, step_u(node.term)))

    world.fstring_hooks = [fstring]
    in_sub = lib.fn("in_subtree", [REF, REF], BOOL)
    in_any = lib.fn("in_subtree_of_any", [REF, SR], BOOL)
    in_sub.rule("in_subtree-def", 1, "always")(lambda a, p: z3.Or(a[0] == a[1], in_any.t(a[0], lkids.t(a[1]))))
    in_any.rule("in_any-empty", 1, "empty")(lambda a, p: z3.BoolVal(False))
    in_any.rule("in_any-snoc", 1, "snoc")(lambda a, p: z3.Or(in_any.t(a[0], p[0]), in_sub.t(a[0], p[1])))
    xget = lambda X, k: z3.Select(X, k)
    some_s = lambda t: OSTR.some(VStr(t)).term
    sval = lambda o: OSTR.val(o)
    spelled = QPred("xpath_spelled_below", [XM.z3(), SR.z3(), REF.z3(), z3.StringSort()], REF.z3(),
                    lambda a, k: z3.Implies(in_any.t(k, a[1]),
                                            xget(a[0], k) == some_s(z3.Concat(z3.If(par(k) == a[2], a[3], sval(xget(a[0], par(k)))), step_u(k)))))
    frame = QPred("xpath_unchanged_outside", [XM.z3(), XM.z3(), SR.z3(), REF.z3()], REF.z3(),
                  lambda a, k: z3.Implies(z3.And(z3.Not(in_any.t(k, a[2])), k != a[3]), xget(a[0], k) == xget(a[1], k)))
    parents = QPred("parents_inside", [SR.z3(), REF.z3()], REF.z3(),
                    lambda a, k: z3.Implies(in_any.t(k, a[0]), z3.And(z3.Not(OREF.is_none(lparent(k))), z3.Or(par(k) == a[1], in_any.t(par(k), a[0])))))
    disjoint = QPred("subtree_disjoint_from", [SR.z3(), REF.z3()], REF.z3(), lambda a, k: z3.Implies(in_sub.t(k, a[1]), z3.Not(in_any.t(k, a[0]))))
    inner = QPred("inner_parents_inside", [REF.z3()], REF.z3(),
                  lambda a, k: z3.Implies(z3.And(in_sub.t(k, a[0]), k != a[0]), z3.And(z3.Not(OREF.is_none(lparent(k))), in_sub.t(par(k), a[0]))))
    lib.extra_instantiators.append(instantiator([spelled, frame, parents, disjoint, inner]))
    forest_ok = lib.fn("forest_ok", [REF], BOOL)
    kids_ok = lib.fn("kids_ok", [REF, SR], BOOL)
    forest_ok.rule("forest_ok-def", 0, "always")(lambda a, p: z3.And(inner.t(a[0]), kids_ok.t(a[0], lkids.t(a[0]))))
    kids_ok.rule("kids_ok-empty", 1, "empty")(lambda a, p: z3.BoolVal(True))
    kids_ok.rule("kids_ok-snoc", 1, "snoc")(lambda a, p: z3.And(kids_ok.t(a[0], p[0]), lparent(p[1]) == OREF.some(REF.wrap(a[0])).term, z3.Not(OFLD.is_none(lpf(p[1]))),
                                                                z3.Not(in_sub.t(a[0], p[1])), forest_ok.t(p[1]), disjoint.t(p[0], p[1])))
    kids_ok.rule("kids_ok-prefix", 1, "concat", "lemma", raw=True)(lambda a, p: z3.Implies(kids_ok.t(a[0], z3.Concat(p[0], p[1])), kids_ok.t(a[0], p[0])))
    sf = world.spec_fns
    sf.update({"lkids": lkids, "forest_ok": forest_ok, "kids_ok": kids_ok, "in_subtree": in_sub, "in_subtree_of_any": in_any,
               "lparent": lambda n: VOpt(lparent(nv.ref(n)), OREF),
               "attached_root": lambda n: VBool(att_root(nv.ref(n))),
               "lpf": lambda n: VOpt(lpf(nv.ref(n)), OFLD), "lpi": lambda n: VOpt(lpi(nv.ref(n)), OINT),
               "step": lambda n: VStr(step_u(nv.ref(n))),
               "cname": lambda n: VStr(nv.cls_name(nv.cls_of(nv.ref(n)))),
               "mget": lambda mp, k: VOpt(z3.Select(mp.term, mp.sort.key.coerce(k).term), mp.sort.opt),
               "spelled": lambda X, s_, n, px: VBool(spelled.t(X.term, SR.coerce(s_).term, nv.ref(n), STR.coerce(px).term)),
               "frame": lambda X1, X0, s_, n: VBool(frame.t(X1.term, X0.term, SR.coerce(s_).term, nv.ref(n))),
               "parents": lambda s_, n: VBool(parents.t(SR.coerce(s_).term, nv.ref(n)))})
    G = {"XP": "Dict[Ref,str]"}

    def cell(m):
        return m.ctx.cell(m.global_syms["XP"].addr)

    def attr(m, obj, name):
        if isinstance(obj, VU) and obj.sort == REF and name == "_xpath" and not m.spec:
            c = cell(m)
            return VOpt(z3.Select(c.value.term, obj.term), c.value.sort.opt)
        return None

    def call(m, func, a, kw, nd):
        if isinstance(func, VPy) and func.obj == ("setattr",) and isinstance(a[0], VU) and a[0].sort == REF:
            nm = a[1].term.as_string() if isinstance(a[1], VStr) else a[1].obj
            if nm != "_xpath":
                raise EngineError(f"object.__setattr__ of {nm} on a legacy node is not modelled in this area")
            c = cell(m)
            ms = c.value.sort
            v = a[2]
            if isinstance(v, VNone):
                c.value = VMap(z3.Store(c.value.term, a[0].term, ms.opt.none().term), ms)
            elif isinstance(v, VOpt):
                c.value = VMap(z3.Store(c.value.term, a[0].term, ms.opt.coerce(v).term), ms)
            else:
                c.value = VMap(z3.Store(c.value.term, a[0].term, ms.opt.some(v).term), ms)
            return NONE
        if isinstance(func, VPy) and func.obj == ("builtin", "getattr") and len(a) == 3 and isinstance(a[0], VU) and a[0].sort == REF \
                and isinstance(a[1], VStr) and z3.is_string_value(a[1].term) and a[1].term.as_string() == "_xpath" and isinstance(a[2], VNone):
            c = cell(m)
            return VOpt(z3.Select(c.value.term, a[0].term), c.value.sort.opt)
        return NotImplemented

    world.attr_hooks.insert(0, attr)
    world.call_hooks.insert(0, call)
    world.name_hooks.append(lambda m, n: VCls(n) if n in ("AwareASTNode",) else None)
    world.exc_parents["RuntimeError"] = "Exception"
    A = reg.add
    P = ["C20"]
    UNCH = ["XP == old(XP)"]
    RO = "proved in contracts.legacy_heap / read-only here: a function of the node in this area (the functions below write only the xpath slot)"
    A(Contract(f"{LM}:AwareASTNode.get_child_nodes", params={"self": "Ref"}, returns="Seq[Ref]", props=P, trusted=True, globals=G,
               trusted_reason="proved in contracts.legacy_children: the flattening of the child fields in field order (lkids_def), for well-typed children", ensures=["result == lkids(self)"] + UNCH))
    A(Contract(f"{LM}:AwareASTNode.parent_field", params={"self": "Ref"}, returns="Opt[Fld]", props=P, trusted=True, globals=G, trusted_reason=RO,
               ensures=["result == lpf(self)"] + UNCH, note="property"))
    A(Contract(f"{LM}:AwareASTNode.parent_index", params={"self": "Ref"}, returns="Opt[int]", props=P, trusted=True, globals=G, trusted_reason=RO,
               ensures=["result == lpi(self)"] + UNCH, note="property"))
    A(Contract(f"{LM}:AwareASTNode.is_attached_root", params={"self": "Ref"}, returns="bool", props=P, trusted=True, globals=G, trusted_reason=RO,
               ensures=["result == attached_root(self)"] + UNCH, note="property"))
    A(Contract(f"{LM}:AwareASTNode.xpath", params={"self": "Ref"}, returns="Opt[str]", props=P, globals=G, ensures=["result == mget(XP, self)"] + UNCH,
               note="property -- the slot written by calculate_xpath, None before"))
    for variant in (None, "callee"):
        A(Contract(f"{LM}:_set_xpath", variant_of=variant, params={"node": "Ref", "parent_xpath": "str"}, props=P, globals=G, modifies=["XP"],
                   trusted=variant is not None, trusted_reason="proved below; at the recursive calls it is the induction hypothesis (on the height of the tree)" if variant else "",
                   requires=["forest_ok(node)", "lpf(node) is not None"],
                   ensures=["mget(XP, node) == parent_xpath + step(node)",
                            "spelled(XP, lkids(node), node, parent_xpath + step(node))",
                            "frame(XP, old(XP), lkids(node), node)"],
                   loops={1: Loop(inv=["mget(XP, node) == xpath", "xpath == parent_xpath + step(node)", "spelled(XP, done1, node, xpath)", "frame(XP, old(XP), done1, node)",
                                       "parents(done1, node)", "seq1 == lkids(node)"])} if variant is None else {},
                   note="the node's path is the parent's path followed by its own step; every node below it is spelled by its own parent's path and step; "
                        "no slot outside the subtree is written; does not raise when every node below has its parent field recorded (forest_ok)"))
    reg.contracts[f"{LM}:_set_xpath#callee"].fn = f"{LM}:_set_xpath"
    A(Contract(f"{LM}:AwareASTNode.calculate_xpath", params={"self": "Ref"}, returns="bool", props=P, globals=G, modifies=["XP"],
               requires=["forest_ok(self)"],
               locals={"xpath": "str"},
               ensures=["result == attached_root(self)", "implies(not result, XP == old(XP))",
                        "implies(result, mget(XP, self) == '/@root[0]' + cname(self))",
                        "implies(result, spelled(XP, lkids(self), self, '/@root[0]' + cname(self)))",
                        "implies(result, frame(XP, old(XP), lkids(self), self))"],
               loops={1: Loop(inv=["spelled(XP, done1, self, xpath)", "frame(XP, old(XP), done1, self)", "parents(done1, self)", "seq1 == lkids(self)",
                                   "mget(XP, self) == mget(old(XP), self)", "not in_subtree_of_any(self, done1)"])},
               note="refused (False, nothing written) unless the node is an attached root; otherwise the root's path is /@root[0]<Class>, every node below is spelled by its "
                    "parent's path followed by /@<field>[<index or 0>]<Class>, and no slot outside the tree is written"))
    world.trusted_notes.append("the subtree below the node is a consistent forest (forest_ok: children report the node as parent with a recorded field, no node below itself, "
                               "different child positions hold disjoint subtrees, parents of inner nodes lie inside) -- the invariant of C18 under the statement's hypothesis "
                               "that no object sits at two positions; parent / parent_field / parent_index / is_attached_root are read-only here")
    return world, lib, reg, lemmas(lib, nv, dict(kids_ok=kids_ok, SR=SR))


def lemmas(lib, nv, d):
    REF = nv.REF
    kids_ok, SR = d["kids_ok"], d["SR"]
    E = z3.Empty(SR.z3())
    n, y = z3.Const("n_l", REF.z3()), z3.Const("y_l", REF.z3())
    s_, r = z3.Const("s_l", SR.z3()), z3.Const("r_l", SR.z3())

    # kids_ok(n, s ++ q) -> kids_ok(n, s), by induction on q (snoc form)
    def base(bank):
        return [], z3.Implies(kids_ok.t(n, z3.Concat(s_, E)), kids_ok.t(n, s_))

    def step_(bank):
        hyp = z3.Implies(kids_ok.t(n, z3.Concat(s_, r)), kids_ok.t(n, s_))
        t = mk_snoc(z3.Concat(s_, r), y)
        return [hyp], z3.Implies(kids_ok.t(n, t), kids_ok.t(n, s_))

    return [Lemma("kids_ok-prefix", [("base", base), ("step", step_)], ["C20"])]
