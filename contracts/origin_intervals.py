"""C15 (part 1): CodePoint / CodeRange interval functions of pyoak.origin and the algebraic laws.

Sorts: CodePoint(index, line, column), CodeRange(start, end) as records (frozen dataclasses whose
identity is irrelevant).  Type invariants (constructor-established) go into `requires` as wf_*."""
from __future__ import annotations

import z3

from pyvc.contract import Contract, Registry
from pyvc.specfn import SpecLib
from pyvc.symex import World
from pyvc.values import INT, VBool, VRec, rec_sort
from pyvc.verify import Lemma

M = "pyoak.origin"


def build():
    reg = Registry()
    world = World(reg)
    lib = SpecLib()
    CP = rec_sort("CodePoint", [("index", INT), ("line", INT), ("column", INT)], pycls="CodePoint")
    CR = rec_sort("CodeRange", [("start", CP), ("end", CP)], pycls="CodeRange")
    world.rec_of_class.update({"CodePoint": CP, "CodeRange": CR})
    world.class_parents.update({"CodePoint": ["DataClassSerializeMixin"], "CodeRange": ["Position"], "Position": ["DataClassSerializeMixin", "FQN"],
                                "Other": []})
    world.class_module.update({"CodePoint": M, "CodeRange": M, "Position": M})
    from pyvc.values import usort
    OTHER = usort("OtherObj")  # any object that is neither a CodePoint nor a CodeRange
    world.isinstance_hooks.append(lambda m, v, cls: z3.BoolVal(cls.name == "object") if getattr(v, "sort", None) == OTHER else None)

    def wf_point(p):
        return VBool(z3.And(CP.get(p.term, "index").term >= 0, CP.get(p.term, "line").term >= 1, CP.get(p.term, "column").term >= 0))

    def wf_range(r):
        s, e = CR.get(r.term, "start"), CR.get(r.term, "end")
        return VBool(z3.And(wf_point(s).term, wf_point(e).term, CP.get(s.term, "index").term <= CP.get(e.term, "index").term))

    world.spec_fns.update({"wf_point": wf_point, "wf_range": wf_range})
    P = ["C15"]
    A = reg.add
    # ---- CodePoint ---------------------------------------------------------------------------
    A(Contract(f"{M}:CodePoint.__post_init__", params={"self": "CodePoint"}, props=P,
               raises=[("ValueError", "self.index < 0 or self.line < 1 or self.column < 0")],
               ensures=["wf_point(self)"]))
    for op, sym in (("__lt__", "<"), ("__le__", "<=")):
        A(Contract(f"{M}:CodePoint.{op}", params={"self": "CodePoint", "other": "CodePoint"}, returns="bool", props=P,
                   ensures=[f"result == (self.index {sym} other.index)"]))
        A(Contract(f"{M}:CodePoint.{op}", params={"self": "CodePoint", "other": "OtherObj"}, returns="bool", props=P,
                   variant_of="non-point", raises=[("NotImplementedError", "True")]))
    # ---- CodeRange ---------------------------------------------------------------------------
    A(Contract(f"{M}:CodeRange.__post_init__", params={"self": "CodeRange"}, props=P,
               requires=["wf_point(self.start)", "wf_point(self.end)"],
               raises=[("ValueError", "self.start.index > self.end.index")],
               ensures=["wf_range(self)"]))
    A(Contract(f"{M}:CodeRange.overlaps", params={"self": "CodeRange", "other": "CodeRange"}, returns="bool", props=P,
               requires=["wf_range(self)", "wf_range(other)"],
               ensures=["result == (self.end.index >= other.start.index and self.start.index <= other.end.index)"]))
    A(Contract(f"{M}:CodeRange.__contains__", params={"self": "CodeRange", "other": "CodeRange"}, returns="bool", props=P,
               requires=["wf_range(self)", "wf_range(other)"],
               ensures=["result == (self.start.index <= other.start.index and other.end.index <= self.end.index)"]))
    A(Contract(f"{M}:CodeRange.__lt__", params={"self": "CodeRange", "other": "CodeRange"}, returns="bool", props=P,
               requires=["wf_range(self)", "wf_range(other)"],
               ensures=["result == (self.end.index < other.start.index)"]))
    A(Contract(f"{M}:CodeRange.__le__", params={"self": "CodeRange", "other": "CodeRange"}, returns="bool", props=P,
               requires=["wf_range(self)", "wf_range(other)"],
               ensures=["result == (self.end.index <= other.start.index)"]))
    for meth in ("__contains__", "__lt__", "__le__", "__add__"):
        A(Contract(f"{M}:CodeRange.{meth}", params={"self": "CodeRange", "other": "OtherObj"}, props=P,
                   variant_of="non-range", raises=[("NotImplementedError", "True")]))
    A(Contract(f"{M}:CodeRange.__add__", params={"self": "CodeRange", "other": "CodeRange"}, returns="CodeRange", props=P,
               requires=["wf_range(self)", "wf_range(other)"],
               ensures=["wf_range(result)",
                        "result.start.index == (self.start.index if self.start.index <= other.start.index else other.start.index)",
                        "result.end.index == (self.end.index if self.end.index >= other.end.index else other.end.index)",
                        # the hull's end points are end points of the operands (line/column travel with the index)
                        "result.start == self.start or result.start == other.start",
                        "result.end == self.end or result.end == other.end"]))
    A(Contract(f"{M}:CodeRange.fqn", params={"self": "CodeRange"}, returns="str", props=P, note="property",
               requires=["wf_range(self)"],
               ensures=["result == str(self.start.index) + '-' + str(self.end.index)"]))
    A(Contract(f"{M}:get_code_range", params={k: "int" for k in ("start_index", "start_line", "start_column", "end_index", "end_line", "end_column")},
               returns="CodeRange", props=P,
               raises=[("ValueError", "start_index < 0 or start_line < 1 or start_column < 0 or end_index < 0 or end_line < 1 or end_column < 0 or start_index > end_index")],
               ensures=["wf_range(result)", "result.start.index == start_index", "result.end.index == end_index",
                        "result.start.line == start_line", "result.start.column == start_column",
                        "result.end.line == end_line", "result.end.column == end_column"]))
    return world, lib, reg, laws(CP, CR)


def laws(CP, CR):
    """The algebraic laws of the statement, as lemmas over the *postconditions* above (index view).
    Each function symbol below is characterised by its contract only."""
    def rng(name):
        r = CR.fresh(name)
        s, e = CR.get(r.term, "start"), CR.get(r.term, "end")
        si, ei = CP.get(s.term, "index").term, CP.get(e.term, "index").term
        wf = z3.And(si >= 0, ei >= 0, si <= ei)
        return r, si, ei, wf

    contains = lambda a, b: z3.And(a[1] <= b[1], b[2] <= a[2])  # b in a
    overlaps = lambda a, b: z3.And(a[2] >= b[1], a[1] <= b[2])
    lt = lambda a, b: a[2] < b[1]

    def hull(a, b):
        lo = z3.If(a[1] <= b[1], a[1], b[1])
        hi = z3.If(a[2] >= b[2], a[2], b[2])
        return (None, lo, hi, None)

    def case(f):
        def build(bank):
            a, b, c = rng("a"), rng("b"), rng("c")
            hyps, goal = f(a, b, c)
            return [a[3], b[3], c[3]] + hyps, goal
        return build

    L = []
    L.append(Lemma("contains-reflexive", [("all", case(lambda a, b, c: ([], contains(a, a))))], ["C15"]))
    L.append(Lemma("contains-transitive", [("all", case(lambda a, b, c: ([contains(a, b), contains(b, c)], contains(a, c))))], ["C15"]))
    L.append(Lemma("contains-antisymmetric", [("all", case(lambda a, b, c: ([contains(a, b), contains(b, a)], z3.And(a[1] == b[1], a[2] == b[2]))))], ["C15"]))
    L.append(Lemma("overlaps-symmetric", [("all", case(lambda a, b, c: ([], overlaps(a, b) == overlaps(b, a))))], ["C15"]))
    L.append(Lemma("overlaps-includes-touching", [("all", case(lambda a, b, c: ([a[2] == b[1]], overlaps(a, b))))], ["C15"]))
    L.append(Lemma("lt-means-ends-before-starts", [("all", case(lambda a, b, c: ([lt(a, b)], z3.And(z3.Not(lt(b, a)), a[1] <= b[2]))))], ["C15"]))
    L.append(Lemma("lt-excludes-strict-overlap", [("all", case(lambda a, b, c: ([lt(a, b)], z3.Not(overlaps(a, b)))))], ["C15"]))
    L.append(Lemma("hull-contains-operands", [("all", case(lambda a, b, c: ([], z3.And(contains(hull(a, b), a), contains(hull(a, b), b)))))], ["C15"]))
    L.append(Lemma("hull-idempotent", [("all", case(lambda a, b, c: ([], z3.And(hull(a, a)[1] == a[1], hull(a, a)[2] == a[2]))))], ["C15"]))
    L.append(Lemma("hull-commutative", [("all", case(lambda a, b, c: ([], z3.And(hull(a, b)[1] == hull(b, a)[1], hull(a, b)[2] == hull(b, a)[2]))))], ["C15"]))
    L.append(Lemma("hull-associative", [("all", case(lambda a, b, c: ([], z3.And(hull(hull(a, b), c)[1] == hull(a, hull(b, c))[1], hull(hull(a, b), c)[2] == hull(a, hull(b, c))[2]))))], ["C15"]))
    L.append(Lemma("hull-least", [("all", case(lambda a, b, c: ([contains(c, a), contains(c, b)], contains(c, hull(a, b)))))], ["C15"]))
    return L
