"""C12 layer 1 and installation:

* every path of the four `_build_body` template functions of codegen.py, for *all* classes: the field
  name stays symbolic, the emitted fragment is recovered from the symbolic string (literals + the
  opaque name), wrapped into an accessor and verified with the same machinery as layer 2 against the
  spec of that single field (symbolic field value / flags, truthy(child) unconstrained);
* ASTNode.__init_subclass__ re-installs the four bootstrap functions on every subclass;
* _gen_func installs the function it created from the text of *this* call;
* the four gen_and_yield_* bootstraps generate for self.__class__ and delegate with unchanged arguments;
* the static get_property_fields applies the same filter as the generated get_properties."""
from __future__ import annotations

import ast
import textwrap
from typing import Any

import z3

from pyvc.contract import Contract, Loop, Registry
from pyvc.core import mk_snoc
from pyvc.specfn import SpecLib
from pyvc.symex import World
from pyvc.values import BOOL, STR, NONE, EngineError, V, VBool, VBound, VCls, VPy, VStr, VU, seq_of, usort

from .node_common import NodeVocab

CG = "pyoak.codegen"
PH = "FLDNAME"


def _flatten(t: Any) -> list[Any]:
    if z3.is_app(t) and t.decl().kind() == z3.Z3_OP_SEQ_CONCAT:
        out: list[Any] = []
        for c in t.children():
            out.extend(_flatten(c))
        return out
    return [t]


def fragment_text(body_term: Any, body0: Any, name_term: Any) -> str:
    parts = _flatten(z3.simplify(body_term))
    if not parts or parts[0].get_id() != body0.get_id():
        raise EngineError("the emitted text does not extend the incoming body")
    out = ""
    for p in parts[1:]:
        if z3.is_string_value(p):
            out += p.as_string()
        elif p.get_id() == name_term.get_id():
            out += PH
        else:
            raise EngineError(f"unexpected part in emitted text: {p}")
    return out


def build():
    reg = Registry()
    world = World(reg)
    lib = SpecLib()
    nv = NodeVocab(world, lib)
    FLD, CLS, REF = nv.FLD, nv.CLS, nv.REF
    fcompare = z3.Function("fcompare", FLD.z3(), z3.BoolSort())
    finit = z3.Function("finit", FLD.z3(), z3.BoolSort())
    TI = usort("TypeInfo")
    is_coll = z3.Function("ti_is_collection", TI.z3(), z3.BoolSort())

    def attr(m, obj, name):
        if isinstance(obj, VU) and obj.sort == FLD:
            if name == "compare":
                return VBool(fcompare(obj.term))
            if name == "init":
                return VBool(finit(obj.term))
        if isinstance(obj, VU) and obj.sort == TI and name == "is_collection":
            return VBool(is_coll(obj.term))
        return None

    world.attr_hooks.insert(0, attr)
    world.consts["_IND"] = VStr("    ")
    A = reg.add
    P = ["C12"]

    # ---- layer 1: the four template functions ------------------------------------------------------
    def make_hook(acc: str):
        def hook(m):
            from rt.classgen import FSpec, GenClass
            from .codegen_generated import verify_class
            f = m.env["f"]
            name_t = nv.fname(f.term)
            body0 = m.old_env["body"].term
            text = fragment_text(m.env["body"].term, body0, name_t)
            frag = textwrap.dedent(text)
            solver = m.ctx.solver
            atoms = {"id": name_t == z3.StringVal("id"), "content_id": name_t == z3.StringVal("content_id"),
                     "origin": name_t == z3.StringVal("origin")}
            goals = []
            if acc == "get_properties":
                space = [(nc, c, i) for nc in ("id", "content_id", "origin", "other") for c in (True, False) for i in (True, False)]
            elif acc == "iter_child_fields":
                space = [("x", True, True)]
            else:
                space = [("coll", True, True), ("single", True, True)]
            for val in space:
                solver.push()
                try:
                    if acc == "get_properties":
                        nc, c, i = val
                        for k, a in atoms.items():
                            solver.add(a if k == nc else z3.Not(a))
                        solver.add(fcompare(f.term) == c, finit(f.term) == i)
                    elif acc != "iter_child_fields":
                        solver.add(is_coll(m.env["type_info"].term) == (val[0] == "coll"))
                    feasible = solver.check() != z3.unsat
                finally:
                    solver.pop()
                if not feasible:
                    continue
                # wrap the fragment into a complete accessor and verify it against the spec of this one field
                params = "self, sort_keys=False" if acc != "get_properties" else \
                    "self, skip_id=True, skip_origin=True, skip_content_id=True, skip_non_compare=False, skip_non_init=False, *, sort_keys=False"
                fname = PH if (acc != "get_properties" or val[0] == "other") else val[0]
                src = f"def __create_fn__(_fld_{PH}):\n    def {acc}({params}):\n" + textwrap.indent(frag.replace(PH, PH), " " * 8) + f"\n    return {acc}\n"
                src = src.replace(f"self.{PH}", f"self.{fname}") if fname != PH else src
                if acc == "get_properties":
                    gc = GenClass(None, f"tmpl_{acc}", [FSpec(fname, "i", init=val[2], compare=val[1])] if val[0] == "other" else [], src, [], -1)
                    base = [] if val[0] == "other" else [(fname, val[2], val[1])]
                else:
                    kind = "T" if val[0] == "coll" else "O"
                    kinds = [kind] if acc != "iter_child_fields" else ["T", "O"]
                    gc = None
                    base = []
                ok, why = True, ""
                try:
                    for kind in (kinds if acc != "get_properties" else [None]):
                        if acc != "get_properties":
                            gc = GenClass(None, f"tmpl_{acc}", [FSpec(PH, kind)], src, [], -1)
                        res = verify_class(gc, {acc: (src, {f"_fld_{PH}": fname}, True)}, 20000, accessors=[acc], base_props=base)
                        for r in res:
                            if r["status"] != "ok" or any(o["status"] != "discharged" for o in r["obligations"]):
                                ok = False
                                why = r["error"] or next((o["name"] + ": " + o["model"][:200] for o in r["obligations"] if o["status"] != "discharged"), "")
                except SyntaxError as e:
                    ok, why = False, f"emitted fragment does not parse: {e}"
                m.ctx.notes.append(f"{acc}{val}: {'ok' if ok else 'MISMATCH ' + why} :: {frag!r}")
                label = "/".join(str(x) for x in val)
                goals.append((f"template[{label}]", z3.BoolVal(ok)))
                if not ok:
                    m.template_mismatch = f"{acc} {val}: emitted {frag!r}: {why}"
            return goals
        return hook

    gens = {"get_child_nodes": "_gen_get_child_nodes_func", "get_child_nodes_with_field": "_gen_get_child_nodes_with_field_func",
            "iter_child_fields": "_gen_iter_child_fields_func", "get_properties": "_gen_get_properties_func"}
    for acc, g in gens.items():
        params = {"f": "Fld"}
        if acc in ("get_child_nodes", "get_child_nodes_with_field"):
            params["type_info"] = "TypeInfo"
        A(Contract(f"{CG}:{g}._build_body", params=params, ghost={"body": "str"}, props=P, post_hook=make_hook(acc),
                   note="nested template function; `nonlocal body` is modelled as a ghost parameter"))

    # ---- installation --------------------------------------------------------------------------------
    INST = z3.Function("installed", CLS.z3(), z3.StringSort(), z3.IntSort())  # what is stored in cls.__dict__[name]
    FUNCS = {n: i + 1 for i, n in enumerate(["gen_and_yield_iter_child_fields", "gen_and_yield_get_properties", "gen_and_yield_get_child_nodes",
                                             "gen_and_yield_get_child_nodes_with_field", "_hash_fn", "_eq_fn"])}
    state = {}

    def name_hook(m, n):
        if n in FUNCS:
            return VPy(("funcobj", n))
        return None

    world.name_hooks.append(name_hook)

    def call(m, func, args, kwargs, node):
        if isinstance(func, VPy) and func.obj == ("setattr",) and isinstance(args[0], VU) and args[0].sort == CLS:
            name = args[1].obj if isinstance(args[1], VPy) else None
            val = args[2]
            store = m.ghost_env.setdefault("_installed", VPy({}))
            store.obj[name] = val
            return NONE
        if isinstance(func, VPy) and isinstance(func.obj, tuple) and func.obj[0] == "builtin" and func.obj[1] == "super":
            return VPy(("super",))
        if isinstance(func, VPy) and func.obj == ("superinit",):
            return NONE
        return NotImplemented

    world.call_hooks.append(call)
    world.attr_hooks.insert(0, lambda m, o, n: VPy(("superinit",)) if isinstance(o, VPy) and o.obj == ("super",) and n == "__init_subclass__" else None)
    A(Contract("pyoak.typing:check_annotations", params={"type_": "Cls", "node_base_type": "Cls"}, returns="bool", trusted=True, props=P,
               raises=[("InvalidFieldAnnotations", "*")], trusted_reason="definition-time annotation check, proved under C11 (contracts.classify_area); here only: may reject the class"))
    world.exc_parents["InvalidFieldAnnotations"] = "Exception"

    def init_subclass_hook(m):
        store = m.ghost_env.get("_installed", VPy({})).obj
        goals = []
        for acc, boot in (("iter_child_fields", "gen_and_yield_iter_child_fields"), ("get_properties", "gen_and_yield_get_properties"),
                          ("get_child_nodes", "gen_and_yield_get_child_nodes"), ("get_child_nodes_with_field", "gen_and_yield_get_child_nodes_with_field"),
                          ("__hash__", "_hash_fn"), ("__eq__", "_eq_fn")):
            v = store.get(acc)
            goals.append((f"installed[{acc}]", z3.BoolVal(isinstance(v, VPy) and v.obj == ("funcobj", boot))))
        return goals

    A(Contract("pyoak.node:ASTNode.__init_subclass__", params={"cls": "Cls"}, props=["C12", "C02"], post_hook=init_subclass_hook,
               globals={"config.TRACE_LOGGING": "bool"}, may_raise=["InvalidFieldAnnotations"],
               note="on every path that returns, all four accessors are reset to the bootstrap and __hash__/__eq__ are the shared functions"))

    # ---- static get_property_fields -------------------------------------------------------------------
    SF = seq_of(FLD)
    pf = lib.fn("pf", [BOOL, BOOL, BOOL, BOOL, BOOL, SF], SF)

    def keep(a, f):
        nm = nv.fname(f)
        special = z3.Or(nm == "id", nm == "content_id", nm == "origin")
        return z3.If(nm == z3.StringVal("id"), z3.Not(a[0]),
                     z3.If(nm == z3.StringVal("content_id"), z3.Not(a[2]),
                           z3.If(nm == z3.StringVal("origin"), z3.Not(a[1]),
                                 z3.And(z3.Not(z3.And(z3.Not(fcompare(f)), a[3])), z3.Not(z3.And(z3.Not(finit(f)), a[4]))))))

    pf.rule("pf-empty", 5, "empty")(lambda a, p: z3.Empty(SF.z3()))
    pf.rule("pf-snoc", 5, "snoc")(lambda a, p: z3.Concat(pf.t(*a[:5], p[0]), z3.If(keep(a, p[1]), z3.Unit(p[1]), z3.Empty(SF.z3()))))
    world.spec_fns["pf"] = pf
    cls_props = lib.fn("cls_props", [CLS], SF)
    world.spec_fns["cls_props"] = cls_props
    A(Contract("pyoak.types:get_cls_props", params={"cls": "Cls"}, returns="Seq[Fld]", trusted=True, props=P,
               trusted_reason="classification of fields (C11); iteration order of the mapping = dataclass field order",
               ensures=["result == cls_props(cls)"]))
    flags = ["skip_id", "skip_origin", "skip_content_id", "skip_non_compare", "skip_non_init"]
    A(Contract("pyoak.node:ASTNode.get_property_fields", params={"cls": "Cls", **{f: "bool" for f in flags}}, returns="Seq[Fld]", props=P,
               ensures=[f"result == pf({', '.join(flags)}, cls_props(cls))"],
               loops={1: Loop(inv=[f"out == pf({', '.join(flags)}, done1)"])},
               note="keep(f): id / content_id / origin by their own flag only; other fields unless (non-comparable and skip_non_compare) or (non-init and skip_non_init) -- taken from the statement"))
    # ---- the four bootstraps: generate for self.__class__ from its own field mapping, then delegate unchanged ----------
    PP = usort("AnyPos")
    SP = seq_of(PP)
    cls_child = lib.fn("cls_child_fields", [CLS], SF)
    world.spec_fns["cls_child_fields"] = cls_child
    A(Contract("pyoak.types:get_cls_child_fields", params={"cls": "Cls"}, returns="Seq[Fld]", trusted=True, props=P,
               trusted_reason="classification of fields (C11)", ensures=["result == cls_child_fields(cls)"]))
    fl5 = {f: "bool" for f in flags}
    delegates = {
        "iter_child_fields": ({"sort_keys": "bool"}, "_gen_iter_child_fields_func", "child_fields", "cls_child_fields"),
        "get_child_nodes": ({"sort_keys": "bool"}, "_gen_get_child_nodes_func", "child_fields", "cls_child_fields"),
        "get_child_nodes_with_field": ({"sort_keys": "bool"}, "_gen_get_child_nodes_with_field_func", "child_fields", "cls_child_fields"),
        "get_properties": ({**fl5, "sort_keys": "bool"}, "_gen_get_properties_func", "props", "cls_props"),
    }
    for acc, (ps, genfn, mapparam, mapspec) in delegates.items():
        R = lib.fn(f"R_{acc}", [REF] + [BOOL] * len(ps), SP)
        world.spec_fns[f"R_{acc}"] = R
        argl = ", ".join(ps)
        A(Contract(f"pyoak.node:ASTNode.{acc}", params={"self": "Ref", **ps}, returns="Seq[AnyPos]", trusted=True, props=P,
                   trusted_reason="the specialised accessor installed by the generator (verified as text under layer 2)",
                   ensures=[f"result == R_{acc}(self, {argl})"]))
        A(Contract(f"{CG}:{genfn}", params={"clz": "Cls", mapparam: "Seq[Fld]"}, trusted=True, props=P,
                   trusted_reason="its template paths are verified under layer 1 and its output text per class under layer 2"))
        def sig_hook(m, acc=acc):
            # the bootstrap serves the first call per class: it must offer exactly the declared signature (defaults included), or a call that omits a flag
            # means something else before and after specialisation
            from .codegen_generated import _sig
            from pyvc import extract as _ex
            _, declared = _ex.get_function(f"pyoak.node:ASTNode.{acc}")
            return [("signature-is-the-declared-one", z3.BoolVal(_sig(m.fn) == _sig(declared)))]

        A(Contract(f"{CG}:gen_and_yield_{acc}", params={"self": "Ref", **ps}, returns="Seq[AnyPos]", props=P, post_hook=sig_hook,
                   ensures=[f"result == R_{acc}(self, {argl})"],
                   call_requires={f"{CG}:{genfn}": ["arg_clz == cls_of(self)", f"arg_{mapparam} == {mapspec}(cls_of(self))"]},
                   note="bootstrap: generates the accessor for the node's own class, then yields from it with the same flags"))
    # ---- the small static / derived accessors of the statement ---------------------------------------------------------
    A(Contract("pyoak.node:ASTNode.children", params={"self": "Ref"}, returns="Seq[AnyPos]", props=P,
               ensures=["result == R_get_child_nodes(self, False)"], note="property -- a list of exactly what get_child_nodes() yields, in declaration order"))
    A(Contract("pyoak.node:ASTNode.get_child_fields", params={"cls": "Cls"}, returns="Seq[Fld]", props=P,
               ensures=["result == cls_child_fields(cls)"], note="the class's child-field table (C11), as is"))
    return world, lib, reg, []
