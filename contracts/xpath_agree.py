"""C07 (the agreement clause): the top-down search and the bottom-up matcher select the same positions.

contracts.xpath_area proves   findall(root) == nodes_of(TD(elements, dummy(root)))      (TD: fold of stages over work lists with add-if-absent)
and                           match(tree, n) == MX(tree, n, reversed elements)          (MX: the step predicate along the parent chain).
This module proves, as lemmas over those spec functions (no code is read here), that for every non-empty element list E and every position x
        x in TD(E, d)   <=>   x is the recorded position of a node of the tree  and  MXs(T, x.node, E)
where MXs is MX read over the un-reversed list (lemma MXs-is-MX-of-reversed), under the hypothesis tree_consistent(T, r, d): the downward
enumerations (kids / desc of a node, of the dummy root) list exactly the recorded positions whose parent / some ancestor is that node.  That
hypothesis is what C06 proves about Tree.__init__ (tables built from the dfs stream) in its own vocabulary; it is assumed here and named in the
trusted notes.

Membership in the work lists is turned into recursive predicates first:
  in_pos(S, x)                 x occurs in the position list S
  cand2(x, cs, par, d)         x is the (root-adjusted) position of some child entry of cs below par
  cand1(x, is, d)              x is the (root-adjusted) position of some descendant entry of is
  in_stage(x, W, el, d)        some w of W has x among its children (or, for an `anywhere` step, descendants) and x satisfies el"""
from __future__ import annotations

import z3

from pyvc.core import mk_cons, mk_snoc
from pyvc.contract import Registry
from pyvc.values import BOOL
from pyvc.verify import Lemma

from . import xpath_area


def build():
    world, lib, reg0, _ = xpath_area.build()
    V = world.vocab
    A1, A2, ST, TD, desc, g, rootx, to_x, adj, ok, child_x = (V[k] for k in ("A1", "A2", "ST", "TD", "desc", "g", "rootx", "to_x", "adj", "ok", "child_x"))
    SX, SI, SC, SE, SR, NI, EL, INFO, CPOS = (V[k] for k in ("SX", "SI", "SC", "SE", "SR", "NI", "EL", "INFO", "CPOS"))
    nv_kids = lib.fns["kids"]
    REF = SR.elem
    P = ["C07"]
    EX, EI, EC = z3.Empty(SX.z3()), z3.Empty(SI.z3()), z3.Empty(SC.z3())
    in_pos = lib.fn("in_positions", [SX, NI], BOOL)
    in_pos.rule("in_positions-def", 0, "always")(lambda a, p: z3.Contains(a[0], z3.Unit(a[1])))
    cand2 = lib.fn("is_child_candidate", [NI, SC, REF, REF], BOOL)
    cand2.rule("cand2-empty", 1, "empty")(lambda a, p: z3.BoolVal(False))
    cand2.rule("cand2-snoc", 1, "snoc")(lambda a, p: z3.Or(cand2.t(a[0], p[0], a[2], a[3]), a[0] == child_x(p[1], a[2], a[3])))
    cand1 = lib.fn("is_descendant_candidate", [NI, SI, REF], BOOL)
    cand1.rule("cand1-empty", 1, "empty")(lambda a, p: z3.BoolVal(False))
    cand1.rule("cand1-snoc", 1, "snoc")(lambda a, p: z3.Or(cand1.t(a[0], p[0], a[2]), a[0] == adj(to_x(p[1]), a[2])))
    anyw = lambda el: g(EL, el, "anywhere")
    node = lambda x: g(NI, x, "node")
    in_stage = lib.fn("in_stage", [NI, SX, EL, REF], BOOL)
    in_stage.rule("in_stage-empty", 1, "empty")(lambda a, p: z3.BoolVal(False))
    in_stage.rule("in_stage-snoc", 1, "snoc")(lambda a, p: z3.Or(in_stage.t(a[0], p[0], a[2], a[3]),
                                                               z3.And(ok(a[0], a[2]), z3.If(anyw(a[2]), cand1.t(a[0], desc.t(node(p[1])), a[3]),
                                                                                            cand2.t(a[0], nv_kids.t(node(p[1])), node(p[1]), a[3])))))
    # lemma rules: membership in what the stage functions build
    in_pos.rule("A2-membership", 0, "app:add_matching_children", "lemma")(
        lambda a, p: z3.Or(in_pos.t(p[0], a[1]), z3.And(cand2.t(a[1], p[1], p[2], p[4]), ok(a[1], p[3]))))
    in_pos.rule("A1-membership", 0, "app:add_matching_descendants", "lemma")(
        lambda a, p: z3.Or(in_pos.t(p[0], a[1]), z3.And(cand1.t(a[1], p[1], p[3]), ok(a[1], p[2]))))
    in_pos.rule("stage-membership", 0, "app:xpath_stage", "lemma")(lambda a, p: in_stage.t(a[1], p[0], p[1], p[2]))
    x = z3.Const("x_ag", NI.z3())
    S, W = z3.Const("S_ag", SX.z3()), z3.Const("W_ag", SX.z3())
    w = z3.Const("w_ag", NI.z3())
    cs, c = z3.Const("cs_ag", SC.z3()), z3.Const("c_ag", CPOS.z3())
    is_, i_ = z3.Const("is_ag", SI.z3()), z3.Const("i_ag", INFO.z3())
    par, d = z3.Const("par_ag", REF.z3()), z3.Const("d_ag", REF.z3())
    el = z3.Const("el_ag", EL.z3())
    L = []
    a2 = lambda s_: in_pos.t(A2.t(S, s_, par, el, d), x) == z3.Or(in_pos.t(S, x), z3.And(cand2.t(x, s_, par, d), ok(x, el)))
    L.append(Lemma("A2-membership", [("base", lambda bank: ([], a2(EC))), ("step", lambda bank: ([a2(cs)], a2(mk_snoc(cs, c))))], P,
                   note="x is in add_matching_children(S, cs, ..) iff it was in S or is the position of a child entry of cs that satisfies the step (add-if-absent keeps both)"))
    a1 = lambda s_: in_pos.t(A1.t(S, s_, el, d), x) == z3.Or(in_pos.t(S, x), z3.And(cand1.t(x, s_, d), ok(x, el)))
    L.append(Lemma("A1-membership", [("base", lambda bank: ([], a1(EI))), ("step", lambda bank: ([a1(is_)], a1(mk_snoc(is_, i_))))], P))
    st = lambda W_: in_pos.t(ST.t(W_, el, d), x) == in_stage.t(x, W_, el, d)
    L.append(Lemma("stage-membership", [("base", lambda bank: ([], st(EX))), ("step", lambda bank: ([st(W)], st(mk_snoc(W, w))))], P,
                   uses=["A2-membership", "A1-membership"]))
    # ---- the tree: recorded positions, and what the downward enumerations list (hypothesis tree_consistent) ------------------------------------
    MX, any_anc, TREE, tparent, tfield, tindex, tchain, intree = (V[k] for k in ("MX", "any_anc", "TREE", "tparent", "tfield", "tindex", "tchain", "intree"))
    OREF, mkx = V["OREF"], V["mkx"]
    T, r = z3.Const("T_ag", TREE.z3()), z3.Const("r_ag", REF.z3())
    pos = lambda n: mkx(n, tparent(T, n), tfield(T, n), tindex(T, n))
    canon = lambda y: z3.And(intree(T, node(y)), y == pos(node(y)))
    y, n_, a_ = z3.Const("y_ag", NI.z3()), z3.Const("n_q", REF.z3()), z3.Const("a_q", REF.z3())
    wq = z3.Const("w_q", NI.z3())
    some = lambda t: OREF.some(REF.wrap(t)).term
    in_chain = lambda t, anc: z3.Contains(tchain(T, t), z3.Unit(anc))

    def tree_consistent():
        """what the stage functions see below a position of the tree / below the dummy root, in terms of the tree's own tables"""
        return [
            # children of a tree node: exactly the recorded positions whose parent is that node
            z3.ForAll([wq, y], z3.Implies(canon(wq), cand2.t(y, nv_kids.t(node(wq)), node(wq), d) == z3.And(canon(y), tparent(T, node(y)) == some(node(wq)))),
                      patterns=[cand2.t(y, nv_kids.t(node(wq)), node(wq), d)]),
            # proper descendants of a tree node: exactly the recorded positions that have it in their ancestor chain
            z3.ForAll([wq, y], z3.Implies(canon(wq), cand1.t(y, desc.t(node(wq)), d) == z3.And(canon(y), in_chain(node(y), node(wq)))),
                      patterns=[cand1.t(y, desc.t(node(wq)), d)]),
            # below the dummy root: its only child is the root (reported without parent, field, index), its descendants are all positions of the tree
            z3.ForAll([y], cand2.t(y, nv_kids.t(d), d, d) == (y == pos(r)), patterns=[cand2.t(y, nv_kids.t(d), d, d)]),
            z3.ForAll([y], cand1.t(y, desc.t(d), d) == canon(y), patterns=[cand1.t(y, desc.t(d), d)]),
            intree(T, r), OREF.is_none(tparent(T, r)), node(rootx(d)) == d,
            z3.ForAll([n_], z3.Implies(z3.And(intree(T, n_), OREF.is_none(tparent(T, n_))), n_ == r), patterns=[tparent(T, n_)]),
            # parents and ancestors are members
            z3.ForAll([n_], z3.Implies(z3.And(intree(T, n_), z3.Not(OREF.is_none(tparent(T, n_)))), intree(T, OREF.val(tparent(T, n_)))), patterns=[tparent(T, n_)]),
            z3.ForAll([n_, a_], z3.Implies(z3.And(intree(T, n_), in_chain(n_, a_)), intree(T, a_)), patterns=[in_chain(n_, a_)]),
            # the ancestor chain is empty exactly for the node without parent
            z3.ForAll([n_], z3.Implies(intree(T, n_), OREF.is_none(tparent(T, n_)) == (z3.Length(tchain(T, n_)) == 0)), patterns=[tchain(T, n_)]),
        ]

    # ---- what a non-`anywhere` stage selects from a work list of recorded positions --------------------------------------------------------------
    members_canon = lambda W_: z3.ForAll([wq], z3.Implies(in_pos.t(W_, wq), canon(wq)), patterns=[in_pos.t(W_, wq)])
    par_of = lambda t: OREF.val(tparent(T, t))
    mention = lambda t: t == t          # puts a term into a lemma VC so that definitions / quantified hypotheses are instantiated at it
    child_sel = lambda W_: in_stage.t(x, W_, el, d) == z3.And(ok(x, el), canon(x), z3.Not(OREF.is_none(tparent(T, node(x)))), in_pos.t(W_, pos(par_of(node(x)))))
    prefix_canon = z3.Implies(members_canon(mk_snoc(W, w)), z3.And(members_canon(W), canon(w)))
    S2 = z3.Const("S2_ag", SX.z3())
    in_pos_def = z3.ForAll([S2, wq], in_pos.t(S2, wq) == z3.Contains(S2, z3.Unit(wq)), patterns=[in_pos.t(S2, wq)])     # the defining rule of in_positions, for all arguments
    L.append(Lemma("recorded-positions-prefix", [("direct", lambda bank: ([in_pos_def], prefix_canon))], P))
    L.append(Lemma("stage-selects-children", [("base", lambda bank: (tree_consistent() + [z3.Not(anyw(el))], child_sel(EX))),
                                              ("step", lambda bank: (tree_consistent() + [z3.Not(anyw(el)), members_canon(mk_snoc(W, w)), z3.Implies(members_canon(W), child_sel(W)), prefix_canon],
                                                                     child_sel(mk_snoc(W, w))))], P,
                   note="for a work list W of recorded positions and a step without `//`: x is selected iff it satisfies the step, is a recorded position and the recorded "
                        "position of its parent is in W"))
    # ---- ... and an `anywhere` stage ----------------------------------------------------------------------------------------------------------------
    any_in = lib.fn("some_ancestor_position_in", [SR, SX], BOOL)          # some member a of the chain has its recorded position in W
    any_in.rule("any_in-empty", 0, "empty")(lambda a, p: z3.BoolVal(False))
    any_in.rule("any_in-snoc", 0, "snoc")(lambda a, p: z3.Or(any_in.t(p[0], a[1]), in_pos.t(a[1], pos(p[1]))))
    ch, an = z3.Const("ch_ag", SR.z3()), z3.Const("an_ag", REF.z3())
    ER = z3.Empty(SR.z3())
    any_in.rule("any_in-empty-worklist", 1, "empty", "lemma")(lambda a, p: z3.BoolVal(False))
    L.append(Lemma("any_in-empty-worklist", [("base", lambda bank: ([], any_in.t(ER, EX) == z3.BoolVal(False))),
                                             ("step", lambda bank: ([any_in.t(ch, EX) == z3.BoolVal(False)], any_in.t(mk_snoc(ch, an), EX) == z3.BoolVal(False)))], P))
    aw = lambda c_: any_in.t(c_, mk_snoc(W, w)) == z3.Or(any_in.t(c_, W), z3.Contains(c_, z3.Unit(node(w))))
    L.append(Lemma("any_in-extend-worklist", [("base", lambda bank: ([canon(w)], aw(ER))), ("step", lambda bank: ([canon(w), aw(ch)], aw(mk_snoc(ch, an))))], P,
                   note="appending a recorded position w to the work list adds exactly the chains that contain w's node"))
    desc_sel = lambda W_: in_stage.t(x, W_, el, d) == z3.And(ok(x, el), canon(x), any_in.t(tchain(T, node(x)), W_))
    L.append(Lemma("stage-selects-descendants",
                   [("base", lambda bank: (tree_consistent() + [anyw(el)], desc_sel(EX))),
                    ("step", lambda bank: (tree_consistent() + [anyw(el), members_canon(mk_snoc(W, w)), z3.Implies(members_canon(W), desc_sel(W)), prefix_canon,
                                                                z3.Implies(canon(w), z3.substitute(aw(ch), (ch, tchain(T, node(x)))))],
                                           desc_sel(mk_snoc(W, w))))], P, uses=["any_in-empty-worklist"],
                   note="for a work list W of recorded positions and a `//` step: x is selected iff it satisfies the step, is a recorded position and some ancestor's recorded "
                        "position is in W (the instance of any_in-extend-worklist at x's chain is given as a hypothesis)"))
    # ---- the two searches on one more step: chains ------------------------------------------------------------------------------------------------------
    allin = lib.fns["all_in_tree"]
    Er = z3.Const("Er_ag", SE.z3())
    Wc = z3.Const("Wc_ag", SX.z3())
    ihq = lambda: z3.ForAll([wq], in_pos.t(Wc, wq) == z3.And(canon(wq), MX.t(T, node(wq), Er)), patterns=[in_pos.t(Wc, wq)])
    al = lambda c_: z3.Implies(allin.t(T, c_), any_in.t(c_, Wc) == any_anc.t(T, c_, Er))
    L.append(Lemma("ancestor-positions-are-matches", [("base", lambda bank: ([ihq()], al(ER))), ("step", lambda bank: ([ihq(), al(ch)], al(mk_snoc(ch, an))))], P,
                   note="if W holds exactly the recorded positions of the nodes that match the remaining steps, `some ancestor position in W` is `some ancestor matches`"))
    # ---- the agreement, by induction on the reversed element list (the list match() walks) -----------------------------------------------------------------
    rev = lib.fn("reversed_steps", [SE], SE)
    EE = z3.Empty(SE.z3())
    rev.rule("reversed_steps-empty", 0, "empty")(lambda a, p: EE)
    rev.rule("reversed_steps-cons", 0, "cons")(lambda a, p: mk_snoc(rev.t(p[1]), p[0]))
    chains_in = z3.ForAll([n_], z3.Implies(intree(T, n_), allin.t(T, tchain(T, n_))), patterns=[tchain(T, n_)])
    agree = lambda E_, x_: in_pos.t(TD.t(rev.t(E_), d), x_) == z3.And(canon(x_), MX.t(T, node(x_), E_))
    Wt = TD.t(rev.t(Er), d)                                   # the work list after the steps of Er (Er: the remaining steps as match() sees them, last step first)
    sub = lambda f: z3.substitute(f, (Wc, Wt))

    def agree_base(bank):
        one = mk_cons(el, EE)
        return tree_consistent() + [mention(in_pos.t(z3.Unit(rootx(d)), rootx(d)))], agree(one, x)

    def agree_step(bank):
        ih = z3.ForAll([wq], agree(Er, wq), patterns=[in_pos.t(Wt, wq)])
        nx = node(x)
        lemmas_used = [
            z3.Implies(z3.And(*tree_consistent(), z3.Not(anyw(el)), members_canon(Wt)), child_sel(Wt)),                       # stage-selects-children at W := Wt
            z3.Implies(z3.And(*tree_consistent(), anyw(el), members_canon(Wt)), desc_sel(Wt)),                                # stage-selects-descendants at W := Wt
            z3.Implies(sub(ihq()), sub(al(tchain(T, nx)))),                                                                   # ancestor-positions-are-matches at Wc := Wt, c := chain(x)
        ]
        return tree_consistent() + [chains_in, z3.Length(Er) > 0, ih, mention(any_anc.t(T, ER, Er))] + lemmas_used, agree(mk_cons(el, Er), x)

    L.append(Lemma("searches-agree", [("base", agree_base), ("step", agree_step)], P, uses=["stage-membership"],
                   note="x is in the work list after all steps  <=>  x is the recorded position of a node of the tree and that node matches the steps bottom-up; "
                        "instances of the three selection lemmas are handed to the step as hypotheses"))
    # ---- each position once: add-if-absent keeps the work lists free of repetitions ---------------------------------------------------------------------
    nodup = lib.fn("no_repeated_position", [SX], BOOL)
    nodup.rule("nodup-empty", 0, "empty")(lambda a, p: z3.BoolVal(True))
    nodup.rule("nodup-snoc", 0, "snoc")(lambda a, p: z3.And(nodup.t(p[0]), z3.Not(z3.Contains(p[0], z3.Unit(p[1])))))
    nodup.rule("nodup-A2", 0, "app:add_matching_children", "lemma", raw=True)(lambda a, p: z3.Implies(nodup.t(p[0]), nodup.t(a[0])))
    nodup.rule("nodup-A1", 0, "app:add_matching_descendants", "lemma", raw=True)(lambda a, p: z3.Implies(nodup.t(p[0]), nodup.t(a[0])))
    nodup.rule("nodup-stage", 0, "app:xpath_stage", "lemma", raw=True)(lambda a, p: nodup.t(a[0]))
    nd2 = lambda s_: z3.Implies(nodup.t(S), nodup.t(A2.t(S, s_, par, el, d)))
    nd1 = lambda s_: z3.Implies(nodup.t(S), nodup.t(A1.t(S, s_, el, d)))
    L.append(Lemma("nodup-A2", [("base", lambda bank: ([], nd2(EC))), ("step", lambda bank: ([nd2(cs)], nd2(mk_snoc(cs, c))))], P))
    L.append(Lemma("nodup-A1", [("base", lambda bank: ([], nd1(EI))), ("step", lambda bank: ([nd1(is_)], nd1(mk_snoc(is_, i_))))], P))
    L.append(Lemma("nodup-stage", [("base", lambda bank: ([], nodup.t(ST.t(EX, el, d)))), ("step", lambda bank: ([nodup.t(ST.t(W, el, d))], nodup.t(ST.t(mk_snoc(W, w), el, d))))], P,
                   uses=["nodup-A2", "nodup-A1"]))
    Ef = z3.Const("Ef_ag", SE.z3())
    L.append(Lemma("each-position-once", [("base", lambda bank: ([], nodup.t(TD.t(EE, d)))), ("step", lambda bank: ([nodup.t(TD.t(Ef, d))], nodup.t(TD.t(mk_snoc(Ef, el), d))))], P,
                   uses=["nodup-stage"], note="the work list after any number of steps holds every position at most once"))
    # ---- ... and therefore every node once: recorded positions are a function of their node ----------------------------------------------------------------
    nodes_of = V["nodes_of"]
    has_node = lib.fn("has_position_of_node", [SX, REF], BOOL)
    has_node.rule("has_node-empty", 0, "empty")(lambda a, p: z3.BoolVal(False))
    has_node.rule("has_node-cons", 0, "cons")(lambda a, p: z3.Or(node(p[0]) == a[1], has_node.t(p[1], a[1])))
    nodupR = lib.fn("no_repeated_node", [SR], BOOL)
    nodupR.rule("nodupR-empty", 0, "empty")(lambda a, p: z3.BoolVal(True))
    nodupR.rule("nodupR-cons", 0, "cons")(lambda a, p: z3.And(z3.Not(z3.Contains(p[1], z3.Unit(p[0]))), nodupR.t(p[1])))
    nodup.rule("nodup-cons", 0, "cons", "lemma")(lambda a, p: z3.And(z3.Not(z3.Contains(p[1], z3.Unit(p[0]))), nodup.t(p[1])))
    Sq, xq = z3.Const("Sq_ag", SX.z3()), z3.Const("xq_ag", NI.z3())
    nq = z3.Const("nq_ag", REF.z3())
    ndc = lambda s_: nodup.t(mk_cons(x, s_)) == z3.And(z3.Not(z3.Contains(s_, z3.Unit(x))), nodup.t(s_))
    def ndc_step(bank):
        whole = z3.Concat(mk_cons(x, Sq), z3.Unit(xq))
        bank.add(whole, ("snoc", mk_cons(x, Sq), xq))
        bank.add(whole, ("cons", x, mk_snoc(Sq, xq)))
        goal = nodup.t(whole) == z3.And(z3.Not(z3.Contains(mk_snoc(Sq, xq), z3.Unit(x))), nodup.t(mk_snoc(Sq, xq)))
        return [ndc(Sq)], goal

    L.append(Lemma("nodup-cons", [("base", lambda bank: ([], ndc(EX))), ("step", ndc_step)], P))
    n1 = lambda s_: z3.Contains(nodes_of.t(s_), z3.Unit(nq)) == has_node.t(s_, nq)
    L.append(Lemma("node-listed-iff-position-present", [("base", lambda bank: ([], n1(EX))), ("step", lambda bank: ([n1(Sq)], n1(mk_cons(xq, Sq))))], P, prefer_cvc5=True))
    canon_all = lambda s_: z3.ForAll([wq], z3.Implies(z3.Contains(s_, z3.Unit(wq)), canon(wq)), patterns=[z3.Contains(s_, z3.Unit(wq))])
    n2 = lambda s_: z3.Implies(z3.And(canon_all(s_), canon(x), has_node.t(s_, node(x))), z3.Contains(s_, z3.Unit(x)))
    L.append(Lemma("recorded-position-is-determined-by-its-node",
                   [("base", lambda bank: ([], n2(EX))),
                    ("step", lambda bank: ([n2(Sq), mention(z3.Contains(mk_cons(xq, Sq), z3.Unit(xq)))], n2(mk_cons(xq, Sq))))], P))
    tail_canon = z3.Implies(canon_all(mk_cons(xq, Sq)), z3.And(canon_all(Sq), canon(xq)))
    L.append(Lemma("recorded-positions-tail", [("direct", lambda bank: ([], tail_canon))], P))
    n3 = lambda s_: z3.Implies(z3.And(canon_all(s_), nodup.t(s_)), nodupR.t(nodes_of.t(s_)))
    L.append(Lemma("each-node-once",
                   [("base", lambda bank: ([], n3(EX))),
                    ("step", lambda bank: ([n3(Sq), z3.substitute(n1(Sq), (nq, node(xq))), z3.substitute(n2(Sq), (x, xq)), tail_canon], n3(mk_cons(xq, Sq))))], P,
                   uses=["nodup-cons"],
                   note="a repetition-free list of recorded positions lists every node at most once (instances of the two lemmas above are hypotheses of the step)"))
    # ---- the statement in the property's words: the nodes findall lists are exactly the members that match ----------------------------------------------
    h2 = lambda s_: z3.Implies(z3.And(canon_all(s_), has_node.t(s_, nq)), z3.And(intree(T, nq), z3.Contains(s_, z3.Unit(pos(nq)))))
    L.append(Lemma("listed-node-has-its-recorded-position-listed",
                   [("base", lambda bank: ([], h2(EX))), ("step", lambda bank: ([h2(Sq), tail_canon], h2(mk_cons(xq, Sq))))], P))
    h3 = lambda s_: z3.Implies(z3.Contains(s_, z3.Unit(x)), has_node.t(s_, node(x)))
    L.append(Lemma("listed-position-lists-its-node", [("base", lambda bank: ([], h3(EX))), ("step", lambda bank: ([h3(Sq)], h3(mk_cons(xq, Sq))))], P))
    Tl = TD.t(rev.t(Er), d)            # the final work list for the reversed element list Er (non-empty)

    def corollary(bank):
        agree_all = z3.ForAll([wq], agree(Er, wq), patterns=[in_pos.t(Tl, wq)])                   # searches-agree, for every position
        hyps = [agree_all, in_pos_def,
                z3.substitute(n1(Sq), (Sq, Tl)),                                                # node-listed-iff-position-present at S := Tl
                z3.substitute(h2(Sq), (Sq, Tl)),                                                # listed-node-has-its-recorded-position-listed
                z3.substitute(h3(Sq), (Sq, Tl), (x, pos(nq)))]                                  # listed-position-lists-its-node at x := pos(n)
        return hyps, z3.Contains(nodes_of.t(Tl), z3.Unit(nq)) == z3.And(intree(T, nq), MX.t(T, nq, Er))

    L.append(Lemma("findall-lists-exactly-the-matching-members", [("direct", corollary)], P,
                   note="n is among the nodes of the final work list  <=>  n is a member of the tree and MX holds for n over the reversed element list -- i.e. findall(root) "
                        "yields exactly the nodes for which match(root, n) is True (each once: each-node-once). Hypotheses: searches-agree for every position and "
                        "instances of the three listing lemmas"))
    world.trusted_notes.clear()
    world.trusted_notes.append(
        "tree_consistent(T, r, d), hypothesis of the agreement lemmas (what C06 proves about Tree.__init__, restated over positions): the child entries of a tree node w are exactly "
        "the recorded positions whose parent is w; the descendant entries of w are exactly the recorded positions with w in their ancestor chain; below the dummy root: the only "
        "child is the root (no parent / field / index), the descendants are all recorded positions; the root is the only member without parent; parents and chain members are "
        "members; a chain is empty exactly for the root; every member's chain lies in the tree. Checked natively, clause by clause, on every tree the bounded runs "
        "rt.c06 (all model trees up to the size bound) and rt.c07 enumerate")
    world.trusted_notes.append("reversed_steps (list reversal by cons / snoc) is what list(reversed(...)) computes in ASTXpath.__init__ (reversed_elements there)")
    reg = Registry()
    return world, lib, reg, L
