"""C08 (proved part): the leaf matchers, the capture wrapping of BaseMatcher.match, the singleton
rule of AnyMatcher, SequenceMatcher's tail extraction and length rule, MultiPatternMatcher's rule order.

Values matched are opaque (PyVal); capture dicts are an opaque algebra Vars with constructors
EMPTY, bind(name, value, vars), upd(vars, more): 'the very object matched' is the value term inside
bind.  Sub-matchers are called through the abstract result functions mok / mvars (dynamic dispatch on
_match).  re.Pattern.match and .search are distinct uninterpreted predicates."""
from __future__ import annotations

import ast

import z3

from pyvc.contract import Contract, Loop, Registry
from pyvc.specfn import SpecLib
from pyvc.symex import World
from pyvc.values import BOOL, INT, NONE, STR, EngineError, V, VBool, VBound, VCls, VExc, VOpt, VPy, VSeq, VStr, VTuple, VU, fresh_name, opt_of, seq_of, usort

PM_ = "pyoak.match.pattern"


def build():
    reg = Registry()
    world = World(reg)
    lib = SpecLib()
    MAT, PV, VARS, RE, KW = usort("Matcher"), usort("PyVal"), usort("Vars"), usort("RePattern"), usort("Kwargs")
    OSTR, OMAT = opt_of(STR), opt_of(MAT)
    SM, SPV = seq_of(MAT), seq_of(PV)
    EMPTY = VARS.fresh("EMPTY_VARS")
    world.consts["EMPTY_VARS"] = EMPTY
    bind = z3.Function("bind", z3.StringSort(), PV.z3(), VARS.z3(), VARS.z3())
    upd = z3.Function("upd", VARS.z3(), VARS.z3(), VARS.z3())
    vhas = z3.Function("vars_has", VARS.z3(), z3.StringSort(), z3.BoolSort())
    vget = z3.Function("vars_get", VARS.z3(), z3.StringSort(), PV.z3())
    mok = z3.Function("mok", MAT.z3(), PV.z3(), VARS.z3(), z3.BoolSort())
    mvars = z3.Function("mvars", MAT.z3(), PV.z3(), VARS.z3(), VARS.z3())
    m_name = z3.Function("m_name", MAT.z3(), OSTR.z3())
    m_value = z3.Function("m_value", MAT.z3(), PV.z3())
    m_pattern = z3.Function("m_pattern", MAT.z3(), RE.z3())
    m_var = z3.Function("m_var_name", MAT.z3(), z3.StringSort())
    m_matchers = z3.Function("m_matchers", MAT.z3(), SM.z3())
    m_tail = z3.Function("m_tail", MAT.z3(), OMAT.z3())
    is_any = z3.Function("is_AnyMatcher", MAT.z3(), z3.BoolSort())
    is_node = z3.Function("is_node", PV.z3(), z3.BoolSort())
    is_equal = z3.Function("node_is_equal", PV.z3(), PV.z3(), z3.BoolSort())
    py_eq = z3.Function("py_eq", PV.z3(), PV.z3(), z3.BoolSort())
    str_of = z3.Function("str_of", PV.z3(), z3.StringSort())
    re_match = z3.Function("re_match", RE.z3(), z3.StringSort(), z3.BoolSort())
    re_search = z3.Function("re_search", RE.z3(), z3.StringSort(), z3.BoolSort())
    kw_name = z3.Function("kw_name", KW.z3(), OSTR.z3())
    seq_as_val = z3.Function("tuple_value", SPV.z3(), PV.z3())  # a Python tuple as a value (for the tail capture)
    sf = world.spec_fns
    sf.update({
        "bind": lambda n, v, r: VARS.wrap(bind(STR.coerce(n).term, PV.coerce(v).term, r.term)),
        "upd": lambda a, b: VARS.wrap(upd(a.term, b.term)),
        "mok": lambda m, v, c: VBool(mok(m.term, PV.coerce(v).term, c.term)),
        "mvars": lambda m, v, c: VARS.wrap(mvars(m.term, PV.coerce(v).term, c.term)),
        "is_node": lambda v: VBool(is_node(v.term)), "node_is_equal": lambda a, b: VBool(is_equal(a.term, b.term)),
        "py_eq": lambda a, b: VBool(py_eq(a.term, b.term)), "re_match": lambda p, s_: VBool(re_match(p.term, s_.term)),
        "str_of": lambda v: VStr(str_of(v.term)), "vars_has": lambda c, n: VBool(vhas(c.term, n.term)),
        "vars_get": lambda c, n: PV.wrap(vget(c.term, n.term)), "kw_name": lambda k: VOpt(kw_name(k.term), OSTR),
        "ctx0": lambda c: VARS.wrap(z3.If(opt_of(VARS).is_none(c.term), EMPTY.term, opt_of(VARS).val(c.term))) if isinstance(c, VOpt) else c,
        "is_any": lambda m: VBool(is_any(MAT.coerce(m).term)), "tuple_value": lambda s_: PV.wrap(seq_as_val(SPV.coerce(s_).term)),
    })
    world.usort_class = {"Matcher": "BaseMatcher"}
    for c in ("BaseMatcher", "AnyMatcher", "ValueMatcher", "RegexMatcher", "VarMatcher", "SequenceMatcher", "NodeMatcher", "MultiPatternMatcher"):
        world.class_parents[c] = [] if c in ("BaseMatcher", "MultiPatternMatcher") else ["BaseMatcher"]
        world.class_module[c] = PM_
    world.exc_parents["ASTPatternDefinitionError"] = "Exception"
    S = {}  # ghost fields of the SequenceMatcher under construction

    def attr(m, obj, name):
        if isinstance(obj, VU) and obj.sort == MAT:
            if name == "name":
                return VOpt(m_name(obj.term), OSTR)
            if name == "value":
                return PV.wrap(m_value(obj.term))
            if name == "pattern":
                return RE.wrap(m_pattern(obj.term))
            if name == "var_name":
                return VStr(m_var(obj.term))
            if name == "matchers":
                if "S_matchers" in m.global_syms and obj.term.get_id() == m.env.get("self", obj).term.get_id() and m.contract.qualname.endswith("__post_init__"):
                    return m.global_syms["S_matchers"]
                return SM.wrap(m_matchers(obj.term))
            if name == "tail_matcher":
                return VOpt(m_tail(obj.term), OMAT)
        if isinstance(obj, VU) and obj.sort == RE and name in ("match", "search", "fullmatch"):
            return VBound(obj, name)
        if isinstance(obj, VU) and obj.sort == VARS and name in ("update",):
            return VBound(obj, name)
        if isinstance(obj, VU) and obj.sort == KW and name == "get":
            return VBound(obj, name)
        if isinstance(obj, VU) and obj.sort == PV and name == "is_equal":
            return VBound(obj, name)
        if isinstance(obj, VCls) and obj.name == "AnyMatcher" and name == "_instance":
            return m.global_syms["INSTANCE"]
        if isinstance(obj, VPy) and obj.obj == "cls" and name == "_instance":
            return m.global_syms["INSTANCE"]
        return None

    def call(m, func, args, kwargs, node):
        if isinstance(func, VBound) and isinstance(func.recv, VU):
            r, n = func.recv, func.name
            if r.sort == RE:
                f = {"match": re_match, "search": re_search}.get(n)
                if f is None:
                    raise EngineError(f"re.Pattern.{n}")
                # returns a match object or None
                return opt_of(PV).wrap(z3.If(f(r.term, STR.coerce(args[0]).term), opt_of(PV).some(PV.fresh("matchobj")).term, opt_of(PV).none().term))
            if r.sort == VARS and n == "update":
                tgt = node.func.value
                if not isinstance(tgt, ast.Name):
                    raise EngineError("update of a capture dict reached through an expression")
                m.env[tgt.id] = VARS.wrap(upd(r.term, VARS.coerce(args[0]).term))
                return NONE
            if r.sort == KW and n == "get" and isinstance(args[0], VStr) and z3.is_string_value(args[0].term) and args[0].term.as_string() == "name":
                return VOpt(kw_name(r.term), OSTR)
            if r.sort == PV and n == "is_equal":
                return VBool(is_equal(r.term, PV.coerce(args[0]).term))
        if isinstance(func, VPy) and func.obj == ("builtin", "dict") and len(args) == 1 and isinstance(args[0], VU) and args[0].sort == VARS:
            return args[0]
        if isinstance(func, VPy) and func.obj == ("builtin", "str") and isinstance(args[0], VU) and args[0].sort == PV:
            return VStr(str_of(args[0].term))
        if isinstance(func, VPy) and func.obj == ("clsattr", "object", "__new__"):
            fresh = MAT.fresh("new_matcher")
            old = m.global_syms.get("INSTANCE")
            if old is not None:
                m.ctx.assume(z3.Or(OMAT.is_none(old.term), OMAT.val(old.term) != fresh.term))
            m.ghost_env.setdefault("_fresh", VPy([])).obj.append(fresh)
            return fresh
        if isinstance(func, VPy) and func.obj == ("setattr",):
            obj, name, val = args
            if isinstance(obj, VPy) and obj.obj == "cls" and name.obj == "_instance":
                m.global_syms["INSTANCE"] = OMAT.coerce(val)
                return NONE
            if isinstance(obj, VU) and obj.sort == MAT and isinstance(name, (VPy, VStr)):
                nm = name.obj if isinstance(name, VPy) else name.term.as_string()
                if nm == "tail_matcher":
                    m.global_syms["S_tail"] = OMAT.coerce(val)
                    return NONE
                if nm == "matchers":
                    m.global_syms["S_matchers"] = SM.coerce(val)
                    return NONE
        return NotImplemented

    def dict_display(m, e, hint):
        if not e.keys:
            return EMPTY
        if len(e.keys) == 2 and e.keys[1] is None:  # {name: value, **more}
            k, v, more = m.eval(e.keys[0]), m.eval(e.values[0]), m.eval(e.values[1])
            return VARS.wrap(bind(STR.coerce(k).term, PV.coerce(v).term, VARS.coerce(more).term))
        return None

    def isinst(m, v, cls):
        name = getattr(cls, "name", "")
        if isinstance(v, VU) and v.sort == PV and name == "ASTNode":
            return is_node(v.term)
        if isinstance(v, VU) and v.sort == MAT and name == "AnyMatcher":
            return is_any(v.term)
        if isinstance(v, VU) and v.sort == PV and name == "Sequence":
            return z3.BoolVal(False)  # the non-sequence variant of SequenceMatcher._match
        return None

    def contains(m, a, b):
        return None

    world.attr_hooks.insert(0, attr)
    world.call_hooks.insert(0, call)
    world.isinstance_hooks.insert(0, isinst)
    world.dict_display_hook = dict_display
    world.py_in_hooks = []
    world.py_eq_hooks = [lambda m, a, b: py_eq(a.term, b.term) if isinstance(a, VU) and isinstance(b, VU) and a.sort == PV and b.sort == PV else None]
    world.name_hooks.append(lambda m, n: VCls(n) if n in ("ASTNode", "Sequence", "AnyMatcher") else None)
    orig_contains = None
    A = reg.add
    P = ["C08"]
    A(Contract(f"{PM_}:BaseMatcher._match", params={"self": "Matcher", "value": "PyVal", "ctx": "Vars"}, returns="Tuple[bool,Vars]", props=P, trusted=True,
               trusted_reason="abstract method: dynamic dispatch to the concrete matcher's _match, summarised by the result functions mok / mvars",
               raises=[("ASTPatternDefinitionError", "*")], ensures=["result[0] == mok(self, value, ctx)", "result[1] == mvars(self, value, ctx)"]))
    A(Contract(f"{PM_}:BaseMatcher.match", params={"self": "Matcher", "value": "PyVal", "ctx": "Opt[Vars]"}, returns="Tuple[bool,Vars]", props=P,
               may_raise=["ASTPatternDefinitionError"],
               ensures=["result[0] == mok(self, value, ctx0(old(ctx)))",
                        "implies(not result[0], result[1] == EMPTY_VARS)",
                        "implies(result[0] and self.name is None, result[1] == mvars(self, value, ctx0(old(ctx))))",
                        "implies(result[0] and self.name is not None, result[1] == bind(self.name, value, mvars(self, value, ctx0(old(ctx)))))"],
               note="on failure the capture dict is empty; on success a named matcher adds its name -> the very value it was given"))
    A(Contract(f"{PM_}:AnyMatcher._match", params={"self": "Matcher", "value": "PyVal", "ctx": "Vars"}, returns="Tuple[bool,Vars]", props=P,
               ensures=["result[0] == True", "result[1] == EMPTY_VARS"]))
    A(Contract(f"{PM_}:ValueMatcher._match", params={"self": "Matcher", "value": "PyVal", "ctx": "Vars"}, returns="Tuple[bool,Vars]", props=P,
               ensures=["result[0] == (node_is_equal(self.value, value) if is_node(self.value) else py_eq(value, self.value))", "result[1] == EMPTY_VARS"],
               note="content equality for nodes, == otherwise (None only matches None, () only the empty tuple, by Python's ==)"))
    A(Contract(f"{PM_}:RegexMatcher._match", params={"self": "Matcher", "value": "PyVal", "ctx": "Vars"}, returns="Tuple[bool,Vars]", props=P,
               ensures=["result[0] == re_match(self.pattern, str_of(value))", "result[1] == EMPTY_VARS"],
               note="re.Pattern.match (anchored at the start) of str(value); re.search is a different predicate"))
    A(Contract(f"{PM_}:VarMatcher._match", params={"self": "Matcher", "value": "PyVal", "ctx": "Vars"}, returns="Tuple[bool,Vars]", props=P,
               raises=[("ASTPatternDefinitionError", "not vars_has(ctx, self.var_name)")],
               ensures=["result[0] == (node_is_equal(vars_get(ctx, self.var_name), value) if is_node(vars_get(ctx, self.var_name)) else py_eq(vars_get(ctx, self.var_name), value))",
                        "result[1] == EMPTY_VARS"]))

    def vars_ops(m, container, item):
        return None

    # `x in ctx` / ctx[x] on the opaque Vars
    def call2(m, func, args, kwargs, node):
        return NotImplemented
    world.call_hooks.append(call2)
    world.contains_hooks = [lambda m, c, i: vhas(c.term, STR.coerce(i).term) if isinstance(c, VU) and c.sort == VARS else None]
    world.index_hooks = [lambda m, c, i: PV.wrap(vget(c.term, STR.coerce(i).term)) if isinstance(c, VU) and c.sort == VARS else None]
    return world, lib, reg, [], dict(MAT=MAT, PV=PV, VARS=VARS, KW=KW, OMAT=OMAT, OSTR=OSTR, SM=SM, SPV=SPV, vhas=vhas, vget=vget, is_any=is_any, m_matchers=m_matchers,
                                    m_tail=m_tail, mok=mok, mvars=mvars, EMPTY=EMPTY, A=A, P=P, sf=sf, bind=bind, upd=upd, seq_as_val=seq_as_val)


_orig_build = build


def build():  # noqa: F811
    world, lib, reg, lem, d = _orig_build()
    from pyvc.core import mk_cons
    from pyvc.verify import Lemma
    A, P, sf = d["A"], d["P"], d["sf"]
    MAT, PV, VARS, KW, OMAT, OSTR, SM, SPV = d["MAT"], d["PV"], d["VARS"], d["KW"], d["OMAT"], d["OSTR"], d["SM"], d["SPV"]
    EMPTY, mok, mvars, bind = d["EMPTY"], d["mok"], d["mvars"], d["bind"]
    # ---- AnyMatcher.__new__: only the unnamed matcher is shared -----------------------------------------
    A(Contract(f"{PM_}:AnyMatcher.__new__", params={"cls": "py:cls", "args": "Tuple[]", "kwargs": "Kwargs"}, returns="Matcher", props=P,
               globals={"INSTANCE": "Opt[Matcher]"}, modifies=["INSTANCE"],
               ensures=["implies(kw_name(kwargs) is not None, result != old(INSTANCE) and INSTANCE == old(INSTANCE))",
                        "implies(kw_name(kwargs) is None, INSTANCE == result)",
                        "implies(kw_name(kwargs) is None and old(INSTANCE) is not None, result == old(INSTANCE))"],
               note="a named (capturing) AnyMatcher is a new object and leaves the shared instance alone; the dataclass __init__ that runs afterwards "
                    "therefore never renames the shared instance"))
    # ---- SequenceMatcher: tail extraction and the length rule ---------------------------------------------
    butlast = lib.fn("m_butlast", [SM], SM)
    butlast.rule("m_butlast-snoc", 0, "snoc")(lambda a, p: p[0])
    lastm = lib.fn("m_last", [SM], MAT)
    lastm.rule("m_last-snoc", 0, "snoc")(lambda a, p: p[1])
    sf["m_butlast"], sf["m_last"] = butlast, lastm
    A(Contract(f"{PM_}:SequenceMatcher.__post_init__", params={"self": "Matcher"}, props=P,
               globals={"S_matchers": "Seq[Matcher]", "S_tail": "Opt[Matcher]"}, modifies=["S_matchers", "S_tail"],
               raises=[("RuntimeError", "len(S_matchers) == 0")],
               ensures=["implies(is_any(m_last(old(S_matchers))), S_tail == m_last(old(S_matchers)) and S_matchers == m_butlast(old(S_matchers)))",
                        "implies(not is_any(m_last(old(S_matchers))), S_tail == old(S_tail) and S_matchers == old(S_matchers))"],
               note="S_matchers / S_tail are the two fields of the object under construction; a trailing AnyMatcher becomes the tail"))
    LEN_RULE = "(self.tail_matcher is None and len(value) != len(self.matchers)) or (self.tail_matcher is not None and len(value) < len(self.matchers))"
    A(Contract(f"{PM_}:BaseMatcher.match", variant_of="callee", params={"self": "Matcher", "value": "PyVal", "ctx": "Opt[Vars]"}, returns="Tuple[bool,Vars]",
               props=P, trusted=True, trusted_reason="proved above; used as callee contract inside the sequence / node / multi matchers",
               raises=[("ASTPatternDefinitionError", "*")],
               ensures=["result[0] == mok(self, value, ctx0(ctx))", "result[1] == mcaps(self, value, ctx0(ctx))"]))

    def mcaps(m, v, c):
        mt, vt, ct = MAT.coerce(m).term, PV.coerce(v).term, c.term
        import z3 as _z
        nm = world_attr_name(mt)
        return VARS.wrap(_z.If(_z.Not(mok(mt, vt, ct)), EMPTY.term, _z.If(OSTR.is_none(nm), mvars(mt, vt, ct), bind(OSTR.val(nm), vt, mvars(mt, vt, ct)))))

    m_name = [f for f in [None]]
    import z3
    m_name_fn = z3.Function("m_name", MAT.z3(), OSTR.z3())
    world_attr_name = lambda mt: m_name_fn(mt)
    sf["mcaps"] = mcaps
    reg.contracts[f"{PM_}:BaseMatcher.match#callee"].fn = f"{PM_}:BaseMatcher.match"
    # inside other matchers, `x.match(...)` resolves to the callee summary
    orig_lookup = world.mro_lookup

    def lookup(cls, name):
        if name == "match" and cls in ("BaseMatcher",) and getattr(world, "_use_callee_match", False):
            return f"{PM_}:BaseMatcher.match#callee"
        return orig_lookup(cls, name)

    world.mro_lookup = lookup

    def use_callee(m):
        world._use_callee_match = True

    # element-wise left fold with context threading: after the first k matchers
    #   fctx = the context (ctx updated with every sub-match's captures), fcaps = the captures collected, fok = all verdicts so far
    mcaps_t = lambda mt, vt, ct: mcaps(MAT.wrap(mt), PV.wrap(vt), VARS.wrap(ct)).term
    fctx = lib.fn("seq_fold_ctx", [SM, SPV, VARS], VARS)
    fcaps = lib.fn("seq_fold_caps", [SM, SPV, VARS], VARS)
    fok = lib.fn("seq_fold_ok", [SM, SPV, VARS], BOOL)
    at = lambda vs, ms: vs[z3.Length(ms)]
    fctx.rule("seq_fold_ctx-empty", 0, "empty")(lambda a, p: a[2])
    fctx.rule("seq_fold_ctx-snoc", 0, "snoc")(lambda a, p: d["upd"](fctx.t(p[0], a[1], a[2]), mcaps_t(p[1], at(a[1], p[0]), fctx.t(p[0], a[1], a[2]))))
    fcaps.rule("seq_fold_caps-empty", 0, "empty")(lambda a, p: EMPTY.term)
    fcaps.rule("seq_fold_caps-snoc", 0, "snoc")(lambda a, p: d["upd"](fcaps.t(p[0], a[1], a[2]), mcaps_t(p[1], at(a[1], p[0]), fctx.t(p[0], a[1], a[2]))))
    fok.rule("seq_fold_ok-empty", 0, "empty")(lambda a, p: z3.BoolVal(True))
    fok.rule("seq_fold_ok-snoc", 0, "snoc")(lambda a, p: z3.And(fok.t(p[0], a[1], a[2]), mok(p[1], at(a[1], p[0]), fctx.t(p[0], a[1], a[2]))))
    fok.rule("seq_fold_ok-prefix", 0, "concat", "lemma", raw=True)(lambda a, p: z3.Implies(fok.t(z3.Concat(p[0], p[1]), a[1], a[2]), fok.t(p[0], a[1], a[2])))
    sf.update({"seq_fold_ctx": fctx, "seq_fold_caps": fcaps, "seq_fold_ok": fok})
    LEN_OK = "((self.tail_matcher is None and len(value) == len(self.matchers)) or (self.tail_matcher is not None and len(value) >= len(self.matchers)))"
    for variant, vs in ((None, "Seq[PyVal]"), ("non-sequence", "PyVal")):
        A(Contract(f"{PM_}:SequenceMatcher._match", variant_of=variant, params={"self": "Matcher", "value": vs, "ctx": "Vars"}, returns="Tuple[bool,Vars]",
                   props=P, may_raise=["ASTPatternDefinitionError"], setup=use_callee,
                   locals={"local_ctx": "Vars", "ret_vars": "Vars"},
                   ensures=(["result[0] == False", "result[1] == EMPTY_VARS"] if variant else
                            [f"result[0] == ({LEN_OK} and seq_fold_ok(self.matchers, value, ctx))",
                             "implies(not result[0], result[1] == EMPTY_VARS)",
                             "implies(result[0] and self.tail_matcher is None, result[1] == seq_fold_caps(self.matchers, value, ctx))",
                             "implies(result[0] and self.tail_matcher is not None, result[1] == upd(seq_fold_caps(self.matchers, value, ctx), "
                             "mcaps(self.tail_matcher, tuple_value(value[len(self.matchers):]), seq_fold_ctx(self.matchers, value, ctx))))"]),
                   loops={1: Loop(inv=["len(done1) == len(done1_2)", "seq_fold_ok(done1, value, ctx)", "local_ctx == seq_fold_ctx(done1, value, ctx)",
                                       "ret_vars == seq_fold_caps(done1, value, ctx)"])},
                   note=("a value that is not a Sequence never matches" if variant else
                         "equal length without a trailing '*', at least as many elements with it; the listed matchers are applied element-wise, left to right, each seeing the "
                         "captures of the earlier ones; on success the captures are those of the elements in order, followed by the tail matcher's capture of the tuple of "
                         "remaining elements; failure returns no captures")))
    # ---- NodeMatcher._match: class test, then the listed fields in order ----------------------------------------
    from pyvc.values import rec_sort as _rs
    CI = _rs("ContentItem", [("fname", STR), ("sub", MAT)], tuple_like=True)
    SCI = seq_of(CI)
    m_content = z3.Function("m_content", MAT.z3(), SCI.z3())
    inst_any = z3.Function("isinstance_of_any", PV.z3(), MAT.z3(), z3.BoolSort())   # isinstance(value, self.types)
    has_attr = z3.Function("has_attr", PV.z3(), z3.StringSort(), z3.BoolSort())
    attr_of = z3.Function("attr_of", PV.z3(), z3.StringSort(), PV.z3())
    nctx = lib.fn("node_fold_ctx", [SCI, PV, VARS], VARS)
    ncaps = lib.fn("node_fold_caps", [SCI, PV, VARS], VARS)
    nok = lib.fn("node_fold_ok", [SCI, PV, VARS], BOOL)
    fn_, sub_ = (lambda it: CI.get(CI.wrap(it).term, "fname").term), (lambda it: CI.get(CI.wrap(it).term, "sub").term)
    nctx.rule("node_fold_ctx-empty", 0, "empty")(lambda a, p: a[2])
    nctx.rule("node_fold_ctx-snoc", 0, "snoc")(lambda a, p: d["upd"](nctx.t(p[0], a[1], a[2]), mcaps_t(sub_(p[1]), attr_of(a[1], fn_(p[1])), nctx.t(p[0], a[1], a[2]))))
    ncaps.rule("node_fold_caps-empty", 0, "empty")(lambda a, p: EMPTY.term)
    ncaps.rule("node_fold_caps-snoc", 0, "snoc")(lambda a, p: d["upd"](ncaps.t(p[0], a[1], a[2]), mcaps_t(sub_(p[1]), attr_of(a[1], fn_(p[1])), nctx.t(p[0], a[1], a[2]))))
    nok.rule("node_fold_ok-empty", 0, "empty")(lambda a, p: z3.BoolVal(True))
    nok.rule("node_fold_ok-snoc", 0, "snoc")(lambda a, p: z3.And(nok.t(p[0], a[1], a[2]), has_attr(a[1], fn_(p[1])), mok(sub_(p[1]), attr_of(a[1], fn_(p[1])), nctx.t(p[0], a[1], a[2]))))
    nok.rule("node_fold_ok-prefix", 0, "concat", "lemma", raw=True)(lambda a, p: z3.Implies(nok.t(z3.Concat(p[0], p[1]), a[1], a[2]), nok.t(p[0], a[1], a[2])))
    sf.update({"node_fold_ctx": nctx, "node_fold_caps": ncaps, "node_fold_ok": nok,
               "m_content": lambda m_: SCI.wrap(m_content(MAT.coerce(m_).term)), "inst_any": lambda v, m_: VBool(inst_any(PV.coerce(v).term, MAT.coerce(m_).term))})

    def attr_n(m, obj, name):
        if isinstance(obj, VU) and obj.sort == MAT and name == "content":
            return SCI.wrap(m_content(obj.term))
        if isinstance(obj, VU) and obj.sort == MAT and name == "types":
            return VPy(("types_of", obj))
        return None

    def call_n(m, func, args, kwargs, node):
        if isinstance(func, VPy) and func.obj == ("builtin", "hasattr") and isinstance(args[0], VU) and args[0].sort == PV:
            return VBool(has_attr(args[0].term, STR.coerce(args[1]).term))
        if isinstance(func, VPy) and func.obj == ("builtin", "getattr") and len(args) == 2 and isinstance(args[0], VU) and args[0].sort == PV:
            from pyvc.symex import RaiseSig
            if not m.ctx.branch(has_attr(args[0].term, STR.coerce(args[1]).term)):
                raise RaiseSig(VExc("AttributeError"))
            return PV.wrap(attr_of(args[0].term, STR.coerce(args[1]).term))
        return NotImplemented

    def isinst_n(m, v, cls):
        if isinstance(v, VU) and v.sort == PV and isinstance(cls, VPy) and isinstance(cls.obj, tuple) and cls.obj[0] == "types_of":
            return inst_any(v.term, cls.obj[1].term)
        return None

    world.attr_hooks.insert(0, attr_n)
    world.call_hooks.insert(0, call_n)
    world.isinstance_hooks.insert(0, isinst_n)
    A(Contract(f"{PM_}:NodeMatcher._match", params={"self": "Matcher", "value": "PyVal", "ctx": "Vars"}, returns="Tuple[bool,Vars]",
               props=P, may_raise=["ASTPatternDefinitionError"], setup=use_callee,
               locals={"local_ctx": "Vars", "ret_vars": "Vars"},
               ensures=["result[0] == (inst_any(value, self) and node_fold_ok(m_content(self), value, ctx))",
                        "implies(not result[0], result[1] == EMPTY_VARS)",
                        "implies(result[0], result[1] == node_fold_caps(m_content(self), value, ctx))"],
               loops={1: Loop(inv=["node_fold_ok(done1, value, ctx)", "local_ctx == node_fold_ctx(done1, value, ctx)", "ret_vars == node_fold_caps(done1, value, ctx)"])},
               note="an instance of one of the listed classes, and every listed field exists and its matcher accepts the field's value, checked in the listed order with the "
                    "captures of earlier fields visible to later ones; captures are collected in that order; failure returns no captures"))
    # prefix lemmas: a failed prefix fails the whole fold (induction on the appended part)
    ms_a, ms_b = z3.Const("ms_a", SM.z3()), z3.Const("ms_b", SM.z3())
    m_y = z3.Const("m_y", MAT.z3())
    vs_ = z3.Const("vs_l", SPV.z3())
    c_ = z3.Const("c_l", VARS.z3())
    from pyvc.core import mk_snoc

    def sp_base(bank):
        return [], z3.Implies(fok.t(z3.Concat(ms_a, z3.Empty(SM.z3())), vs_, c_), fok.t(ms_a, vs_, c_))

    def sp_step(bank):
        ih = z3.Implies(fok.t(z3.Concat(ms_a, ms_b), vs_, c_), fok.t(ms_a, vs_, c_))
        whole = z3.Concat(ms_a, mk_snoc(ms_b, m_y))
        bank.add(whole, ("snoc", z3.Concat(ms_a, ms_b), m_y))
        return [ih], z3.Implies(fok.t(whole, vs_, c_), fok.t(ms_a, vs_, c_))
    lem = lem + [Lemma("seq_fold_ok-prefix", [("base", sp_base), ("step", sp_step)], P)]
    ci_a, ci_b = z3.Const("ci_a", SCI.z3()), z3.Const("ci_b", SCI.z3())
    ci_y = z3.Const("ci_y", CI.z3())
    v_l = z3.Const("v_l", PV.z3())

    def np_base(bank):
        return [], z3.Implies(nok.t(z3.Concat(ci_a, z3.Empty(SCI.z3())), v_l, c_), nok.t(ci_a, v_l, c_))

    def np_step(bank):
        ih = z3.Implies(nok.t(z3.Concat(ci_a, ci_b), v_l, c_), nok.t(ci_a, v_l, c_))
        whole = z3.Concat(ci_a, mk_snoc(ci_b, ci_y))
        bank.add(whole, ("snoc", z3.Concat(ci_a, ci_b), ci_y))
        return [ih], z3.Implies(nok.t(whole, v_l, c_), nok.t(ci_a, v_l, c_))
    lem = lem + [Lemma("node_fold_ok-prefix", [("base", np_base), ("step", np_step)], P)]
    from pyvc.values import rec_sort
    T2 = rec_sort("Tuple2", [("rule", STR), ("caps", VARS)], tuple_like=True)
    # ---- MultiPatternMatcher.match: first matching rule in the given order -------------------------------------
    MPM = usort("MultiMatcher")
    world.usort_class["MultiMatcher"] = "MultiPatternMatcher"
    mp_m = z3.Function("mp_matcher", MPM.z3(), z3.StringSort(), MAT.z3())
    mp_keys = z3.Function("mp_keys", MPM.z3(), z3.SeqSort(z3.StringSort()))
    SS = seq_of(STR)
    first = lib.fn("first_rule", [MPM, SS, PV], opt_of(STR))
    OS = opt_of(STR)
    first.rule("first_rule-empty", 1, "empty")(lambda a, p: OS.none().term)
    first.rule("first_rule-cons", 1, "cons")(lambda a, p: z3.If(mok(mp_m(a[0], p[0]), a[2], EMPTY.term), OS.some(STR.wrap(p[0])).term, first.t(a[0], p[1], a[2])))
    first.rule("first_rule-concat", 1, "concat", "lemma")(lambda a, p: z3.If(OS.is_none(first.t(a[0], p[0], a[2])), first.t(a[0], p[1], a[2]), first.t(a[0], p[0], a[2])))
    sf["first_rule"] = first
    sf["mp_matcher"] = lambda mp, r: MAT.wrap(mp_m(mp.term, STR.coerce(r).term))
    sf["mp_keys"] = lambda mp: SS.wrap(mp_keys(mp.term))

    class _NM:  # the _name_to_matcher attribute
        pass

    def attr2(m, obj, name):
        if isinstance(obj, VU) and obj.sort == MPM and name == "_name_to_matcher":
            return VPy(("n2m", obj))
        if isinstance(obj, VPy) and isinstance(obj.obj, tuple) and obj.obj[0] == "n2m" and name == "keys":
            return VBound(obj, "keys")
        return None

    def call3(m, func, args, kwargs, node):
        if isinstance(func, VBound) and isinstance(func.recv, VPy) and isinstance(func.recv.obj, tuple) and func.recv.obj[0] == "n2m" and func.name == "keys":
            return SS.wrap(mp_keys(func.recv.obj[1].term))
        return NotImplemented

    world.attr_hooks.insert(0, attr2)
    world.call_hooks.insert(0, call3)
    world.coerce_hooks = [lambda m, v, sname: PV.wrap(d["seq_as_val"](v.term)) if sname == "PyVal" and isinstance(v, VSeq) and v.sort == SPV else None]
    world.index_hooks.append(lambda m, c, i: MAT.wrap(mp_m(c.obj[1].term, STR.coerce(i).term)) if isinstance(c, VPy) and isinstance(c.obj, tuple) and c.obj[0] == "n2m" else None)
    A(Contract(f"{PM_}:MultiPatternMatcher.match", params={"self": "MultiMatcher", "node": "PyVal", "rules": "Opt[Seq[str]]"}, returns="Opt[Tuple2]", props=P,
               may_raise=["ASTPatternDefinitionError"], setup=use_callee, locals={"rules": "Seq[str]"},
               ensures=[e.format(R=R, G=G) for R, G in (("mp_keys(self)", "old(rules) is None"), ("old(rules)", "old(rules) is not None")) for e in (
                   "implies({G}, (result is None) == (first_rule(self, {R}, node) is None))",
                   "implies({G} and result is not None, result.rule == first_rule(self, {R}, node) and result.caps == mcaps(mp_matcher(self, result.rule), node, EMPTY_VARS))")],
               loops={1: Loop(inv=["first_rule(self, done1, node) is None"])},
               note="the first rule, in the given order (all rules in definition order when none are given), whose matcher accepts the node, with that matcher's captures"))
    sf["rules0"] = lambda mp, r: SS.wrap(z3.If(opt_of(SS).is_none(r.term), mp_keys(mp.term), opt_of(SS).val(r.term)))
    # first_rule over concatenation (as for the visitor dispatch)
    v_, n_ = z3.Const("mp_fr", MPM.z3()), z3.Const("n_fr", PV.z3())
    x_ = z3.Const("x_fr", z3.StringSort())
    r_, b_ = z3.Const("r_fr", SS.z3()), z3.Const("b_fr", SS.z3())
    E = z3.Empty(SS.z3())
    pick = lambda p, q: z3.If(OS.is_none(p), q, p)

    def base(bank):
        return [], first.t(v_, z3.Concat(E, b_), n_) == pick(first.t(v_, E, n_), first.t(v_, b_, n_))

    def step(bank):
        ih = first.t(v_, z3.Concat(r_, b_), n_) == pick(first.t(v_, r_, n_), first.t(v_, b_, n_))
        a = mk_cons(x_, r_)
        whole = z3.Concat(a, b_)
        bank.add(whole, ("cons", x_, z3.Concat(r_, b_)))
        return [ih], first.t(v_, whole, n_) == pick(first.t(v_, a, n_), first.t(v_, b_, n_))
    lem = lem + [Lemma("first_rule-concat", [("base", base), ("step", step)], P)]
    return world, lib, reg, lem
