"""Shared ghost vocabulary for the v2 node areas (DESIGN section 3).

Ref   node objects (uninterpreted); fields id / content_id / origin are pure functions of the
      object (they are written only on fresh objects, property C10), class tag cls_of : Ref -> Cls
Cls   class objects, with the subclass relation (reflexive, transitive)
Fld   dataclasses.Field objects, fname : Fld -> str
Info  NodeTraversalInfo(node, parent, field, findex)      ChildPos (child, field, index)
kids(n) : Seq[ChildPos] is *defined* from the class definition; the accessors must equal it (C12)."""
from __future__ import annotations

from typing import Any

import z3

from pyvc.contract import Contract, Registry
from pyvc.maps import VMap, map_sort
from pyvc.specfn import SpecLib
from pyvc.symex import World
from pyvc.values import (BOOL, INT, STR, EngineError, V, VBool, VCls, VInt, VNone, VOpt, VPy, VRec, VSeq, VStr, VU,
                         opt_of, rec_sort, seq_of, usort)

M = "pyoak.node"


class NodeVocab:
    def __init__(self, world: World, lib: SpecLib) -> None:
        self.world, self.lib = world, lib
        self.REF = usort("Ref", truthy="unknown")
        self.CLS = usort("Cls")
        self.FLD = usort("Fld")
        self.ORIGIN = usort("OriginV")
        self.FN = usort("Fn")
        self.INFO = rec_sort("Info", [("node", self.REF), ("parent", self.REF), ("field", self.FLD), ("findex", opt_of(INT))],
                             pycls="NodeTraversalInfo", tuple_like=True)
        self.CPOS = rec_sort("ChildPos", [("child", self.REF), ("field", self.FLD), ("index", opt_of(INT))], tuple_like=True)
        R, C, F = self.REF.z3(), self.CLS.z3(), self.FLD.z3()
        self.f_id = z3.Function("Ref_id", R, z3.StringSort())
        self.f_cid = z3.Function("Ref_content_id", R, z3.StringSort())
        self.f_origin = z3.Function("Ref_origin", R, self.ORIGIN.z3())
        self.cls_of = z3.Function("cls_of", R, C)
        self.subclass = z3.Function("subclass", C, C, z3.BoolSort())
        self.cls_name = z3.Function("cls_name", C, z3.StringSort())
        self.fname = z3.Function("fname", F, z3.StringSort())
        self.truthy = z3.Function("truthy", R, z3.BoolSort())
        self.kids = lib.fn("kids", [self.REF], seq_of(self.CPOS))
        self.REG = map_sort(STR, self.REF)
        world.usort_class = getattr(world, "usort_class", {})
        world.usort_class["Ref"] = "ASTNode"
        world.class_parents.setdefault("ASTNode", ["DataClassSerializeMixin"])
        world.class_parents.setdefault("NodeTraversalInfo", [])
        world.class_module["ASTNode"] = M
        world.rec_of_class["NodeTraversalInfo"] = self.INFO
        world.attr_hooks.append(self._attr)
        world.isinstance_hooks.append(self._isinstance)
        world.truth_hooks.append(self._truth)
        world.call_hooks.append(self._call)
        # Python == on nodes is _eq_fn (content + origins), not identity; `x in seq_of_nodes` uses it too.
        # Only what every __eq__ gives is assumed: identical objects are equal.
        self.node_eq = z3.Function("node_eq", R, R, z3.BoolSort())
        self.contains_eq = z3.Function("contains_eq", z3.SeqSort(R), R, z3.BoolSort())

        def py_eq(m: Any, a: V, b: V) -> Any:
            if isinstance(a, VU) and isinstance(b, VU) and a.sort == self.REF and b.sort == self.REF:
                m.ctx.assume(z3.Implies(a.term == b.term, self.node_eq(a.term, b.term)))
                return self.node_eq(a.term, b.term)
            return None

        def py_in(m: Any, seq: V, x: V) -> Any:
            if isinstance(x, VU) and x.sort == self.REF and isinstance(seq, VSeq) and seq.sort.elem == self.REF:
                m.ctx.assume(z3.Implies(z3.Contains(seq.term, z3.Unit(x.term)), self.contains_eq(seq.term, x.term)))
                return self.contains_eq(seq.term, x.term)
            return None

        world.py_eq_hooks = getattr(world, "py_eq_hooks", []) + [py_eq]
        world.py_in_hooks = getattr(world, "py_in_hooks", []) + [py_in]
        world.consts["ASTNode"] = VU(z3.Const("ASTNode_cls", C), self.CLS)
        sf = world.spec_fns
        sf["reg_get"] = lambda m, k: VOpt(z3.Select(m.term, STR.coerce(k).term), self.REG.opt)
        sf["reg_remove"] = lambda m, k: VMap(z3.Store(m.term, STR.coerce(k).term, self.REG.opt.none().term), self.REG)
        sf["reg_set"] = lambda m, k, v: VMap(z3.Store(m.term, STR.coerce(k).term, self.REG.opt.some(v).term), self.REG)
        sf["registered"] = lambda m, n: VBool(z3.Select(m.term, self.f_id(self.REF.coerce(n).term)) == self.REG.opt.some(self.REF.coerce(n)).term)
        sf["cls_of"] = lambda n: VU(self.cls_of(self.ref(n)), self.CLS)
        sf["subclass"] = lambda a, b: VBool(self.subclass(a.term, b.term))
        sf["kids"] = self.kids
        sf["fname"] = lambda f: VStr(self.fname(f.term))

    def ref(self, n: V) -> Any:
        """Ref term of a spec argument; a literal None (possible only under a guard such as
        `implies(x is not None, ...)`) becomes an unconstrained dummy."""
        if isinstance(n, VNone):
            return z3.Const("none_dummy_ref", self.REF.z3())
        return self.REF.coerce(n).term

    # ---- hooks ----------------------------------------------------------------------------------
    def _attr(self, m: Any, obj: V, name: str) -> V | None:
        if isinstance(obj, VU) and obj.sort == self.REF:
            if name == "id":
                return VStr(self.f_id(obj.term))
            if name == "content_id":
                return VStr(self.f_cid(obj.term))
            if name == "origin":
                return VU(self.f_origin(obj.term), self.ORIGIN)
            if name == "__class__":
                return VU(self.cls_of(obj.term), self.CLS)
        if isinstance(obj, VU) and obj.sort == self.FLD and name == "name":
            return VStr(self.fname(obj.term))
        if isinstance(obj, VU) and obj.sort == self.CLS and name == "__name__":
            return VStr(self.cls_name(obj.term))
        return None

    def _isinstance(self, m: Any, v: V, cls: V) -> Any:
        if isinstance(v, VU) and v.sort == self.REF:
            if isinstance(cls, VU) and cls.sort == self.CLS:
                return self.subclass(self.cls_of(v.term), cls.term)
            if isinstance(cls, VCls) and cls.name in ("ASTNode", "object"):
                return z3.BoolVal(True)
            if isinstance(cls, VCls):
                return z3.BoolVal(False) if cls.name in ("tuple", "str", "int", "list", "Iterable") else None
        return None

    def _truth(self, m: Any, v: V) -> Any:
        if isinstance(v, VU) and v.sort == self.REF:
            return self.truthy(v.term)
        return None

    def _call(self, m: Any, func: V, args: list[V], kwargs: dict[str, V], node: Any) -> Any:
        if isinstance(func, VPy) and func.obj == ("builtin", "type") and len(args) == 1:
            a = args[0]
            if isinstance(a, VOpt) and a.sort.elem == self.REF:
                a = self.REF.coerce(a)  # narrowed by an earlier `is None` test
            if isinstance(a, VU) and a.sort == self.REF:
                return VU(self.cls_of(a.term), self.CLS)
        return NotImplemented

    def subclass_axioms(self, terms: list[Any]) -> list[Any]:
        ax = [self.subclass(t, t) for t in terms]
        return ax
