"""C02 (declaration obligations): equality of origins, positions and sources is the dataclass-generated field-wise __eq__.

Node equality (proved in contracts.node_eq) compares `origin` values with ==, so "origin at every position" only means
something if that == looks at every component.  For each dataclass of pyoak.origin this scan emits
  <Class>/eq-is-generated            the decorator is @dataclass without eq=False and the class body defines no __eq__ / __ne__
  <Class>.<field>/participates-in-eq the field is not excluded from comparison; the only fields that may be excluded are
                                     private caches (name starts with '_'), e.g. the raw text of a source
Discharge is syntactic (backend 'syntactic'), like the frame scan of C10; every class and field is an obligation of its own,
so a new exclusion is a new failing obligation."""
from __future__ import annotations

import ast
import time

from pyvc import extract

MOD = "pyoak.origin"


def _is_dataclass(c: ast.ClassDef) -> str | None:
    for d in c.decorator_list:
        s = ast.unparse(d)
        if s.startswith("dataclass"):
            return s
    return None


def scan() -> tuple[list[dict], dict[str, dict]]:
    mod = extract.load_module(MOD)
    obs: list[dict] = []
    meta: dict[str, dict] = {}

    def ob(name: str, ok: bool, why: str) -> None:
        obs.append({"name": name, "status": "discharged" if ok else "refuted", "backend": "syntactic", "seconds": 0.0, "kind": "declaration",
                    "model": "" if ok else why, "info": {"reason": why}})

    for c in mod.tree.body:
        if not isinstance(c, ast.ClassDef):
            continue
        deco = _is_dataclass(c)
        if deco is None:
            continue
        key = f"{MOD}:{c.name}"
        meta[key] = {"ast_hash": extract.fn_hash(c), "src_sha": mod.sha256}
        own_eq = [n.name for n in c.body if isinstance(n, ast.FunctionDef) and n.name in ("__eq__", "__ne__")]
        ob(f"{key}/eq-is-generated", "eq=False" not in deco.replace(" ", "") and not own_eq, f"decorator {deco}, own methods {own_eq}")
        for st in c.body:
            if isinstance(st, ast.AnnAssign) and isinstance(st.target, ast.Name):
                fname = st.target.id
                ann = ast.unparse(st.annotation)
                if "ClassVar" in ann:
                    continue
                excluded = False
                if isinstance(st.value, ast.Call) and ast.unparse(st.value.func) in ("field", "dataclasses.field"):
                    for kw in st.value.keywords:
                        if kw.arg == "compare" and not (isinstance(kw.value, ast.Constant) and kw.value.value is True):
                            excluded = True
                ob(f"{key}.{fname}/participates-in-eq", (not excluded) or fname.startswith("_"),
                   f"field {fname} is declared compare=False (only private cache fields may be excluded from origin equality)")
    return obs, meta


def run_custom(tier: str) -> list[dict]:
    obs, meta = scan()
    by: dict[str, list[dict]] = {}
    for o in obs:
        head = o["name"].split("/")[0]                      # pyoak.origin:Class  or  pyoak.origin:Class.field
        modname, rest = head.split(":")
        by.setdefault(f"{modname}:{rest.split('.')[0]}", []).append(o)
    out = []
    for key, lst in by.items():
        h = meta.get(key, {})
        out.append({"kind": "fn", "area": "contracts.decl_scan", "key": key, "fn": key, "status": "ok", "error": "", "paths": 1, "infeasible_paths": 0,
                    "src_sha": h.get("src_sha", ""), "fn_hash": h.get("ast_hash", ""), "canary": "n/a", "seconds": 0.0, "obligations": lst,
                    "sample_smt2": "", "props": ["C02"], "note": "declaration scan"})
    return out
