"""C04 (last clause): the source registry behind index-based ("optimized") source serialization.

Source._sources : dict[Source, int]  (insertion ordered; KEYS = its key list)      Source._source_idx_to_source : dict[int, Source]
Sources are frozen value objects (== and hash over class / uri / type, `_raw` excluded): a z3 element of SourceObj stands for an equality class, so
"the same source" below is Python ==.
Registry invariant  reg_inv(SRCS, KEYS, SIDX):
    forall j.  0 <= j < len(KEYS)  ->  SRCS[KEYS[j]] == j  and  SIDX[j] == KEYS[j]          (positions are indices, both tables agree)
    forall j.  not (0 <= j < len(KEYS))  ->  SIDX[j] is None
    forall s.  s in SRCS  ->  0 <= SRCS[s] < len(KEYS)  and  KEYS[SRCS[s]] == s
stated with the opaque quantified predicates of pyvc.qpred (keys: an index resp. a source).
Proved: __post_init__ keeps the invariant, leaves a registered source alone and appends a new one at index len; source_registry_id is the
position; list_registered_sources / all_as_dict enumerate KEYS in index order; lemma index-round-trip: under the invariant the index written by
_serialize (SRCS[s]) resolves, through the table _deserialize reads (SIDX), to s itself; load_serialized_sources registers every source of the dump, keeps the index of everything registered before, keeps the invariant.
Not provable, and false in general (open finding KF-C04-source-index-shift): that a loaded source gets the index it had when the dump was taken --
indices are positions in the local registry, so this holds only when the local registry was empty or held the same prefix (enumerated by rt.c04)."""
from __future__ import annotations

import z3

from pyvc.contract import Contract, Loop, Registry
from pyvc.core import mk_snoc
from pyvc.maps import map_sort
from pyvc.qpred import QPred, instantiator
from pyvc.specfn import SpecLib
from pyvc.symex import World
from pyvc.values import BOOL, INT, NONE, EngineError, VBool, VBound, VCls, VHeapRef, VInt, VOpt, VPy, VSeq, VU, opt_of, seq_of, usort
from pyvc.verify import Lemma

OM = "pyoak.origin"


def build():
    reg = Registry()
    world = World(reg)
    lib = SpecLib()
    SRC, PAY = usort("SourceObj"), usort("Payload")
    SS, SP = seq_of(SRC), seq_of(PAY)
    SM, IM = map_sort(SRC, INT), map_sort(INT, SRC)
    world.usort_class = {"SourceObj": "Source"}
    world.class_parents["Source"] = []
    world.class_module["Source"] = OM
    NO_SOURCE = SRC.fresh("NO_SOURCE")
    world.consts["NO_SOURCE"] = NO_SOURCE
    n_ = lambda K: z3.Length(K)
    inr = lambda K, j: z3.And(j >= 0, j < n_(K))
    some_i = lambda t: SM.opt.some(VInt(t)).term
    some_s = lambda t: IM.opt.some(SRC.wrap(t)).term
    by_index = QPred("registry_by_index", [SM.z3(), SS.z3(), IM.z3()], z3.IntSort(),
                     lambda a, j: z3.If(inr(a[1], j), z3.And(z3.Select(a[0], a[1][j]) == some_i(j), z3.Select(a[2], j) == some_s(a[1][j])),
                                        IM.opt.is_none(z3.Select(a[2], j))))
    by_source = QPred("registry_by_source", [SM.z3(), SS.z3()], SRC.z3(),
                      lambda a, s: z3.Implies(z3.Not(SM.opt.is_none(z3.Select(a[0], s))),
                                              z3.And(inr(a[1], SM.opt.val(z3.Select(a[0], s))), a[1][SM.opt.val(z3.Select(a[0], s))] == s)))
    
    sf = world.spec_fns
    as_dict_of = z3.Function("source_as_dict", SRC.z3(), PAY.z3())              # the ordinary (non-index) payload of a source
    src_of = z3.Function("source_of_payload", PAY.z3(), SRC.z3())               # what as_obj builds from it: a source == the serialized one
    dicts_of = lib.fn("dicts_of", [SS], SP)
    dicts_of.rule("dicts_of-empty", 0, "empty")(lambda a, p: z3.Empty(SP.z3()))
    dicts_of.rule("dicts_of-snoc", 0, "snoc")(lambda a, p: mk_snoc(dicts_of.t(p[0]), as_dict_of(p[1])))
    srcs_of = lib.fn("sources_of", [SP], SS)
    srcs_of.rule("sources_of-empty", 0, "empty")(lambda a, p: z3.Empty(SS.z3()))
    srcs_of.rule("sources_of-snoc", 0, "snoc")(lambda a, p: mk_snoc(srcs_of.t(p[0]), src_of(p[1])))
    srcs_of.rule("sources_of-concat", 0, "concat", "lemma")(lambda a, p: z3.Concat(srcs_of.t(p[0]), srcs_of.t(p[1])))
    all_reg = lib.fn("all_registered", [SM, SS], BOOL)
    all_reg.rule("all_registered-empty", 1, "empty")(lambda a, p: z3.BoolVal(True))
    all_reg.rule("all_registered-snoc", 1, "snoc")(lambda a, p: z3.And(all_reg.t(a[0], p[0]), z3.Not(SM.opt.is_none(z3.Select(a[0], p[1])))))
    # kept(S', S): every entry of S is an entry of S' (opaque; consequences: reflexive, transitive, elimination at the keys present, all_registered is monotone)
    kept = QPred("entries_kept", [SM.z3(), SM.z3()], SRC.z3(),
                 lambda a, s: z3.Implies(z3.Not(SM.opt.is_none(z3.Select(a[1], s))), z3.Select(a[0], s) == z3.Select(a[1], s)))

    lib.extra_instantiators.append(instantiator([by_index, by_source, kept]))

    def mono(formulas):
        # all_registered(S, q) and entries_kept(S', S)  ==>  all_registered(S', q)        (proved as lemma all_registered-mono, by induction on q)
        out, seen, stack, regs, keeps = [], set(), list(formulas), [], []
        while stack:
            f = stack.pop()
            if not z3.is_app(f) or f.get_id() in seen:
                continue
            seen.add(f.get_id())
            if f.decl().name() == "all_registered":
                regs.append(f)
            if f.decl().name() == "entries_kept":
                keeps.append(f)
            stack.extend(f.children())
        for r in regs:
            for k in keeps:
                if k.arg(1).eq(r.arg(0)):
                    out.append(z3.Implies(z3.And(r, k), all_reg.t(k.arg(0), r.arg(1))))
        return out

    mono.encodes = {"all_registered-mono"}
    lib.extra_instantiators.append(mono)

    def keys_of(m, g):
        return m.ctx.cell(m.global_syms[g].addr).extra["keys"]

    sf.update({"reg_by_index": lambda S, K, I: VBool(by_index.t(S.term, K.term, I.term)), "reg_by_source": lambda S, K: VBool(by_source.t(S.term, K.term)),
               "mget": lambda mp, k: VOpt(z3.Select(mp.term, mp.sort.key.coerce(k).term), mp.sort.opt),
               "dicts_of": dicts_of, "sources_of": srcs_of, "all_registered": all_reg,
               "entries_kept": lambda S1, S0: VBool(kept.t(S1.term, S0.term)),
               "source_as_dict": lambda s: PAY.wrap(as_dict_of(s.term)), "source_of_payload": lambda d: SRC.wrap(src_of(d.term)),
               "is_in": lambda K, s: VBool(z3.Contains(K.term, z3.Unit(SRC.coerce(s).term)))})

    def attr(m, obj, name):
        if isinstance(obj, VCls) and obj.name in ("Source", "cls_Source"):
            if name == "_sources":
                return m.global_syms["SRCS"]
            if name == "_source_idx_to_source":
                return m.global_syms["SIDX"]
            if name == "as_obj":
                return VPy(("contract", f"{OM}:Source.as_obj"))
        if isinstance(obj, VPy) and obj.obj == "cls" and name in ("_sources", "_source_idx_to_source"):
            return m.global_syms["SRCS" if name == "_sources" else "SIDX"]
        if isinstance(obj, VU) and obj.sort == SRC and name == "as_dict":
            return VBound(obj, "as_dict")
        return None

    def call(m, func, a, kw, nd):
        if isinstance(func, VBound) and isinstance(func.recv, VU) and func.recv.sort == SRC and func.name == "as_dict":
            return PAY.wrap(as_dict_of(func.recv.term))
        if isinstance(func, VPy) and func.obj == ("setattr",) and isinstance(a[0], VPy) and a[0].obj == "cls" and a[1].obj in ("_sources", "_source_idx_to_source"):
            g_ = "SRCS" if a[1].obj == "_sources" else "SIDX"
            if not isinstance(a[2], VHeapRef):
                raise EngineError("registry table replaced by something that is not a dict display")
            m.global_syms[g_] = a[2]
            return NONE
        if isinstance(func, VPy) and func.obj == ("contract", f"{OM}:Source.as_obj"):
            return m.call_contract(f"{OM}:Source.as_obj", a, kw)
        return NotImplemented

    world.attr_hooks.insert(0, attr)
    world.call_hooks.insert(0, call)
    world.name_hooks.append(lambda m, n: VCls("Source") if n == "Source" else None)
    world.comp_hooks = {"source.as_dict(mashumaro_dialect=mashumaro_dialect) for source in": lambda m, sv, gen, e: SP.wrap(dicts_of.t(sv.term))}
    G = {"SRCS": "ODict[SourceObj,int]", "SIDX": "Dict[int,SourceObj]"}
    INV1, INV2 = "reg_by_index(SRCS, keys_of(SRCS), SIDX)", "reg_by_source(SRCS, keys_of(SRCS))"
    A = reg.add
    P = ["C04"]
    APPEND = ["implies(mget(old(SRCS), self) is not None, SRCS == old(SRCS) and keys_of(SRCS) == keys_of(old(SRCS)) and SIDX == old(SIDX))",
              "implies(mget(old(SRCS), self) is None, keys_of(SRCS) == keys_of(old(SRCS)) + [self] and mget(SRCS, self) == len(keys_of(old(SRCS))))"]
    A(Contract(f"{OM}:Source.__post_init__", params={"self": "SourceObj"}, globals=G, modifies=["SRCS", "SIDX"], props=P,
               requires=[INV1, INV2], ensures=[INV1, INV2, "entries_kept(SRCS, old(SRCS))", "mget(SRCS, self) is not None"] + APPEND,
               note="a source equal to a registered one is left alone; a new one is appended at index len(registry) in both tables; the registry invariant is kept"))
    A(Contract(f"{OM}:Source.source_registry_id", params={"self": "SourceObj"}, returns="int", globals=G, props=P,
               requires=[INV1, INV2, "mget(SRCS, self) is not None"], ensures=["result == mget(SRCS, self)", "keys_of(SRCS)[result] == self", "mget(SIDX, result) == self"],
               note="property -- the position of the source in the registry; both tables agree on it"))
    A(Contract(f"{OM}:Source.list_registered_sources", params={"cls": "py:cls", "exclude_no_source": "bool"}, returns="Seq[SourceObj]", globals=G, props=P,
               ensures=["implies(exclude_no_source, result == keys_of(SRCS))", "implies(not exclude_no_source, result == keys_of(SRCS) + [NO_SOURCE])"],
               note="the registered sources in index order (plus the NoSource singleton unless excluded)"))
    A(Contract(f"{OM}:NoSource.__post_init__", params={"self": "SourceObj"}, globals=G, props=P,
               ensures=["keys_of(SRCS) == keys_of(old(SRCS))", "mget(SRCS, self) == mget(old(SRCS), self)"],
               note="the NoSource singleton overrides registration with a no-op: it never enters the source registry (and reports the index -1)"))
    A(Contract(f"{OM}:NoSource.source_registry_id", params={"self": "SourceObj"}, returns="int", globals=G, props=P, ensures=["result == -1"], note="property"))
    A(Contract(f"{OM}:Source.clear_registry", params={"cls": "py:cls"}, globals=G, modifies=["SRCS", "SIDX"], props=P,
               locals={"._sources": "ODict[SourceObj,int]", "._source_idx_to_source": "Dict[int,SourceObj]"},
               ensures=["len(keys_of(SRCS)) == 0", INV1, INV2], note="both tables are replaced by empty ones (the invariant holds trivially)"))
    A(Contract(f"{OM}:Source.all_as_dict", params={"mashumaro_dialect": "py:dialect"}, returns="Seq[Payload]", globals=G, props=P,
               ensures=["result == dicts_of(keys_of(SRCS))"], note="the ordinary payload of every registered source, in index order"))
    A(Contract(f"{OM}:Source.as_obj", params={"value": "Payload"}, returns="SourceObj", globals=G, modifies=["SRCS", "SIDX"], props=P, trusted=True,
               trusted_reason="mashumaro from_dict of a source payload: constructs a source == the serialized one (source_of_payload); its __post_init__ runs once, with the effect "
                              "proved above",
               requires=[INV1, INV2],
               ensures=[INV1, INV2, "result == source_of_payload(value)", "entries_kept(SRCS, old(SRCS))", "mget(SRCS, result) is not None",
                        "implies(mget(old(SRCS), result) is not None, SRCS == old(SRCS) and keys_of(SRCS) == keys_of(old(SRCS)) and SIDX == old(SIDX))",
                        "implies(mget(old(SRCS), result) is None, keys_of(SRCS) == keys_of(old(SRCS)) + [result] and mget(SRCS, result) == len(keys_of(old(SRCS))))"]))
    A(Contract(f"{OM}:Source.load_serialized_sources", params={"sources": "Seq[Payload]"}, globals=G, modifies=["SRCS", "SIDX"], props=P,
               requires=[INV1, INV2],
               ensures=[INV1, INV2, "all_registered(SRCS, sources_of(sources))", "entries_kept(SRCS, old(SRCS))"],
               loops={1: Loop(inv=[INV1, INV2, "all_registered(SRCS, sources_of(done1))", "entries_kept(SRCS, old(SRCS))", "seq1 == old(sources)"])},
               note="afterwards every source of the dump is registered, what was registered before keeps its index, and the registry invariant holds. Which index a newly "
                    "loaded source gets is its position in the *local* registry: equal to its index when the dump was taken only if the local registry was empty (or "
                    "held the same prefix) -- with other sources registered first the indices shift and index payloads resolve to other sources "
                    "(open finding KF-C04-source-index-shift; the aligned case is enumerated by rt.c04)"))
    world.trusted_notes.append("sources are value objects: one SourceObj element stands for a class of == sources; Source._sources is insertion ordered (ODict model: "
                               "key list + map); source_of_payload(source_as_dict(s)) == s is mashumaro's round trip of a flat dataclass (bounded: rt.c04)")
    # ---- lemmas over the contracts -----------------------------------------------------------------------------------------
    S_, K_, I_ = z3.Const("S_l", SM.z3()), z3.Const("K_l", SS.z3()), z3.Const("I_l", IM.z3())
    s_ = z3.Const("s_l", SRC.z3())
    S2_ = z3.Const("S2_l", SM.z3())

    def round_trip(bank):
        # the index _serialize writes for a registered source resolves, through the table _deserialize reads, to that source
        hyps = [by_index.t(S_, K_, I_), by_source.t(S_, K_), z3.Not(SM.opt.is_none(z3.Select(S_, s_)))]
        return hyps, z3.Select(I_, SM.opt.val(z3.Select(S_, s_))) == some_s(s_)

    x_, r_ = z3.Const("x_l", SRC.z3()), z3.Const("r_l", SS.z3())
    q_ = z3.Const("q_l", SS.z3())
    E = z3.Empty(SS.z3())
    p1, p2, pe = z3.Const("p1_l", SP.z3()), z3.Const("p2_l", SP.z3()), z3.Const("pe_l", PAY.z3())
    EP = z3.Empty(SP.z3())
    lem = [Lemma("index-round-trip", [("direct", round_trip)], P),
           Lemma("sources_of-concat", [("base", lambda bank: ([], srcs_of.t(z3.Concat(p1, EP)) == z3.Concat(srcs_of.t(p1), srcs_of.t(EP)))),
                                       ("step", lambda bank: ([srcs_of.t(z3.Concat(p1, p2)) == z3.Concat(srcs_of.t(p1), srcs_of.t(p2))],
                                                              srcs_of.t(mk_snoc(z3.Concat(p1, p2), pe)) == z3.Concat(srcs_of.t(p1), srcs_of.t(mk_snoc(p2, pe)))))], P),
           Lemma("all_registered-mono", [("base", lambda bank: ([kept.t(S2_, S_)], z3.Implies(all_reg.t(S_, E), all_reg.t(S2_, E)))),
                                         ("step", lambda bank: ([kept.t(S2_, S_), z3.Implies(all_reg.t(S_, r_), all_reg.t(S2_, r_))],
                                                                z3.Implies(all_reg.t(S_, mk_snoc(r_, x_)), all_reg.t(S2_, mk_snoc(r_, x_)))))], P)]
    return world, lib, reg, lem
