"""C12 (to_properties_dict): the dictionary of a node's properties is exactly what get_properties() yields with its default flags,
keyed by field name, in that order.  Field names of one class are distinct (precondition)."""
from __future__ import annotations

import z3

from pyvc.contract import Contract, Loop, Registry
from pyvc.core import mk_snoc
from pyvc.maps import map_sort
from pyvc.specfn import SpecLib
from pyvc.symex import World
from pyvc.values import BOOL, STR, VBool, VStr, VU, rec_sort, seq_of, usort
from pyvc.verify import Lemma

from .node_common import M, NodeVocab


def build():
    reg = Registry()
    world = World(reg)
    lib = SpecLib()
    nv = NodeVocab(world, lib)
    REF, FLD = nv.REF, nv.FLD
    PV = usort("PVal")
    PP = rec_sort("PropPos", [("val", PV), ("field", FLD)], tuple_like=True)
    SPP, SS = seq_of(PP), seq_of(STR)
    DM = map_sort(STR, PV)
    props_of = lib.fn("default_properties", [REF], SPP)       # get_properties() with its default flags (proved per class under C12)
    pmap, pkeys = lib.fn("props_map", [SPP], DM), lib.fn("props_names", [SPP], SS)
    nodup = lib.fn("distinct_prop_names", [SPP], BOOL)
    has = lib.fn("has_prop_name", [SPP, STR], BOOL)
    nm = lambda p: nv.fname(PP.get(PP.wrap(p).term, "field").term)
    vl = lambda p: PP.get(PP.wrap(p).term, "val").term
    pmap.rule("props_map-empty", 0, "empty")(lambda a, p: DM.empty().term)
    pmap.rule("props_map-snoc", 0, "snoc")(lambda a, p: z3.Store(pmap.t(p[0]), nm(p[1]), DM.opt.some(PV.wrap(vl(p[1]))).term))
    pkeys.rule("props_names-empty", 0, "empty")(lambda a, p: z3.Empty(SS.z3()))
    pkeys.rule("props_names-snoc", 0, "snoc")(lambda a, p: mk_snoc(pkeys.t(p[0]), nm(p[1])))
    has.rule("has_prop_name-empty", 0, "empty")(lambda a, p: z3.BoolVal(False))
    has.rule("has_prop_name-snoc", 0, "snoc")(lambda a, p: z3.Or(has.t(p[0], a[1]), nm(p[1]) == a[1]))
    nodup.rule("distinct_prop_names-empty", 0, "empty")(lambda a, p: z3.BoolVal(True))
    nodup.rule("distinct_prop_names-snoc", 0, "snoc")(lambda a, p: z3.And(nodup.t(p[0]), z3.Not(has.t(p[0], nm(p[1])))))
    nodup.rule("distinct_prop_names-prefix", 0, "concat", "lemma", raw=True)(lambda a, p: z3.Implies(nodup.t(z3.Concat(p[0], p[1])), nodup.t(p[0])))
    # a name that no processed property has is not yet a key (pointwise consequence of props_map's definition, proved below by induction)
    absent = lambda s_, k: DM.opt.is_none(z3.Select(pmap.t(s_), k))

    def absent_instances(formulas):
        out, seen, stack = [], set(), list(formulas)
        maps, keys = [], {}
        while stack:
            f = stack.pop()
            if not z3.is_app(f) or f.get_id() in seen:
                continue
            seen.add(f.get_id())
            if f.decl().name() == "props_map":
                maps.append(f)
            if f.decl().kind() in (z3.Z3_OP_STORE, z3.Z3_OP_SELECT) and f.arg(0).sort() == DM.z3():
                keys[f.arg(1).get_id()] = f.arg(1)
            stack.extend(f.children())
        for mp in maps:
            for k in keys.values():
                out.append(z3.Implies(z3.Not(has.t(mp.arg(0), k)), absent(mp.arg(0), k)))
        return out

    lib.extra_instantiators.append(absent_instances)
    sf = world.spec_fns
    sf.update({"default_properties": props_of, "props_map": pmap, "props_names": pkeys, "distinct_prop_names": nodup})
    A = reg.add
    P = ["C12"]
    A(Contract(f"{M}:ASTNode.get_properties", params={"self": "Ref"}, returns="Seq[PropPos]", props=P, trusted=True,
               trusted_reason="the generated accessor with its default flags, proved per class under C12 (layer 2)", ensures=["result == default_properties(self)"]))
    A(Contract(f"{M}:ASTNode.to_properties_dict", params={"self": "Ref"}, returns="ODict[str,PVal]", props=P, locals={"d": "ODict[str,PVal]"},
               requires=["distinct_prop_names(default_properties(self))"],
               ensures=["result == props_map(default_properties(self))", "keys_of(result) == props_names(default_properties(self))"],
               loops={1: Loop(inv=["d == props_map(done1)", "keys_of(d) == props_names(done1)", "distinct_prop_names(seq1)", "seq1 == default_properties(self)"])},
               note="one entry per property that get_properties() yields with its default flags: field name -> value, in that order"))
    a_, b_, y_ = z3.Const("a_pd", SPP.z3()), z3.Const("b_pd", SPP.z3()), z3.Const("y_pd", PP.z3())
    k_ = z3.Const("k_pd", z3.StringSort())

    def nb(bank):
        return [], z3.Implies(nodup.t(z3.Concat(a_, z3.Empty(SPP.z3()))), nodup.t(a_))

    def ns(bank):
        ih = z3.Implies(nodup.t(z3.Concat(a_, b_)), nodup.t(a_))
        whole = z3.Concat(a_, mk_snoc(b_, y_))
        bank.add(whole, ("snoc", z3.Concat(a_, b_), y_))
        return [ih], z3.Implies(nodup.t(whole), nodup.t(a_))

    def ab(bank):
        return [], z3.Implies(z3.Not(has.t(z3.Empty(SPP.z3()), k_)), absent(z3.Empty(SPP.z3()), k_))

    def as_(bank):
        ih = z3.Implies(z3.Not(has.t(a_, k_)), absent(a_, k_))
        whole = mk_snoc(a_, y_)
        bank.add(whole, ("snoc", a_, y_))
        return [ih], z3.Implies(z3.Not(has.t(whole, k_)), absent(whole, k_))
    return world, lib, reg, [Lemma("distinct_prop_names-prefix", [("base", nb), ("step", ns)], P), Lemma("props_map-absent", [("base", ab), ("step", as_)], P)]
