"""C16 (the per-object hooks): DataClassSerializeMixin.__post_serialize__, ._serialize, ._deserialize and Source._serialize.

__post_serialize__(d) builds the mapping every nested object contributes.  d is an insertion-ordered dict with key list
keys(d) (distinct, not containing the type key -- dataclass field names); with the current options
  skip   = options.get(SKIP_CLASS, False)          sort = options.get(SORT_KEYS, False)
the result has   keys == ([TYPE_KEY] unless skip) ++ (sorted(keys(d)) if sort else keys(d))
and              value(TYPE_KEY) == the class name,  value(k) == d[k] for every k of d       (pointwise, ghost key k).
sorted_keys is an uninterpreted function of the key list that keeps it a duplicate-free list of the same keys
(Python's sorted on strings: a permutation in ascending order; the order itself is checked natively by rt.c16)."""
from __future__ import annotations

import ast

import z3

from pyvc.contract import Contract, Loop, Registry
from pyvc.core import mk_snoc
from pyvc.maps import VMap, map_sort
from pyvc.specfn import SpecLib
from pyvc.symex import RaiseSig, World
from pyvc.values import BOOL, NONE, STR, EngineError, V, VBool, VBound, VCls, VExc, VHeapRef, VOpt, VPy, VRec, VSeq, VStr, VU, fresh_name, opt_of, rec_sort, seq_of, usort
from pyvc.verify import Lemma

M = "pyoak.serialize"
C = "DataClassSerializeMixin"


def build():
    reg = Registry()
    world = World(reg)
    lib = SpecLib()
    OBJ, PV, OPTS, DIA, CLSO = usort("SerObj"), usort("PyVal"), usort("Opts"), usort("Dialect"), usort("ClassObj")
    ODIA, OCLS = opt_of(DIA), opt_of(CLSO)
    SS = seq_of(STR)
    DM = map_sort(STR, PV)
    OPV = DM.opt
    ITEM = rec_sort("DictItem", [("k", STR), ("v", PV)], tuple_like=True)
    SI = seq_of(ITEM)
    world.usort_class = {"SerObj": C}
    world.class_parents[C] = []
    world.class_module[C] = M
    opt_flag = z3.Function("option_flag", OPTS.z3(), z3.StringSort(), z3.BoolSort())        # options.get(name, False), as a bool
    cls_name = z3.Function("class_name_of", OBJ.z3(), z3.StringSort())
    name_val = z3.Function("str_value", z3.StringSort(), PV.z3())                            # a str as a dict value
    sorted_keys = z3.Function("sorted_keys", SS.z3(), SS.z3())
    TYPE_KEY = z3.StringVal("__type")
    world.consts["TYPE_KEY"] = VStr("__type")
    nodup = lib.fn("distinct_keys", [SS], BOOL)
    nodup.rule("distinct_keys-empty", 0, "empty")(lambda a, p: z3.BoolVal(True))
    nodup.rule("distinct_keys-snoc", 0, "snoc")(lambda a, p: z3.And(nodup.t(p[0]), z3.Not(z3.Contains(p[0], z3.Unit(p[1])))))
    nodup.rule("distinct_keys-prefix", 0, "concat", "lemma", raw=True)(lambda a, p: z3.Implies(nodup.t(z3.Concat(p[0], p[1])), nodup.t(p[0])))
    # dom_is(m, ks): the keys present in m are exactly the members of ks  (forall k. k in m <=> k in ks)
    dom_is = z3.Function("keys_are_exactly", DM.z3(), SS.z3(), z3.BoolSort())
    present = lambda mp, k: z3.Not(OPV.is_none(z3.Select(mp, k)))
    items_of = lib.fn("items_in_order", [DM, SS], SI)          # [(k, m[k]) for k in ks]
    items_of.rule("items-empty", 1, "empty")(lambda a, p: z3.Empty(SI.z3()))
    items_of.rule("items-cons", 1, "cons")(lambda a, p: z3.Concat(z3.Unit(ITEM.mk(STR.wrap(p[0]), PV.wrap(OPV.val(z3.Select(a[0], p[0])))).term), items_of.t(a[0], p[1])))
    items_of.rule("items-snoc", 1, "snoc", "lemma")(lambda a, p: mk_snoc(items_of.t(a[0], p[0]), ITEM.mk(STR.wrap(p[1]), PV.wrap(OPV.val(z3.Select(a[0], p[1])))).term))
    keys_of_items = lib.fn("keys_of_items", [SI], SS)
    keys_of_items.rule("koi-empty", 0, "empty")(lambda a, p: z3.Empty(SS.z3()))
    keys_of_items.rule("koi-snoc", 0, "snoc")(lambda a, p: mk_snoc(keys_of_items.t(p[0]), ITEM.get(ITEM.wrap(p[1]).term, "k").term))
    sf = world.spec_fns
    sf.update({"distinct_keys": nodup, "items_in_order": items_of, "keys_of_items": keys_of_items,
               "sorted_keys": lambda s_: SS.wrap(sorted_keys(SS.coerce(s_).term)),
               "option_flag": lambda o, n: VBool(opt_flag(o.term, STR.coerce(n).term)), "class_name_of": lambda o: VStr(cls_name(o.term)),
               "str_value": lambda s_: PV.wrap(name_val(STR.coerce(s_).term)),
               "keys_are_exactly": lambda mp, ks: VBool(dom_is(mp.term, SS.coerce(ks).term)),
               "has_key": lambda ks, k: VBool(z3.Contains(SS.coerce(ks).term, z3.Unit(STR.coerce(k).term)))})

    def dom_instances(formulas):
        out, seen, stack = [], set(), list(formulas)
        apps, keys = [], {}
        while stack:
            f = stack.pop()
            if not z3.is_app(f) or f.get_id() in seen:
                continue
            seen.add(f.get_id())
            if f.decl().name() == "keys_are_exactly":
                apps.append(f)
            if f.decl().kind() in (z3.Z3_OP_STORE, z3.Z3_OP_SELECT) and f.arg(0).sort() == DM.z3():
                keys[f.arg(1).get_id()] = f.arg(1)
            if f.decl().kind() == z3.Z3_OP_SEQ_UNIT and f.arg(0).sort() == z3.StringSort():
                keys[f.arg(0).get_id()] = f.arg(0)
            stack.extend(f.children())
        done = set()

        def emit(x):
            if x.get_id() not in done:
                done.add(x.get_id())
                out.append(x)
        for ap in apps:
            mp, ks = ap.arg(0), ap.arg(1)
            if z3.is_app(mp) and mp.decl().kind() == z3.Z3_OP_CONST_ARRAY:
                emit(z3.Implies(z3.And(OPV.is_none(mp.arg(0)), z3.Length(ks) == 0), ap))                                   # D-empty
            if z3.is_app(mp) and mp.decl().kind() == z3.Z3_OP_STORE:
                base, k, v = mp.arg(0), mp.arg(1), mp.arg(2)
                if z3.is_app(ks) and ks.decl().kind() == z3.Z3_OP_SEQ_CONCAT and ks.num_args() == 2 and ks.arg(1).decl().kind() == z3.Z3_OP_SEQ_UNIT:
                    emit(z3.Implies(z3.And(dom_is(base, ks.arg(0)), ks.arg(1).arg(0) == k, z3.Not(OPV.is_none(v))), ap))   # D-store-new
                if z3.is_app(ks) and ks.decl().kind() == z3.Z3_OP_SEQ_UNIT:
                    e0 = z3.Empty(SS.z3())
                    emit(z3.Implies(z3.And(dom_is(base, e0), ks.arg(0) == k, z3.Not(OPV.is_none(v))), ap))                 # D-store-new on the empty list
                    if z3.is_app(base) and base.decl().kind() == z3.Z3_OP_CONST_ARRAY:
                        emit(z3.Implies(OPV.is_none(base.arg(0)), dom_is(base, e0)))
                emit(z3.Implies(z3.And(dom_is(base, ks), present(base, k), z3.Not(OPV.is_none(v))), ap))                    # D-store-present
            for k in keys.values():
                emit(z3.Implies(ap, present(mp, k) == z3.Contains(ks, z3.Unit(k))))                                        # D-elim
        return out

    lib.extra_instantiators.append(dom_instances)

    # ---- the `d` argument and the `out` dict: insertion-ordered dicts; the options object ---------------------------------
    def attr(m, obj, name):
        if isinstance(obj, VU) and obj.sort == OPTS and name == "get":
            return VBound(obj, "get")
        if isinstance(obj, VU) and obj.sort == OBJ and name == "__class__":
            return VPy(("class_of", obj))
        if isinstance(obj, VPy) and isinstance(obj.obj, tuple) and obj.obj[0] == "class_of" and name == "__name__":
            return VStr(cls_name(obj.obj[1].term))
        if isinstance(obj, VCls) and obj.name == "SerializationOption" and name in ("SKIP_CLASS", "SORT_KEYS"):
            return VStr({"SKIP_CLASS": "skip_class", "SORT_KEYS": "sort_keys"}[name])
        if isinstance(obj, VHeapRef) and m.ctx.cell(obj.addr).kind == "dict" and name in ("items", "update"):
            return VBound(obj, name)
        return None

    def call(m, func, a, kw, nd):
        if isinstance(func, VPy) and func.obj == ("itemgetter",):
            return VPy(("itemgetter-of", a[0]))
        if isinstance(func, VBound) and isinstance(func.recv, VU) and func.recv.sort == OPTS and func.name == "get":
            if len(a) == 2 and isinstance(a[1], VBool) and z3.is_false(a[1].term):
                return VBool(opt_flag(func.recv.term, STR.coerce(a[0]).term))
            raise EngineError("options.get with a default other than False")
        if isinstance(func, VBound) and isinstance(func.recv, VHeapRef) and m.ctx.cell(func.recv.addr).kind == "dict":
            cell = m.ctx.cell(func.recv.addr)
            if func.name == "items":
                return VPy(("dict_items", cell))
            if func.name == "update" and len(a) == 1 and isinstance(a[0], VHeapRef) and m.ctx.cell(a[0].addr).kind == "dict":
                # out.update(d) where no key of d is present in out (obligation, for an arbitrary key w of d): the keys of d are appended in d's order,
                # every key of d maps to d's value, every other key keeps its value
                src = m.ctx.cell(a[0].addr)
                w = z3.Const(fresh_name("w_update"), z3.StringSort())
                m.ctx.assume(z3.Contains(src.extra["keys"].term, z3.Unit(w)))
                m.ctx.check(z3.Not(present(cell.value.term, w)), f"{m.contract.key}/update/keys-of-the-argument-are-new", "model")
                kq = z3.Const("k_merge", z3.StringSort())
                merged = z3.Lambda([kq], z3.If(present(src.value.term, kq), z3.Select(src.value.term, kq), z3.Select(cell.value.term, kq)))
                newkeys = z3.Concat(cell.extra["keys"].term, src.extra["keys"].term)
                m.ctx.assume(z3.Implies(z3.And(dom_is(cell.value.term, cell.extra["keys"].term), dom_is(src.value.term, src.extra["keys"].term)), dom_is(merged, newkeys)))
                cell.value, cell.extra["keys"] = VMap(merged, DM), SS.wrap(newkeys)
                return NONE
        if isinstance(func, VPy) and func.obj == ("builtin", "sorted") and len(a) == 1 and isinstance(a[0], VPy) and isinstance(a[0].obj, tuple) and a[0].obj[0] == "dict_items" and "key" in kw:
            if ast.unparse(nd.keywords[0].value) != "itemgetter(0)":
                raise EngineError("sorted() with a key other than itemgetter(0)")
            src = a[0].obj[1]
            tmp = m.ctx.alloc("dict", src.value, {"keys": SS.wrap(sorted_keys(src.extra["keys"].term))})
            return VPy(("dict_items", m.ctx.cell(tmp)))
        return NotImplemented

    def coerce(m, v, sname):
        if sname == "PyVal" and isinstance(v, VStr):
            return PV.wrap(name_val(v.term))
        return None

    world.attr_hooks.insert(0, attr)
    world.call_hooks.insert(0, call)
    world.coerce_hooks = [coerce]
    world.name_hooks.append(lambda m, n: VCls(n) if n in ("SerializationOption",) else (VPy(("itemgetter",)) if n == "itemgetter" else None))
    A = reg.add
    P = ["C16"]
    A(Contract(f"{M}:{C}._get_serialization_options", params={"self": "SerObj"}, returns="Opts", props=P, trusted=True, globals={"OPTS": "Opts"},
               trusted_reason="proved in contracts.serialize_opts: returns the class-level option slot", ensures=["result == OPTS"]))
    SKIP, SORT = "option_flag(OPTS, 'skip_class')", "option_flag(OPTS, 'sort_keys')"
    TAIL = f"(sorted_keys(keys_of(d)) if {SORT} else keys_of(d))"
    A(Contract(f"{M}:{C}.__post_serialize__", params={"self": "SerObj", "d": "ODict[str,PyVal]"}, returns="ODict[str,PyVal]", props=P, globals={"OPTS": "Opts"},
               ghost={"gk": "str"}, locals={"out": "ODict[str,PyVal]"},
               requires=["keys_are_exactly(d, keys_of(d))", "distinct_keys(keys_of(d))", "not has_key(keys_of(d), '__type')",
                         "distinct_keys(sorted_keys(keys_of(d)))", "not has_key(sorted_keys(keys_of(d)), '__type')", "keys_are_exactly(d, sorted_keys(keys_of(d)))"],
               ensures=[f"implies(not {SKIP}, keys_of(result) == ['__type'] + {TAIL})", f"implies({SKIP}, keys_of(result) == {TAIL})",
                        f"implies(gk == '__type' and not {SKIP}, gk in result and result[gk] == str_value(class_name_of(self)))",
                        f"implies(gk == '__type' and {SKIP}, gk not in result)",
                        "implies(has_key(keys_of(d), gk), gk in result and result[gk] == d[gk])",
                        "implies(not has_key(keys_of(d), gk) and gk != '__type', gk not in result)"],
               loops={1: Loop(inv=[f"implies(not {SKIP}, keys_of(out) == ['__type'] + done1)", f"implies({SKIP}, keys_of(out) == done1)", "keys_are_exactly(out, keys_of(out))",
                                   "seq1 == sorted_keys(keys_of(d))",
                                   f"implies(gk == '__type' and not {SKIP}, gk in out and out[gk] == str_value(class_name_of(self)))",
                                   f"implies(gk == '__type' and {SKIP}, gk not in out)",
                                   "implies(has_key(done1, gk), gk in out and out[gk] == d[gk])",
                                   "implies(not has_key(done1, gk) and gk != '__type', gk not in out)"])},
               note="the type tag first (unless suppressed), then the keys of d -- in sorted order with key sorting, in d's own order otherwise -- each with d's value; nothing else. "
                    "Preconditions are the shape of a mashumaro field dict: distinct keys, none of them the type key; sorted_keys is assumed to return a duplicate-free list of the same keys"))
    # ---- ASTNode.__post_serialize__: with no AST dialect option the node contributes exactly what the mixin builds -------------------------------
    dialect_code = z3.Function("ast_dialect_option", OPTS.z3(), z3.IntSort())      # 0: the option is absent (or neither member), 1: AST_EXPLORER, 2: AST_TEST
    DCODE = {"AST_EXPLORER": 1, "AST_TEST": 2}
    sf["no_ast_dialect"] = lambda o: VBool(z3.And(dialect_code(o.term) != 1, dialect_code(o.term) != 2))
    world.consts["AST_SERIALIZE_DIALECT_KEY"] = VStr("ast_serialize_dialect")

    def attr_n(m, obj, name):
        if isinstance(obj, VCls) and obj.name == "ASTSerializationDialects" and name in DCODE:
            return VPy(("dialect_const", DCODE[name]))
        if isinstance(obj, VPy) and isinstance(obj.obj, tuple) and obj.obj[0] == "super2" and name == "__post_serialize__":
            return VPy(("super_post_serialize", obj.obj[1]))
        return None

    def call_n(m, func, a, kw, nd):
        if isinstance(func, VPy) and func.obj == ("builtin", "super") and len(a) == 2:
            return VPy(("super2", a[1]))
        if isinstance(func, VPy) and isinstance(func.obj, tuple) and func.obj[0] == "super_post_serialize":
            return m.call_contract(f"{M}:{C}.__post_serialize__", [func.obj[1]] + a, kw)
        if isinstance(func, VBound) and isinstance(func.recv, VU) and func.recv.sort == OPTS and func.name == "get" and len(a) == 1 \
                and isinstance(a[0], VStr) and z3.is_string_value(a[0].term) and a[0].term.as_string() == "ast_serialize_dialect":
            return VPy(("dialect_value", func.recv.term))
        return NotImplemented

    def eq_n(m, x, y):
        for p_, q_ in ((x, y), (y, x)):
            if isinstance(p_, VPy) and isinstance(p_.obj, tuple) and p_.obj[0] == "dialect_value" and isinstance(q_, VPy) and isinstance(q_.obj, tuple) and q_.obj[0] == "dialect_const":
                return dialect_code(p_.obj[1]) == q_.obj[1]
        return None

    world.attr_hooks.insert(0, attr_n)
    world.call_hooks.insert(0, call_n)
    world.eq_hooks.insert(0, eq_n)
    world.name_hooks.append(lambda m, n: VCls(n) if n in ("ASTSerializationDialects", "ASTNode") else None)
    mixin = reg.contracts[f"{M}:{C}.__post_serialize__"]
    A(Contract("pyoak.node:ASTNode.__post_serialize__", params={"self": "SerObj", "d": "ODict[str,PyVal]"}, returns="ODict[str,PyVal]", props=P + ["C04"], globals={"OPTS": "Opts"},
               ghost={"gk": "str"}, requires=list(mixin.requires) + ["no_ast_dialect(OPTS)"], ensures=list(mixin.ensures),
               note="without one of the two AST dialect options (AST explorer: a `_children` list is added; AST test: the origin's source is blanked) a node contributes exactly "
                    "the mapping DataClassSerializeMixin.__post_serialize__ builds -- type tag, then the field dict -- so what is read back is what was written"))
    # ---- the mixin's _serialize / _deserialize and Source._serialize ------------------------------------------------------------
    PAY = usort("Payload")
    to_dict = z3.Function("mashumaro_to_dict", OBJ.z3(), ODIA.z3(), PAY.z3())
    from_dict = z3.Function("mashumaro_from_dict", CLSO.z3(), PAY.z3(), ODIA.z3(), OBJ.z3())
    types_get = z3.Function("TYPES_get", z3.StringSort(), OCLS.z3())
    tag_of = z3.Function("payload_type_tag", PAY.z3(), opt_of(STR).z3())      # value.get(TYPE_KEY) when it is a str, else None
    sf.update({"mashumaro_to_dict": lambda o, d_: PAY.wrap(to_dict(o.term, ODIA.coerce(d_).term)),
               "mashumaro_from_dict": lambda c_, v, d_: OBJ.wrap(from_dict(CLSO.coerce(c_).term, v.term, ODIA.coerce(d_).term)),
               "TYPES_get": lambda n: VOpt(types_get(STR.coerce(n).term), OCLS), "payload_type_tag": lambda v: VOpt(tag_of(v.term), opt_of(STR))})

    def attr2(m, obj, name):
        if isinstance(obj, VCls) and obj.name == C and name == "__mashumaro_dialect":
            return m.global_syms["DIALECT"]
        if isinstance(obj, VU) and obj.sort == OBJ and name == "to_dict":
            return VBound(obj, "to_dict")
        if isinstance(obj, VU) and obj.sort == PAY and name == "get":
            return VBound(obj, "get")
        if isinstance(obj, VU) and obj.sort == CLSO and name == "from_dict":
            return VBound(obj, "from_dict")
        if isinstance(obj, VPy) and obj.obj == "cls":
            return None
        return None

    def call2(m, func, a, kw, nd):
        if isinstance(func, VBound) and isinstance(func.recv, VU):
            r = func.recv
            if r.sort == OBJ and func.name == "to_dict":
                if m.ctx.branch(z3.Bool(fresh_name("to_dict_raises"))):
                    raise RaiseSig(VExc("Exception"))
                return PAY.wrap(to_dict(r.term, ODIA.coerce(kw["dialect"]).term if "dialect" in kw else ODIA.none().term))
            if r.sort == PAY and func.name == "get" and isinstance(a[0], VStr) and z3.is_string_value(a[0].term) and a[0].term.as_string() == "__type":
                return VPy(("type_tag", r))
            if r.sort == CLSO and func.name == "from_dict":
                if m.ctx.branch(z3.Bool(fresh_name("from_dict_raises"))):
                    raise RaiseSig(VExc("Exception"))
                return OBJ.wrap(from_dict(r.term, a[0].term, ODIA.coerce(kw["dialect"]).term if "dialect" in kw else ODIA.none().term))
        if isinstance(func, VBound) and isinstance(func.recv, VPy) and func.recv.obj == ("TYPES",) and func.name == "get":
            tag = a[0]
            t = STR.coerce(VOpt(tag_of(tag.obj[1].term), opt_of(STR))) if isinstance(tag, VPy) else STR.coerce(tag)
            return VOpt(types_get(t.term), OCLS)
        return NotImplemented

    def isinst2(m, v, cls):
        if isinstance(v, VPy) and isinstance(v.obj, tuple) and v.obj[0] == "type_tag" and getattr(cls, "name", "") == "str":
            return z3.Not(opt_of(STR).is_none(tag_of(v.obj[1].term)))
        return None

    def attr3(m, obj, name):
        if isinstance(obj, VPy) and obj.obj == ("TYPES",) and name == "get":
            return VBound(obj, "get")
        return None

    world.attr_hooks.insert(0, attr2)
    world.attr_hooks.insert(0, attr3)
    world.call_hooks.insert(0, call2)
    world.isinstance_hooks.insert(0, isinst2)
    world.name_hooks.append(lambda m, n: VPy(("TYPES",)) if n == "TYPES" else (VCls(C) if n == C else None))
    GD = {"DIALECT": "Opt[Dialect]"}
    A(Contract(f"{M}:{C}._serialize", params={"self": "SerObj"}, returns="Payload", props=P, globals=GD, may_raise=["Exception"],
               ensures=["result == mashumaro_to_dict(self, DIALECT)", "DIALECT == old(DIALECT)"],
               note="hands the object to the mashumaro-generated to_dict with exactly the dialect of the call in progress (none: the default code path)"))
    A(Contract(f"{M}:{C}._deserialize", params={"cls": "ClassObj", "value": "Payload"}, returns="SerObj", props=P, globals=GD, may_raise=["Exception"],
               raises=[("ValueError", "payload_type_tag(value) is not None and TYPES_get(payload_type_tag(value)) is None")],
               ensures=["implies(payload_type_tag(value) is None, result == mashumaro_from_dict(cls, value, DIALECT))",
                        "implies(payload_type_tag(value) is not None, result == mashumaro_from_dict(TYPES_get(payload_type_tag(value)), value, DIALECT))", "DIALECT == old(DIALECT)"],
               note="the class named by a string type tag (ValueError when no such class is registered), the receiving class otherwise; mashumaro's from_dict with the dialect of the call in progress"))
    # ---- Source._serialize: index payload under the optimisation option, the ordinary payload otherwise ----------------------------
    idx_payload = z3.Function("idx_payload", z3.IntSort(), PAY.z3())
    from pyvc.values import INT as _INT
    sf["idx_payload"] = lambda i: PAY.wrap(idx_payload(_INT.coerce(i).term))
    world.consts["SOURCE_OPTIMIZED_SERIALIZATION_KEY"] = VStr("source_optimized_serialization")
    world.class_parents["Source"] = [C]
    world.class_module["Source"] = "pyoak.origin"

    def attr4(m, obj, name):
        if isinstance(obj, VCls) and obj.name == "Source" and name == "_sources":
            return m.global_syms["SRCS"]
        if isinstance(obj, VPy) and obj.obj == ("super",) and name == "_serialize":
            return VPy(("super_serialize",))
        return None

    def call4(m, func, a, kw, nd):
        if isinstance(func, VPy) and func.obj == ("builtin", "super") and not a:
            return VPy(("super",))
        if isinstance(func, VPy) and func.obj == ("super_serialize",):
            return m.call_contract(f"{M}:{C}._serialize", [m.env["self"]], {})
        return NotImplemented

    def dict_display(m, e, hint):
        if m.contract.qualname == "Source._serialize" and len(e.keys) == 1 and isinstance(e.keys[0], ast.Constant) and e.keys[0].value == "idx":
            from pyvc.values import INT
            return PAY.wrap(idx_payload(INT.coerce(m.eval(e.values[0])).term))
        return None

    world.attr_hooks.insert(0, attr4)
    world.call_hooks.insert(0, call4)
    world.dict_display_hook = dict_display
    world.name_hooks.append(lambda m, n: VCls("Source") if n == "Source" else None)
    A(Contract("pyoak.origin:Source._serialize", params={"self": "SerObj"}, returns="Payload", props=P, globals={"OPTS": "Opts", "DIALECT": "Opt[Dialect]", "SRCS": "Dict[SerObj,int]"},
               may_raise=["Exception"],
               raises=[("KeyError", "option_flag(OPTS, 'source_optimized_serialization') and mget_src(SRCS, self) is None")],
               ensures=["implies(option_flag(OPTS, 'source_optimized_serialization'), result == idx_payload(mget_src(SRCS, self)))",
                        "implies(not option_flag(OPTS, 'source_optimized_serialization'), result == mashumaro_to_dict(self, DIALECT))",
                        "OPTS == old(OPTS)", "DIALECT == old(DIALECT)", "SRCS == old(SRCS)"],
               note="with index-based source serialization exactly {'idx': the source's registry index} computed at this call; otherwise the ordinary payload for the options / dialect "
                    "of the call in progress; no state is read or written besides the option slot and the source registry"))
    sf["mget_src"] = lambda mp, k: VOpt(z3.Select(mp.term, mp.sort.key.coerce(k).term), mp.sort.opt)
    world.trusted_notes.append('sorted(d.items(), key=itemgetter(0)) iterates the items in the order sorted_keys(keys(d)), an uninterpreted duplicate-free list of the same keys (ascending order checked natively by rt.c16)')
    world.trusted_notes.append("out.update(d) with no key of d present in out (obligation) appends d's keys in d's order; keys_are_exactly (dict key set == key list) through quantified lemmas")
    world.trusted_notes.append("mashumaro's to_dict / from_dict are uninterpreted functions of (object or class, payload, dialect) that may raise")
    return world, lib, reg, lemmas(lib, dict(nodup=nodup, SS=SS, DM=DM, OPV=OPV, dom_is=dom_is, present=present, items_of=items_of, ITEM=ITEM, PV=PV, STR=STR))


def lemmas(lib, d):
    nodup, SS, DM, OPV, present = d["nodup"], d["SS"], d["DM"], d["OPV"], d["present"]
    P = ["C16"]
    a_, b_, y_ = z3.Const("a_dk", SS.z3()), z3.Const("b_dk", SS.z3()), z3.Const("y_dk", z3.StringSort())

    def base(bank):
        return [], z3.Implies(nodup.t(z3.Concat(a_, z3.Empty(SS.z3()))), nodup.t(a_))

    def step(bank):
        ih = z3.Implies(nodup.t(z3.Concat(a_, b_)), nodup.t(a_))
        whole = z3.Concat(a_, mk_snoc(b_, y_))
        bank.add(whole, ("snoc", z3.Concat(a_, b_), y_))
        return [ih], z3.Implies(nodup.t(whole), nodup.t(a_))
    L = [Lemma("distinct_keys-prefix", [("base", base), ("step", step)], P)]
    kq = z3.Const("k_q", z3.StringSort())
    Dq = lambda mp, ks: z3.ForAll([kq], present(mp, kq) == z3.Contains(ks, z3.Unit(kq)))
    m0, m1, k0, v0, ks0, ks1 = z3.Const("m0_d", DM.z3()), z3.Const("m1_d", DM.z3()), z3.Const("k0_d", z3.StringSort()), z3.Const("v0_d", OPV.z3()), z3.Const("ks0_d", SS.z3()), z3.Const("ks1_d", SS.z3())
    kq2 = z3.Const("k_merge_q", z3.StringSort())

    def dom_all(bank):
        merged = z3.Lambda([kq2], z3.If(present(m1, kq2), z3.Select(m1, kq2), z3.Select(m0, kq2)))
        goal = z3.And(Dq(z3.K(z3.StringSort(), OPV.none().term), z3.Empty(SS.z3())),
                      z3.Implies(z3.And(Dq(m0, ks0), z3.Not(OPV.is_none(v0))), Dq(z3.Store(m0, k0, v0), mk_snoc(ks0, k0))),
                      z3.Implies(z3.And(Dq(m0, ks0), present(m0, k0), z3.Not(OPV.is_none(v0))), Dq(z3.Store(m0, k0, v0), ks0)),
                      z3.Implies(Dq(m0, ks0), present(m0, k0) == z3.Contains(ks0, z3.Unit(k0))),
                      z3.Implies(z3.And(Dq(m0, ks0), Dq(m1, ks1)), Dq(merged, z3.Concat(ks0, ks1))))
        return [], goal
    L.append(Lemma("keys_are_exactly-rules", [("all", dom_all)], P))
    items_of, ITEM, PV, STR_ = d["items_of"], d["ITEM"], d["PV"], d["STR"]
    mI, xI, yI, rI = z3.Const("m_it", DM.z3()), z3.Const("x_it", z3.StringSort()), z3.Const("y_it", z3.StringSort()), z3.Const("r_it", SS.z3())
    item = lambda k: ITEM.mk(STR_.wrap(k), PV.wrap(OPV.val(z3.Select(mI, k)))).term
    ES = z3.Empty(SS.z3())
    snoc_law = lambda r: items_of.t(mI, mk_snoc(r, yI)) == mk_snoc(items_of.t(mI, r), item(yI))

    def is_step(bank):
        from pyvc.core import mk_cons
        whole = z3.Concat(mk_cons(xI, rI), z3.Unit(yI))
        bank.add(whole, ("cons", xI, mk_snoc(rI, yI)))
        return [snoc_law(rI)], items_of.t(mI, whole) == mk_snoc(items_of.t(mI, mk_cons(xI, rI)), item(yI))
    L.append(Lemma("items-snoc", [("base", lambda bank: ([], snoc_law(ES))), ("step", is_step)], P))
    return L
