"""C04 (mechanism): the class-name -> class table TYPES that type-tagged payloads are resolved through.

DataClassSerializeMixin.__init_subclass__ registers every subclass under its __name__.  TYPES is a ghost map str -> ClassObj; module_of(c) is what
inspect.getmodule returns.  Proved: the class is registered under its own name and no other entry changes; a name already taken by a class of ANOTHER
module is rejected with ValueError before the table is touched; a name taken by a class of the same module is overwritten (how dataclass(slots=True)
re-creates a class -- and how a second definition of the same name in one module shadows the first for deserialization)."""
from __future__ import annotations

import z3

from pyvc.contract import Contract, Registry
from pyvc.maps import map_sort
from pyvc.specfn import SpecLib
from pyvc.symex import World
from pyvc.values import NONE, STR, VBool, VBound, VCls, VOpt, VPy, VStr, VU, opt_of, usort

M = "pyoak.serialize"
C = "DataClassSerializeMixin"


def build():
    reg = Registry()
    world = World(reg)
    lib = SpecLib()
    CLSO, MOD = usort("ClassObj"), usort("ModuleObj")
    OMOD = opt_of(MOD)
    TM = map_sort(STR, CLSO)
    cname = z3.Function("class_dunder_name", CLSO.z3(), z3.StringSort())
    module_of = z3.Function("inspect_getmodule", CLSO.z3(), OMOD.z3())
    world.usort_class = {}
    world.class_parents[C] = []
    world.class_module[C] = M
    sf = world.spec_fns
    sf.update({"mget": lambda mp, k: VOpt(z3.Select(mp.term, mp.sort.key.coerce(k).term), mp.sort.opt),
               "mset": lambda mp, k, v: type(mp)(z3.Store(mp.term, mp.sort.key.coerce(k).term, mp.sort.opt.some(v).term), mp.sort),
               "cname": lambda c: VStr(cname(c.term)), "module_of": lambda c: VOpt(module_of(CLSO.coerce(c).term), OMOD)})

    def attr(m, obj, name):
        if isinstance(obj, VU) and obj.sort == CLSO and name == "__name__":
            return VStr(cname(obj.term))
        if isinstance(obj, VPy) and obj.obj == "inspect_module" and name == "getmodule":
            return VBound(obj, "getmodule")
        if isinstance(obj, VPy) and obj.obj == ("super",) and name == "__init_subclass__":
            return VPy(("super_init_subclass",))
        return None

    def call(m, func, a, kw, nd):
        if isinstance(func, VBound) and isinstance(func.recv, VPy) and func.recv.obj == "inspect_module" and func.name == "getmodule":
            c = a[0]
            if isinstance(c, VOpt):
                c = CLSO.wrap(c.sort.val(c.term))
            return VOpt(module_of(CLSO.coerce(c).term), OMOD)
        if isinstance(func, VPy) and func.obj == ("builtin", "super"):
            return VPy(("super",))
        if isinstance(func, VPy) and func.obj == ("super_init_subclass",):
            return NONE          # object.__init_subclass__: no effect on the table
        return NotImplemented

    world.attr_hooks.insert(0, attr)
    world.call_hooks.insert(0, call)
    world.name_hooks.append(lambda m, n: VPy("inspect_module") if n == "inspect" else None)
    world.exc_parents["ValueError"] = "Exception"
    G = {"TYPES": "Dict[str,ClassObj]"}
    TAKEN = "(mget(TYPES, cname(cls)) is not None and module_of(cls) != module_of(mget(TYPES, cname(cls))))"
    reg.add(Contract(f"{M}:{C}.__init_subclass__", params={"cls": "ClassObj", "kwargs": "py:kwargs"}, globals=G, modifies=["TYPES"], props=["C04"],
                     raises=[("ValueError", TAKEN)],
                     ensures=["TYPES == mset(old(TYPES), cname(cls), cls)"], exc_ensures=["TYPES == old(TYPES)"],
                     note="registers the class under its own name, nothing else changes; a name held by a class of another module is a ValueError with the table untouched"))
    world.trusted_notes.append("TYPES is the module-level dict of pyoak.serialize; inspect.getmodule is a function of the class object; object.__init_subclass__ has no effect here")
    return world, lib, reg, []
