"""C04 (proved part, origin side): Source / Position / Origin._deserialize -- the No* placeholders come
back as the singletons, index-based sources resolve through the source registry (every int index,
0 included), anything unresolvable is a ValueError."""
from __future__ import annotations

import z3

from pyvc.contract import Contract, Registry
from pyvc.maps import map_sort
from pyvc.specfn import SpecLib
from pyvc.symex import World
from pyvc.values import BOOL, INT, NONE, STR, EngineError, V, VBool, VBound, VCls, VInt, VOpt, VPy, VStr, VU, fresh_name, opt_of, usort

OM = "pyoak.origin"


def build():
    reg = Registry()
    world = World(reg)
    lib = SpecLib()
    PAY, IDX, SRC, POS, ORG = usort("Payload"), usort("IdxValue"), usort("SourceObj"), usort("PositionObj"), usort("OriginObj")
    OIDX = opt_of(IDX)
    p_empty = z3.Function("payload_is_empty", PAY.z3(), z3.BoolSort())
    p_has_type = z3.Function("payload_has_type", PAY.z3(), z3.BoolSort())
    p_type = z3.Function("payload_type", PAY.z3(), z3.StringSort())
    p_idx = z3.Function("payload_idx", PAY.z3(), OIDX.z3())
    is_int = z3.Function("idx_is_int", IDX.z3(), z3.BoolSort())
    intval = z3.Function("idx_int", IDX.z3(), z3.IntSort())
    reg_id = z3.Function("source_registry_id", SRC.z3(), z3.IntSort())
    from_dict = {s: z3.Function(f"from_dict_{s.name}", PAY.z3(), s.z3()) for s in (SRC, POS, ORG)}
    EMPTY = PAY.fresh("EMPTY_DICT")
    world.consts["EMPTY_DICT"] = EMPTY
    world.axioms.append(p_empty(EMPTY.term))
    world.consts["TYPE_KEY"] = VStr("__type")
    singles = {"NoSource": SRC.fresh("NO_SOURCE"), "NO_POSITION": POS.fresh("NO_POSITION"), "NO_ORIGIN": ORG.fresh("NO_ORIGIN")}
    world.consts["NO_POSITION"], world.consts["NO_ORIGIN"], world.consts["NO_SOURCE"] = singles["NO_POSITION"], singles["NO_ORIGIN"], singles["NoSource"]
    SM = map_sort(INT, SRC)
    sf = world.spec_fns
    sf.update({"p_empty": lambda d: VBool(p_empty(d.term)), "p_tag": lambda d, t: VBool(z3.And(p_has_type(d.term), p_type(d.term) == t.term)),
               "p_idx": lambda d: VOpt(p_idx(d.term), OIDX), "idx_is_int": lambda i: VBool(is_int(IDX.coerce(i).term)),
               "idx_int": lambda i: VInt(intval(IDX.coerce(i).term)), "src_at": lambda m, i: VOpt(z3.Select(m.term, i.term), SM.opt),
               "from_dict_source": lambda d: SRC.wrap(from_dict[SRC](d.term)), "from_dict_position": lambda d: POS.wrap(from_dict[POS](d.term)),
               "from_dict_origin": lambda d: ORG.wrap(from_dict[ORG](d.term)), "reg_id": lambda s_: VInt(reg_id(s_.term))})

    def attr(m, obj, name):
        if isinstance(obj, VU) and obj.sort == PAY and name == "get":
            return VBound(obj, "get")
        if isinstance(obj, VU) and obj.sort == SRC and name == "source_registry_id":
            i = reg_id(obj.term)
            # Source.__post_init__ registered this source or found an equal one registered: the index resolves to *some* source (an equal one)
            m.ctx.assume(z3.Not(SM.opt.is_none(z3.Select(m.ctx.cell(m.global_syms["SIDX"].addr).value.term, i))))
            return VInt(i)
        if isinstance(obj, VCls) and obj.name == "Source" and name == "_source_idx_to_source":
            return m.global_syms["SIDX"]
        if isinstance(obj, VPy) and obj.obj == ("super",) and name == "_deserialize":
            return VPy(("super_deser",))
        return None

    def call(m, func, args, kwargs, node):
        from pyvc.symex import RaiseSig
        from pyvc.values import VExc
        if isinstance(func, VBound) and isinstance(func.recv, VU) and func.recv.sort == PAY and func.name == "get":
            if isinstance(args[0], VStr) and z3.is_string_value(args[0].term) and args[0].term.as_string() == "idx":
                return VOpt(p_idx(func.recv.term), OIDX)
        from pyvc.values import VHeapRef
        if isinstance(func, VBound) and isinstance(func.recv, VHeapRef) and func.name == "get" and args and (
                isinstance(args[0], VU) and args[0].sort == IDX or isinstance(args[0], VOpt) and args[0].sort == OIDX):
            from pyvc.maps import dict_method
            return dict_method(m, m.ctx.cell(func.recv.addr), "get", [VInt(intval(IDX.coerce(args[0]).term))], {})
        if isinstance(func, VPy) and func.obj == ("builtin", "super"):
            return VPy(("super",))
        if isinstance(func, VPy) and func.obj == ("super_deser",):
            which = {"Source": SRC, "Position": POS, "Origin": ORG}[m.contract.qualname.split(".")[0]]
            if m.ctx.branch(z3.Bool(fresh_name("from_dict_raises"))):
                raise RaiseSig(VExc("Exception"))
            return which.wrap(from_dict[which](args[0].term))
        if isinstance(func, VCls) and func.name == "NoSource":
            return singles["NoSource"]
        return NotImplemented

    idx_truthy = z3.Function("idx_truthy_nonint", IDX.z3(), z3.BoolSort())
    world.truth_hooks.append(lambda m, v: z3.If(is_int(v.term), intval(v.term) != 0, idx_truthy(v.term)) if isinstance(v, VU) and v.sort == IDX else None)
    world.attr_hooks.insert(0, attr)
    world.call_hooks.insert(0, call)
    world.py_eq_hooks = [lambda m, a, b: p_empty(a.term) if isinstance(a, VU) and a.sort == PAY and isinstance(b, VU) and b.term.get_id() == EMPTY.term.get_id() else None]
    world.contains_hooks = [lambda m, c, i: p_has_type(c.term) if isinstance(c, VU) and c.sort == PAY and isinstance(i, VStr) and z3.is_string_value(i.term) and i.term.as_string() == "__type" else None]
    world.index_hooks = [lambda m, c, i: VStr(p_type(c.term)) if isinstance(c, VU) and c.sort == PAY and isinstance(i, VStr) and z3.is_string_value(i.term) and i.term.as_string() == "__type" else None]
    world.isinstance_hooks.insert(0, lambda m, v, cls: is_int(IDX.coerce(v).term) if (isinstance(v, VU) and v.sort == IDX or isinstance(v, VOpt) and v.sort == OIDX) and getattr(cls, "name", "") == "int" else None)
    world.coerce_hooks = [lambda m, v, sname: None]
    world.class_parents.update({"Source": [], "NoSource": ["Source"]})
    world.name_hooks.append(lambda m, n: VCls(n) if n in ("Source", "NoSource") else None)
    # dict.get on the int-keyed registry with an IdxValue key
    from pyvc.maps import dict_method as _dm
    orig_key = None
    A = reg.add
    P = ["C04"]
    G = {"SIDX": "Dict[int,SourceObj]"}
    NOSRC = "p_empty(data) or p_tag(data, 'NoSource')"
    A(Contract(f"{OM}:Source._deserialize", params={"cls": "py:cls", "data": "Payload"}, returns="SourceObj", globals=G, props=P,
               may_raise=["Exception"], locals={"idx": "Opt[IdxValue]"},
               raises=[("ValueError", f"not ({NOSRC}) and p_idx(data) is not None and (not idx_is_int(p_idx(data)) or src_at(SIDX, idx_int(p_idx(data))) is None)")],
               ensures=[f"implies({NOSRC}, result == NO_SOURCE)",
                        f"implies(not ({NOSRC}) and p_idx(data) is not None, result == src_at(SIDX, idx_int(p_idx(data))))",
                        f"implies(not ({NOSRC}) and p_idx(data) is None, result == src_at(SIDX, reg_id(from_dict_source(data))))"],
               note="{} and the NoSource tag give the singleton; an integer index (any integer, 0 included) resolves through the registry; a non-integer or unknown index is a ValueError; "
                    "a full payload is rebuilt and replaced by the registered equal source"))
    for cls_, single, tag, fd in (("Position", "NO_POSITION", "NoPosition", "from_dict_position"), ("Origin", "NO_ORIGIN", "NoOrigin", "from_dict_origin")):
        A(Contract(f"{OM}:{cls_}._deserialize", params={"cls": "py:cls", "value": "Payload"}, returns=f"{cls_}Obj", props=P, may_raise=["Exception"],
                   ensures=[f"implies(p_empty(value) or p_tag(value, '{tag}'), result == {single})",
                            f"implies(not (p_empty(value) or p_tag(value, '{tag}')), result == {fd}(value))"],
                   note=f"{{}} and the {tag} tag come back as the {single} singleton"))
    return world, lib, reg, []
