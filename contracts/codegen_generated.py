"""C12 layer 2: the accessor functions that actually run — text produced by pyoak.codegen at run
time and handed to exec — verified per class against kids(n) / props(n) of the class definition.

The exact strings are captured by shadowing the name `exec` in the pyoak.codegen module namespace
from this process (/repo is untouched); each captured `__create_fn__` text is parsed and its inner
function is verified like any other function: all five skip flags, sort_keys and all field values
are symbolic, `truthy(child)` is unconstrained.  Programs (classes) are enumerated, inputs are not."""
from __future__ import annotations

import ast
import time
from typing import Any

import z3

from pyvc import extract
from pyvc.contract import Contract, Loop, Registry
from pyvc.core import mk_snoc
from pyvc.specfn import SpecLib
from pyvc.symex import World
from pyvc.values import BOOL, INT, EngineError, Sort, V, VBool, VOpt, VSeq, VTuple, VU, opt_of, rec_sort, seq_of, usort
from pyvc.verify import verify_function

from .node_common import NodeVocab

ACCESSORS = ["get_child_nodes", "get_child_nodes_with_field", "iter_child_fields", "get_properties"]


class CValSort(Sort):
    """Value of a child field as yielded by iter_child_fields: a single optional node or a tuple."""
    name = "CVal"

    def __init__(self, ref: Sort) -> None:
        self.ref = ref
        dt = z3.Datatype("CVal")
        dt.declare("single", ("one", opt_of(ref).z3()))
        dt.declare("many", ("all", seq_of(ref).z3()))
        self.dt = dt.create()

    def z3(self):
        return self.dt

    def wrap(self, term):
        return VU(term, self)  # type: ignore[arg-type]

    def coerce(self, v: V) -> V:
        if isinstance(v, VOpt) and v.sort == opt_of(self.ref):
            return VU(self.dt.single(v.term), self)  # type: ignore[arg-type]
        if isinstance(v, VSeq) and v.sort == seq_of(self.ref):
            return VU(self.dt.many(v.term), self)  # type: ignore[arg-type]
        if isinstance(v, VU) and v.sort == self:
            return v
        raise EngineError(f"cannot coerce {v!r} to CVal")


_CVAL: Any = None
_CAPTURE: dict[tuple[str, str], str] = {}


_UNREACHED: list[tuple[str, str]] = []


def capture_family(tier: str):
    """Defines the class family, triggers code generation, returns [(GenClass, {accessor: (text, closure names)})]."""
    import pyoak.codegen as cg

    from rt import classgen

    current: list[Any] = [None]
    orig_gen = cg._gen_func
    if not getattr(cg, "_pyvc_spy", False):
        def gen_spy(clz, fname, *a, **k):
            current[0] = (clz, fname)
            try:
                return orig_gen(clz, fname, *a, **k)
            finally:
                current[0] = None

        def exec_spy(txt, g=None, ns=None):
            if current[0] is not None:
                _CAPTURE[(current[0][0].__qualname__, current[0][1])] = txt
            return exec(txt, g, ns)

        cg._gen_func = gen_spy
        cg.exec = exec_spy          # module global shadows the builtin for pyoak.codegen only
        cg._pyvc_spy = True
    fam = classgen.family(tier)
    out = []
    for h in fam:
        for gc in h:
            try:
                inst = classgen.instance(gc, 0)
                list(inst.get_child_nodes()); list(inst.get_child_nodes_with_field()); list(inst.iter_child_fields()); list(inst.get_properties())
            except Exception as ex:      # the class cannot be instantiated / its accessors fail on the current tree: nothing to verify, and not a verdict
                _UNREACHED.append((gc.cls.__qualname__, f"{type(ex).__name__}: {ex!s:.160}"))
                continue
            funcs = {}
            for acc in ACCESSORS:
                txt = _CAPTURE.get((gc.cls.__qualname__, acc))
                fn = gc.cls.__dict__.get(acc)
                closure = {}
                if fn is not None and fn.__closure__:
                    closure = {n: c.cell_contents.name for n, c in zip(fn.__code__.co_freevars, fn.__closure__)}
                funcs[acc] = (txt, closure, fn is not None and fn.__name__ == acc and fn.__qualname__.startswith(gc.cls.__qualname__))
            out.append((gc, funcs))
            inst.detach()
    return out


def _sig(fn: ast.FunctionDef) -> str:
    a = fn.args
    pos = [x.arg for x in a.posonlyargs + a.args]
    dflt = dict(zip(reversed(pos), (ast.unparse(d) for d in reversed(a.defaults))))
    parts = [f"{n}={dflt[n]}" if n in dflt else n for n in pos]
    if a.kwonlyargs:
        parts.append("*")
        parts += [f"{x.arg}={ast.unparse(d)}" if d is not None else x.arg for x, d in zip(a.kwonlyargs, a.kw_defaults)]
    return ", ".join(parts)


def signature_obligation(name: str, fn: ast.FunctionDef, acc: str) -> dict:
    _, declared = extract.get_function(f"pyoak.node:ASTNode.{acc}")
    got, want = _sig(fn), _sig(declared)
    return {"name": name, "status": "discharged" if got == want else "refuted", "backend": "syntactic", "seconds": 0.0, "kind": "signature",
            "model": "" if got == want else f"signature ({got}) differs from the declared ASTNode.{acc}({want})", "info": {}}


def verify_class(gc: Any, funcs: dict, timeout_ms: int, accessors: list[str] | None = None, base_props: list | None = None, signature: bool = False) -> list[dict]:
    reg = Registry()
    world = World(reg)
    lib = SpecLib()
    nv = NodeVocab(world, lib)
    REF, FLD = nv.REF, nv.FLD
    OREF, SREF = opt_of(REF), seq_of(REF)
    PVAL = usort("PVal")
    global _CVAL
    if _CVAL is None:
        _CVAL = CValSort(REF)
    CVAL = _CVAL
    CPOS = nv.CPOS
    IPOS = rec_sort("IterPos", [("val", CVAL), ("field", FLD)], tuple_like=True)
    PPOS = rec_sort("PropPos", [("val", PVAL), ("field", FLD)], tuple_like=True)
    if base_props is None:
        base_props = [("id", False, False), ("content_id", False, False), ("origin", True, True)]
    child = gc.child_fields
    props = [(n, i, c) for n, i, c in base_props] + [(f.name, f.init, f.compare) for f in gc.prop_fields]
    names = [f.name for f in child] + [p[0] for p in props]
    F = {n: z3.Const(f"F_{n}", FLD.z3()) for n in names}
    fv_t = {f.name: z3.Function(f"fv_{f.name}", REF.z3(), SREF.z3()) for f in child if f.is_tuple}
    fv_s = {f.name: z3.Function(f"fv_{f.name}", REF.z3(), OREF.z3()) for f in child if not f.is_tuple}
    pv = {p[0]: z3.Function(f"pv_{p[0]}", REF.z3(), PVAL.z3()) for p in props}

    def attr(m, obj, name):
        if isinstance(obj, VU) and obj.sort == REF:
            if name in fv_t:
                return SREF.wrap(fv_t[name](obj.term))
            if name in fv_s:
                return OREF.wrap(fv_s[name](obj.term))
            if name in pv:
                return PVAL.wrap(pv[name](obj.term))
        return None

    world.attr_hooks.insert(0, attr)
    enum_pos = lib.fn("enum_pos", [FLD, SREF], seq_of(CPOS))
    enum_pos.rule("enum_pos-empty", 1, "empty")(lambda a, p: z3.Empty(seq_of(CPOS).z3()))
    enum_pos.rule("enum_pos-snoc", 1, "snoc")(lambda a, p: mk_snoc(enum_pos.t(a[0], p[0]),
                                                                   CPOS.mk(REF.wrap(p[1]), FLD.wrap(a[0]), opt_of(INT).some(__import__("pyvc.values", fromlist=["VInt"]).VInt(z3.Length(p[0])))).term))
    world.spec_fns["enum_pos"] = enum_pos
    for n in names:
        world.consts[f"F_{n}"] = FLD.wrap(F[n])

    def cat(parts, sort):
        parts = [p for p in parts]
        if not parts:
            return z3.Empty(sort)
        return parts[0] if len(parts) == 1 else z3.Concat(*parts)

    results = []
    for acc in (accessors or ACCESSORS):
        txt, closure, installed = funcs[acc]
        key = f"generated:{gc.name}.{acc}"
        base = {"kind": "fn", "area": "contracts.codegen_generated", "key": key, "fn": key, "paths": 0, "infeasible_paths": 0, "src_sha": "",
                "fn_hash": "", "canary": "", "seconds": 0.0, "obligations": [], "sample_smt2": "", "props": ["C12"], "note": gc.source}
        if txt is None or not installed:
            results.append({**base, "status": "ok", "error": "", "obligations": [
                {"name": f"{key}/installed", "status": "refuted", "backend": "capture", "seconds": 0.0, "kind": "install",
                 "model": f"no generated {acc} was captured / installed on {gc.name} itself (class.__dict__ lacks it)", "info": {}}]})
            continue
        mod = extract.parse_text_module(key, txt)
        outer = mod.tree.body[0]
        fn = next(n for n in outer.body if isinstance(n, ast.FunctionDef))
        # the generated method must offer the signature ASTNode.<accessor> documents (names, keyword-only-ness, defaults): otherwise a call that omits a
        # flag means something else once the class has been specialised
        sig_ob = signature_obligation(f"{key}/signature-is-the-declared-one", fn, acc)
        # closure variables -> the Fld constant of the field object they actually hold
        cl_consts = {cn: FLD.wrap(F[real]) for cn, real in closure.items() if real in F}
        world.name_hooks[:] = [lambda m, n, cl=cl_consts: cl.get(n)]
        loops = {}
        k = 0
        for node in ast.walk(fn):
            pass
        order_loops = [n for n in ast.walk(fn) if isinstance(n, ast.For)]
        order_loops.sort(key=lambda n: (n.lineno, n.col_offset))
        for i, lp in enumerate(order_loops, 1):
            src = ast.unparse(lp.iter)
            fname = src.replace("enumerate(", "").rstrip(")").replace("self.", "")
            if acc == "get_child_nodes":
                loops[i] = Loop(inv=[f"out == out_at{i} + done{i}"])
            else:
                loops[i] = Loop(inv=[f"out == out_at{i} + enum_pos(F_{fname}, done{i})"])
        params = {"self": "Ref", "sort_keys": "bool"}
        if acc == "get_properties":
            params.update({k_: "bool" for k_ in ("skip_id", "skip_origin", "skip_content_id", "skip_non_compare", "skip_non_init")})

        def post_hook(m, acc=acc):
            s = m.env["self"].term
            sk = m.env["sort_keys"].term
            out = m.ctx.out.term

            def expected(order_child, order_prop):
                if acc == "get_child_nodes":
                    parts = [fv_t[f.name](s) if f.is_tuple else z3.If(OREF.is_none(fv_s[f.name](s)), z3.Empty(SREF.z3()), z3.Unit(OREF.val(fv_s[f.name](s))))
                             for f in order_child]
                    return cat(parts, SREF.z3())
                if acc == "get_child_nodes_with_field":
                    parts = [enum_pos.t(F[f.name], fv_t[f.name](s)) if f.is_tuple else
                             z3.If(OREF.is_none(fv_s[f.name](s)), z3.Empty(seq_of(CPOS).z3()),
                                   z3.Unit(CPOS.mk(REF.wrap(OREF.val(fv_s[f.name](s))), FLD.wrap(F[f.name]), opt_of(INT).none()).term))
                             for f in order_child]
                    return cat(parts, seq_of(CPOS).z3())
                if acc == "iter_child_fields":
                    parts = [z3.Unit(IPOS.mk(CVAL.coerce(SREF.wrap(fv_t[f.name](s)) if f.is_tuple else OREF.wrap(fv_s[f.name](s))), FLD.wrap(F[f.name])).term)
                             for f in order_child]
                    return cat(parts, seq_of(IPOS).z3())
                e = m.env
                parts = []
                for n, init, compare in order_prop:
                    if n == "id":
                        cond = z3.Not(e["skip_id"].term)
                    elif n == "content_id":
                        cond = z3.Not(e["skip_content_id"].term)
                    elif n == "origin":
                        cond = z3.Not(e["skip_origin"].term)
                    else:
                        cond = z3.And(z3.Not(z3.And(z3.BoolVal(not compare), e["skip_non_compare"].term)),
                                      z3.Not(z3.And(z3.BoolVal(not init), e["skip_non_init"].term)))
                    parts.append(z3.If(cond, z3.Unit(PPOS.mk(PVAL.wrap(pv[n](s)), FLD.wrap(F[n])).term), z3.Empty(seq_of(PPOS).z3())))
                return cat(parts, seq_of(PPOS).z3())

            decl = expected(child, props)
            srt = expected(sorted(child, key=lambda f: f.name), sorted(props, key=lambda p: p[0]))
            return [("post[declaration-order]", z3.Implies(z3.Not(sk), out == decl)), ("post[name-order]", z3.Implies(sk, out == srt))]

        ret = {"get_child_nodes": "Seq[Ref]", "get_child_nodes_with_field": "Seq[ChildPos]", "iter_child_fields": "Seq[IterPos]",
               "get_properties": "Seq[PropPos]"}[acc]
        c = Contract(key, params=params, returns=ret, loops=loops, post_hook=post_hook, source=(mod, fn), props=["C12"])
        r = verify_function(world, lib, c, timeout_ms)
        results.append({**base, "status": r.status, "error": r.error, "paths": r.paths, "infeasible_paths": r.infeasible_paths,
                        "src_sha": mod.sha256, "fn_hash": r.fn_hash, "canary": r.canary, "seconds": round(r.seconds, 3),
                        "obligations": [{"name": o.name, "status": o.status, "backend": o.backend, "seconds": round(o.seconds, 4), "kind": o.kind,
                                         "model": (o.model[:600] + " | class: " + gc.source.replace("\n", "; ")[:300]) if o.status != "discharged" else "", "info": o.inputs} for o in r.obligations] + ([sig_ob] if signature else [])})
    return results


_FAM: list = []


def _verify_idx(args):
    i, timeout_ms = args
    gc, funcs = _FAM[i]
    try:
        return verify_class(gc, funcs, timeout_ms, signature=True)
    except Exception:
        import traceback
        key = f"generated:{gc.name}"
        return [{"kind": "fn", "area": "contracts.codegen_generated", "key": key, "fn": key, "status": "crash", "error": traceback.format_exc()[-1200:],
                 "paths": 0, "infeasible_paths": 0, "src_sha": "", "fn_hash": "", "canary": "", "seconds": 0, "obligations": [], "sample_smt2": "",
                 "props": ["C12"], "note": ""}]


def run_custom(tier: str) -> list[dict]:
    import multiprocessing as mp
    global _FAM
    del _UNREACHED[:]
    _FAM = capture_family(tier)
    timeout_ms = 60000 if tier == "quick" else 180000
    ctx = mp.get_context("fork")
    with ctx.Pool(min(16, max(1, len(_FAM)))) as pool:
        parts = pool.map(_verify_idx, [(i, timeout_ms) for i in range(len(_FAM))], chunksize=1)
    out: list[dict] = []
    for p in parts:
        out.extend(p)
    for name, why in _UNREACHED:
        out.append({"kind": "fn", "area": "contracts.codegen_generated", "key": f"generated:{name}", "fn": f"generated:{name}", "status": "out-of-reach",
                    "error": f"class family member could not be instantiated on this tree: {why}", "paths": 0, "infeasible_paths": 0, "src_sha": "", "fn_hash": "",
                    "canary": "", "seconds": 0, "obligations": [], "sample_smt2": "", "props": ["C12"], "note": ""})
    return out
