"""C15 (part 2): origin addition and merging.

Origins are objects of a class family (NoOrigin, CodeOrigin, GeneratedCodeOrigin, XMLFileOrigin,
MultiOrigin, any other subclass) with pure field functions source / position / members (the
`origins` of a MultiOrigin) / crange (the CodeRange of a code origin).
  flat(os)      = concatenation over os of: [] for NoOrigin, members(o) for a MultiOrigin, [o] otherwise
  plain(s)      = no element of s is a NoOrigin or a MultiOrigin
  wf_all(os)    = every MultiOrigin operand is flat itself (plain(members)) -- established by every library operation
merge_origins returns NoOrigin / the single survivor / a MultiOrigin over exactly flat(operands);
by lemma flat-plain the result is flat again."""
from __future__ import annotations

import z3

from pyvc.contract import Contract, Loop, Registry
from pyvc.core import mk_cons, mk_snoc
from pyvc.lemmas import concat_from_cons, snoc_from_cons
from pyvc.objects import ObjFamily
from pyvc.specfn import SpecLib
from pyvc.symex import RaiseSig, World
from pyvc.values import BOOL, INT, NONE, STR, EngineError, V, VBool, VBound, VCls, VExc, VInt, VOpt, VPy, VRec, VSeq, VStr, VTuple, VU, fresh_name, opt_of, rec_sort, seq_of, usort
from pyvc.verify import Lemma

OM = "pyoak.origin"


def build():
    reg = Registry()
    world = World(reg)
    lib = SpecLib()
    CP = rec_sort("CodePoint", [("index", INT), ("line", INT), ("column", INT)], pycls="CodePoint")
    CR = rec_sort("CodeRange", [("start", CP), ("end", CP)], pycls="CodeRange")
    world.rec_of_class.update({"CodePoint": CP, "CodeRange": CR})
    SRC, POS = usort("SourceObj"), usort("PositionObj")
    classes = {"Origin": [], "NoOrigin": ["Origin"], "CodeOrigin": ["Origin"], "GeneratedCodeOrigin": ["CodeOrigin"], "XMLFileOrigin": ["Origin"],
               "MultiOrigin": ["Origin"], "OriginOther": ["Origin"]}
    fam = ObjFamily(world, "OriginObj", classes, {})
    ORG = fam.sort
    SO = seq_of(ORG)
    f_source = z3.Function("origin_source", ORG.z3(), SRC.z3())
    f_pos = z3.Function("origin_position", ORG.z3(), POS.z3())
    f_members = z3.Function("origin_members", ORG.z3(), SO.z3())
    f_range = z3.Function("origin_code_range", ORG.z3(), CR.z3())
    pos_of_range = z3.Function("position_of_range", CR.z3(), POS.z3())
    src_raw = z3.Function("source_raw_text", SRC.z3(), opt_of(STR).z3())          # get_raw() when it is a str, else None
    NO = ORG.fresh("NO_ORIGIN")
    world.consts["NO_ORIGIN"] = NO
    world.axioms.append(fam.exact_class(NO.term, "NoOrigin"))
    is_no = lambda o: fam.is_class(o, "NoOrigin")
    is_multi = lambda o: fam.is_class(o, "MultiOrigin")
    is_code = lambda o: fam.is_class(o, "CodeOrigin")
    E = z3.Empty(SO.z3())
    flat = lib.fn("flat", [SO], SO)
    plain = lib.fn("plain", [SO], BOOL)
    wf_all = lib.fn("wf_all", [SO], BOOL)
    piece = lambda o: z3.If(is_no(o), E, z3.If(is_multi(o), f_members(o), z3.Unit(o)))
    flat.rule("flat-empty", 0, "empty")(lambda a, p: E)
    flat.rule("flat-cons", 0, "cons")(lambda a, p: z3.Concat(piece(p[0]), flat.t(p[1])))
    flat.rule("flat-snoc", 0, "snoc", "lemma")(lambda a, p: z3.Concat(flat.t(p[0]), piece(p[1])))
    plain.rule("plain-empty", 0, "empty")(lambda a, p: z3.BoolVal(True))
    plain.rule("plain-snoc", 0, "snoc")(lambda a, p: z3.And(plain.t(p[0]), z3.Not(is_no(p[1])), z3.Not(is_multi(p[1]))))
    plain.rule("plain-concat", 0, "concat", "lemma")(lambda a, p: z3.And(plain.t(p[0]), plain.t(p[1])))
    wf_all.rule("wf_all-empty", 0, "empty")(lambda a, p: z3.BoolVal(True))
    wf_all.rule("wf_all-snoc", 0, "snoc")(lambda a, p: z3.And(wf_all.t(p[0]), z3.Implies(is_multi(p[1]), plain.t(f_members(p[1])))))
    wf_all.rule("wf_all-prefix", 0, "concat", "lemma", raw=True)(lambda a, p: z3.Implies(wf_all.t(z3.Concat(p[0], p[1])), wf_all.t(p[0])))
    sf = world.spec_fns
    sf.update({"flat": flat, "plain": plain, "wf_all": wf_all,
               "members": lambda o: SO.wrap(f_members(ORG.coerce(o).term)), "is_multi": lambda o: VBool(is_multi(ORG.coerce(o).term)),
               "is_no": lambda o: VBool(is_no(ORG.coerce(o).term)), "is_code": lambda o: VBool(is_code(ORG.coerce(o).term)),
               "exact_cls": lambda o, c: VBool(fam.exact_class(ORG.coerce(o).term, c.term.as_string())),
               "src": lambda o: SRC.wrap(f_source(ORG.coerce(o).term)), "crange": lambda o: CR.wrap(f_range(ORG.coerce(o).term)),
               "raw_text": lambda s_: VOpt(src_raw(s_.term), opt_of(STR))})

    def attr(m, obj, name):
        if isinstance(obj, VU) and obj.sort == ORG:
            if name == "source":
                return SRC.wrap(f_source(obj.term))
            if name == "origins":
                return SO.wrap(f_members(obj.term))
            if name == "position":
                # inside CodeOrigin methods the position is the CodeRange record
                if m.contract.qualname.startswith("CodeOrigin."):
                    return CR.wrap(f_range(obj.term))
                return POS.wrap(f_pos(obj.term))
        if isinstance(obj, VU) and obj.sort == SRC and name == "get_raw":
            return VBound(obj, "get_raw")
        if isinstance(obj, VPy) and obj.obj == ("super",) and name == "__add__":
            return VPy(("super_add",))
        return None

    def call(m, func, a, kw, node):
        if isinstance(func, VBound) and isinstance(func.recv, VU) and func.recv.sort == SRC and func.name == "get_raw":
            return VOpt(src_raw(func.recv.term), opt_of(STR))
        if isinstance(func, VPy) and func.obj == ("builtin", "super"):
            return VPy(("super",))
        if isinstance(func, VPy) and func.obj == ("super_add",):
            return m.call_contract(f"{OM}:Origin.__add__", [m.env["self"]] + a, kw)
        if isinstance(func, VCls) and func.name == "NoOrigin":
            return NO
        if isinstance(func, VCls) and func.name == "MultiOrigin":
            v = kw["origins"] if "origins" in kw else a[0]
            sv = m.seq_value(v)
            return m.call_contract("ctor:MultiOrigin", [sv if sv is not None else SO.coerce(v)], {})
        if isinstance(func, VCls) and func.name == "CodeOrigin":
            return m.call_contract("ctor:CodeOrigin", [kw["source"], kw["position"]], {})
        return NotImplemented

    def isinst(m, v, cls):
        if isinstance(v, VOpt) and v.sort.elem == STR and getattr(cls, "name", "") == "str":
            return z3.Not(v.sort.is_none(v.term))
        return None

    world.attr_hooks.insert(0, attr)
    world.call_hooks.insert(0, call)
    world.isinstance_hooks.insert(0, isinst)
    world.name_hooks.append(lambda m, n: VCls(n) if n in classes else None)
    world.py_eq_hooks = [lambda m, a, b: (a.term == b.term) if isinstance(a, VU) and isinstance(b, VU) and a.sort == SRC and b.sort == SRC else None]
    world.usort_class = {"OriginObj": "Origin"}
    world.class_module.update({c: OM for c in classes})
    world.class_module["CodeRange"] = OM
    world.class_parents["CodeRange"] = ["Position"]
    A = reg.add
    P = ["C15"]
    A(Contract("ctor:MultiOrigin", params={"origins": "Seq[OriginObj]"}, returns="OriginObj", props=P, trusted=True,
               trusted_reason="dataclass __init__ + MultiOrigin.__post_init__ (checked natively by rt.c15: source / position sets in operand order); the new object is a MultiOrigin over exactly these members",
               raises=[("ValueError", "len(origins) < 2")], ensures=["exact_cls(result, 'MultiOrigin')", "members(result) == origins"]))
    A(Contract("ctor:CodeOrigin", params={"source": "SourceObj", "position": "CodeRange"}, returns="OriginObj", props=P, trusted=True,
               trusted_reason="dataclass __init__ (Origin.__post_init__ only type-checks)", ensures=["exact_cls(result, 'CodeOrigin')", "src(result) == source", "crange(result) == position"]))
    A(Contract(f"{OM}:CodeRange.overlaps", params={"self": "CodeRange", "other": "CodeRange"}, returns="bool", props=P, trusted=True,
               trusted_reason="proved in contracts.origin_intervals", ensures=["result == (self.end.index >= other.start.index and self.start.index <= other.end.index)"]))
    A(Contract(f"{OM}:CodeRange.__add__", params={"self": "CodeRange", "other": "CodeRange"}, returns="CodeRange", props=P, trusted=True,
               trusted_reason="proved in contracts.origin_intervals",
               ensures=["result.start.index == (self.start.index if self.start.index <= other.start.index else other.start.index)",
                        "result.end.index == (self.end.index if self.end.index >= other.end.index else other.end.index)"]))
    MERGED = ("(len(flat(origins)) == 0 and result == NO_ORIGIN) or (len(flat(origins)) == 1 and result == flat(origins)[0]) or "
              "(len(flat(origins)) >= 2 and is_multi(result) and members(result) == flat(origins))")
    A(Contract(f"{OM}:merge_origins", params={"origins": "Seq[OriginObj]"}, returns="OriginObj", props=P,
               requires=["wf_all(origins)"], locals={"new_origins": "List[OriginObj]"},
               ensures=["implies(len(origins) == 1, result == origins[0])", f"implies(len(origins) != 1, {MERGED})",
                        "implies(len(origins) != 1 and is_multi(result), plain(members(result)))",
                        "implies(len(origins) != 1 and len(flat(origins)) == 1, not is_multi(result) and not is_no(result))"],
               loops={1: Loop(inv=["new_origins == flat(done1)", "plain(new_origins)", "wf_all(seq1)"])},
               note="the non-empty operands in order, multi-origin operands spliced in: NoOrigin when nothing remains, the operand itself when one remains, "
                    "otherwise a MultiOrigin over exactly that list, which is flat again (no NoOrigin, no nested MultiOrigin)"))
    A(Contract(f"{OM}:Origin.__add__", params={"self": "OriginObj", "other": "OriginObj"}, returns="OriginObj", props=P,
               requires=["implies(is_multi(self), plain(members(self)))", "implies(is_multi(other), plain(members(other)))"],
               ensures=["merged2(self, other, result)"], note="every non-code addition is merge_origins(self, other)"))
    pair = lambda a, b: z3.Concat(z3.Unit(a), z3.Unit(b))

    def merged2(a, b, r):
        fl = flat.t(pair(a.term, b.term))
        return VBool(z3.Or(z3.And(z3.Length(fl) == 0, r.term == NO.term), z3.And(z3.Length(fl) == 1, r.term == fl[0], z3.Not(is_multi(r.term)), z3.Not(is_no(r.term))),
                           z3.And(z3.Length(fl) >= 2, is_multi(r.term), f_members(r.term) == fl, plain.t(f_members(r.term)))))

    sf["merged2"] = merged2
    A(Contract(f"{OM}:CodeOrigin.__add__", params={"self": "OriginObj", "other": "OriginObj"}, returns="OriginObj", props=P,
               requires=["is_code(self)", "implies(is_multi(other), plain(members(other)))"],
               ensures=["implies(is_code(other) and src(self) == src(other) and crange(self).end.index >= crange(other).start.index and crange(self).start.index <= crange(other).end.index, "
                        "exact_cls(result, 'CodeOrigin') and src(result) == src(self) and "
                        "crange(result).start.index == (crange(self).start.index if crange(self).start.index <= crange(other).start.index else crange(other).start.index) and "
                        "crange(result).end.index == (crange(self).end.index if crange(self).end.index >= crange(other).end.index else crange(other).end.index))",
                        "implies(not (is_code(other) and src(self) == src(other) and crange(self).end.index >= crange(other).start.index and crange(self).start.index <= crange(other).end.index), "
                        "merged2(self, other, result))"],
               note="same source and overlapping or touching ranges: one CodeOrigin over the hull; every other case delegates to the flat merge"))
    A(Contract(f"{OM}:CodeOrigin.get_raw", params={"self": "OriginObj"}, returns="Opt[str]", props=P,
               requires=["is_code(self)", "0 <= crange(self).start.index", "crange(self).start.index <= crange(self).end.index"],
               ensures=["implies(raw_text(src(self)) is None, result is None)",
                        "implies(raw_text(src(self)) is not None, result == substr(raw_text(src(self)), crange(self).start.index, crange(self).end.index))"],
               note="exactly the slice [start.index : end.index] of the source text (None when the source has no text)"))

    def substr(s_, lo, hi):
        t = STR.coerce(s_).term
        n = z3.Length(t)
        clamp = lambda x: z3.If(x > n, n, x)
        a_, b_ = clamp(lo.term), clamp(hi.term)
        return VStr(z3.SubString(t, a_, z3.If(b_ - a_ < 0, 0, b_ - a_)))

    sf["substr"] = substr
    flat_ok = lambda o: z3.Implies(is_multi(o), plain.t(f_members(o)))
    sf["flat_ok"] = lambda o: VBool(flat_ok(ORG.coerce(o).term))

    def add_dispatch(m, op, a, b):
        # dynamic dispatch of `a + b` over the library's origin classes: CodeOrigin (and its subclasses) override __add__, every other class inherits Origin.__add__
        if isinstance(a, VU) and a.sort == ORG and isinstance(b, VU) and b.sort == ORG:
            if m.ctx.branch(is_code(a.term)):
                return m.call_contract(f"{OM}:CodeOrigin.__add__", [a, b], {})
            return m.call_contract(f"{OM}:Origin.__add__", [a, b], {})
        return None

    world.binop_hooks = [add_dispatch]
    A(Contract(f"{OM}:concat_origins", params={"origin": "OriginObj", "origins": "Seq[OriginObj]"}, returns="OriginObj", props=P,
               requires=["flat_ok(origin)", "wf_all(origins)"], locals={"new_origin": "OriginObj"},
               ensures=["implies(len(origins) == 0, result == origin)", "flat_ok(result)"],
               loops={1: Loop(inv=["flat_ok(new_origin)", "wf_all(seq1)"])},
               note="the fold of + over the operands: with no further operands the origin itself; the result is never a nested multi-origin and never lists NoOrigin "
                    "(which members survive, and hull merging of code origins, is the contract of the two __add__ methods)"))
    # ---- MultiOrigin.__post_init__: the object under construction is `self`; its three fields live in ghost slots ----
    source_set = z3.Function("SourceSet_of", seq_of(SRC).z3(), SRC.z3())
    position_set = z3.Function("PositionSet_of", seq_of(POS).z3(), POS.z3())
    SS, SP = seq_of(SRC), seq_of(POS)
    sources_of = lib.fn("sources_of", [SO], SS)
    positions_of = lib.fn("positions_of", [SO], SP)
    all_src = lib.fn("all_src", [SRC, SO], BOOL)
    sources_of.rule("sources_of-empty", 0, "empty")(lambda a, p: z3.Empty(SS.z3()))
    sources_of.rule("sources_of-cons", 0, "cons")(lambda a, p: z3.Concat(z3.Unit(f_source(p[0])), sources_of.t(p[1])))
    positions_of.rule("positions_of-empty", 0, "empty")(lambda a, p: z3.Empty(SP.z3()))
    positions_of.rule("positions_of-cons", 0, "cons")(lambda a, p: z3.Concat(z3.Unit(f_pos(p[0])), positions_of.t(p[1])))
    all_src.rule("all_src-empty", 1, "empty")(lambda a, p: z3.BoolVal(True))
    all_src.rule("all_src-cons", 1, "cons")(lambda a, p: z3.And(f_source(p[0]) == a[0], all_src.t(a[0], p[1])))
    sf.update({"sources_of": sources_of, "positions_of": positions_of, "all_src": all_src,
               "source_set": lambda s_: SRC.wrap(source_set(SS.coerce(s_).term)), "position_set": lambda s_: POS.wrap(position_set(SP.coerce(s_).term)),
               "pos": lambda o: POS.wrap(f_pos(ORG.coerce(o).term))})
    G = {"SELF_ORIGINS": "Seq[OriginObj]", "SELF_SOURCE": "Opt[SourceObj]", "SELF_POSITION": "Opt[PositionObj]"}

    def is_self(m, obj):
        return m.contract.qualname == "MultiOrigin.__post_init__" and isinstance(obj, VU) and obj.sort == ORG and "self" in m.env and obj.term.get_id() == m.env["self"].term.get_id()

    def self_attr(m, obj, name):
        if is_self(m, obj) and not m.spec:
            if name == "origins":
                return m.global_syms["SELF_ORIGINS"]
            if name in ("source", "position"):
                raise EngineError(f"read of self.{name} before it is assigned")
        return None

    def self_call(m, func, a, kw, node):
        if isinstance(func, VPy) and func.obj == ("setattr",) and is_self(m, a[0]):
            nm = a[1].term.as_string() if isinstance(a[1], VStr) else a[1].obj
            if nm == "origins":
                sv = m.seq_value(a[2]) if not isinstance(a[2], VSeq) else a[2]
                m.global_syms["SELF_ORIGINS"] = SO.coerce(sv)
                return NONE
            if nm == "source":
                m.global_syms["SELF_SOURCE"] = opt_of(SRC).some(SRC.coerce(a[2]))
                return NONE
            if nm == "position":
                m.global_syms["SELF_POSITION"] = opt_of(POS).some(POS.coerce(a[2]))
                return NONE
            raise EngineError(f"object.__setattr__ of {nm}")
        if isinstance(func, VCls) and func.name == "SourceSet":
            sv = m.seq_value(a[0]) if not isinstance(a[0], VSeq) else a[0]
            return SRC.wrap(source_set(SS.coerce(sv).term))
        if isinstance(func, VCls) and func.name == "PositionSet":
            sv = m.seq_value(a[0]) if not isinstance(a[0], VSeq) else a[0]
            return POS.wrap(position_set(SP.coerce(sv).term))
        if isinstance(func, VPy) and func.obj == ("builtin", "tuple") and len(a) == 1:
            sv = m.seq_value(a[0]) if not isinstance(a[0], VSeq) else a[0]
            if sv is not None:
                return sv
        return NotImplemented

    import ast as _ast

    def anyall(m, name, ge, env):
        # all(<x>.source == <e> for <x> in <seq>)  with <e> independent of <x>:  all_src(<e>, <seq>)
        if name != "all" or len(ge.generators) != 1 or ge.generators[0].ifs:
            return None
        gen = ge.generators[0]
        el = ge.elt
        if not (isinstance(gen.target, _ast.Name) and isinstance(el, _ast.Compare) and len(el.ops) == 1 and isinstance(el.ops[0], _ast.Eq)
                and _ast.unparse(el.left) == f"{gen.target.id}.source" and gen.target.id not in {n.id for n in _ast.walk(el.comparators[0]) if isinstance(n, _ast.Name)}):
            return None
        saved = m.env
        try:
            m.env = dict(env)
            it = m.eval(gen.iter)
            sv = m.seq_value(it) if not isinstance(it, VSeq) else it
            rhs = m.eval(el.comparators[0])
            if sv is None or not (isinstance(rhs, VU) and rhs.sort == SRC):
                return None
            return VBool(all_src.t(rhs.term, sv.term))
        finally:
            m.env = saved

    world.attr_hooks.insert(0, self_attr)
    world.call_hooks.insert(0, self_call)
    world.anyall_hooks = [anyall]
    world.comp_hooks = {"origin.source for origin in": lambda m, sv, gen, e: SS.wrap(sources_of.t(sv.term)),
                        "origin.position for origin in": lambda m, sv, gen, e: SP.wrap(positions_of.t(sv.term))}
    world.name_hooks.append(lambda m, n: VCls(n) if n in ("SourceSet", "PositionSet") else None)
    A(Contract(f"{OM}:MultiOrigin.__post_init__", params={"self": "OriginObj"}, returns="None", props=P, globals=G,
               modifies=["SELF_ORIGINS", "SELF_SOURCE", "SELF_POSITION"],
               raises=[("ValueError", "len(old(SELF_ORIGINS)) < 2")],
               ensures=["SELF_ORIGINS == old(SELF_ORIGINS)",
                        "implies(all_src(src(old(SELF_ORIGINS)[0]), old(SELF_ORIGINS)[1:]), SELF_SOURCE == src(old(SELF_ORIGINS)[0]))",
                        "implies(not all_src(src(old(SELF_ORIGINS)[0]), old(SELF_ORIGINS)[1:]), SELF_SOURCE == source_set(sources_of(old(SELF_ORIGINS))))",
                        "SELF_POSITION == position_set(positions_of(old(SELF_ORIGINS)))"],
               note="fewer than two members are rejected; the members are kept in order; source = the common source when every member has the first one's source, "
                    "otherwise a SourceSet over the members' sources in member order; position = a PositionSet over the members' positions in member order"))
    # ---- fqn composition ----
    src_fqn = z3.Function("source_fqn", SRC.z3(), z3.StringSort())
    pos_fqn = z3.Function("position_fqn", POS.z3(), z3.StringSort())
    set_sources = z3.Function("SourceSet_sources", SRC.z3(), SS.z3())
    set_positions = z3.Function("PositionSet_positions", POS.z3(), SP.z3())
    SSTR = seq_of(STR)
    join_str = lib.fn("join_str", [STR, SSTR], STR)
    src_fqns = lib.fn("src_fqns", [SS], SSTR)
    pos_fqns = lib.fn("pos_fqns", [SP], SSTR)
    join_str.rule("join-empty", 1, "empty")(lambda a, p: z3.StringVal(""))
    join_str.rule("join-cons", 1, "cons")(lambda a, p: z3.If(z3.Length(p[1]) == 0, p[0], z3.Concat(p[0], a[0], join_str.t(a[0], p[1]))))
    src_fqns.rule("src_fqns-empty", 0, "empty")(lambda a, p: z3.Empty(SSTR.z3()))
    src_fqns.rule("src_fqns-cons", 0, "cons")(lambda a, p: z3.Concat(z3.Unit(src_fqn(p[0])), src_fqns.t(p[1])))
    pos_fqns.rule("pos_fqns-empty", 0, "empty")(lambda a, p: z3.Empty(SSTR.z3()))
    pos_fqns.rule("pos_fqns-cons", 0, "cons")(lambda a, p: z3.Concat(z3.Unit(pos_fqn(p[0])), pos_fqns.t(p[1])))
    sf.update({"join_str": join_str, "src_fqns": src_fqns, "pos_fqns": pos_fqns,
               "src_fqn": lambda x: VStr(src_fqn(SRC.coerce(x).term)), "pos_fqn": lambda x: VStr(pos_fqn(POS.coerce(x).term)),
               "set_sources": lambda x: SS.wrap(set_sources(SRC.coerce(x).term)), "set_positions": lambda x: SP.wrap(set_positions(POS.coerce(x).term))})
    world.consts["URI_DELIM"] = VStr("::")
    world.consts["SETS_DELIM"] = VStr("||")

    def fqn_attr(m, obj, name):
        if isinstance(obj, VU) and obj.sort == SRC:
            if name == "fqn":
                return VStr(src_fqn(obj.term))
            if name == "sources":
                return SS.wrap(set_sources(obj.term))
        if isinstance(obj, VU) and obj.sort == POS:
            if name == "fqn":
                return VStr(pos_fqn(obj.term))
            if name == "positions":
                return SP.wrap(set_positions(obj.term))
        return None

    world.attr_hooks.insert(0, fqn_attr)
    world.join_hook = lambda m, recv, sv: VStr(join_str.t(recv.term, sv.term)) if sv.sort == SSTR else None
    world.comp_hooks["s.fqn for s in"] = lambda m, sv, gen, e: SSTR.wrap(src_fqns.t(sv.term) if sv.sort == SS else pos_fqns.t(sv.term))
    A(Contract(f"{OM}:Origin.fqn", params={"self": "OriginObj"}, returns="str", props=P,
               ensures=["result == src_fqn(src(self)) + '::' + pos_fqn(pos(self))"], note="property; source fqn, the URI delimiter, position fqn"))
    A(Contract(f"{OM}:SourceSet.fqn", params={"self": "SourceObj"}, returns="str", props=P,
               ensures=["result == 'SourceSet(' + join_str('||', src_fqns(set_sources(self))) + ')'"], note="property; the members' fqns in member order, joined by the set delimiter"))
    A(Contract(f"{OM}:PositionSet.fqn", params={"self": "PositionObj"}, returns="str", props=P,
               ensures=["result == 'PositionSet(' + join_str('||', pos_fqns(set_positions(self))) + ')'"], note="property; the members' fqns in member order, joined by the set delimiter"))
    # ---- lemmas -----------------------------------------------------------------------------------------------
    L = [snoc_from_cons("flat-snoc", lambda s_: flat.t(s_), lambda ex, y: piece(y), [], ORG.z3(), SO.z3(), P)]
    a_, b_ = z3.Const("a_pl", SO.z3()), z3.Const("b_pl", SO.z3())
    y_ = z3.Const("y_pl", ORG.z3())

    def pc_base(bank):
        return [], plain.t(z3.Concat(a_, E)) == z3.And(plain.t(a_), plain.t(E))

    def pc_step(bank):
        ih = plain.t(z3.Concat(a_, b_)) == z3.And(plain.t(a_), plain.t(b_))
        whole = z3.Concat(a_, mk_snoc(b_, y_))
        bank.add(whole, ("snoc", z3.Concat(a_, b_), y_))
        return [ih], plain.t(whole) == z3.And(plain.t(a_), plain.t(mk_snoc(b_, y_)))
    L.append(Lemma("plain-concat", [("base", pc_base), ("step", pc_step)], P))

    def wp_base(bank):
        return [], z3.Implies(wf_all.t(z3.Concat(a_, E)), wf_all.t(a_))

    def wp_step(bank):
        ih = z3.Implies(wf_all.t(z3.Concat(a_, b_)), wf_all.t(a_))
        whole = z3.Concat(a_, mk_snoc(b_, y_))
        bank.add(whole, ("snoc", z3.Concat(a_, b_), y_))
        return [ih], z3.Implies(wf_all.t(whole), wf_all.t(a_))
    L.append(Lemma("wf_all-prefix", [("base", wp_base), ("step", wp_step)], P))
    world.trusted_notes.append('list comprehension = map (sources_of / positions_of / fqns), all(generator) = conjunction over the iterated sequence (all_src), str.join = interleaving (join_str)')
    world.trusted_notes.append('dispatch of + over origins: CodeOrigin and its subclasses use CodeOrigin.__add__, every other library class Origin.__add__ (user subclasses overriding __add__ are excluded)')
    return world, lib, reg, L
