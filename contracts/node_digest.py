"""C01 / C03 (construction): ASTNode.__post_init__ -- the digest inputs, content_id, id and registration --
and ASTNode.is_equal.

ENC_cid(n) = clsname ++ PP(props_sorted_comparable(n)) ++ CP(kids_sorted(n))
  PP([])          = ""      PP(ps ++ [(v, f)]) = PP(ps) ++ ":" ++ fname(f) ++ "=" ++ type_str(v) ++ "(" ++ str_of(v) ++ ")"
  CP([])          = ""      CP(cs ++ [(c, f, i)]) = CP(cs) ++ ":" ++ fname(f) ++ "[" ++ idx(i) ++ "]=" ++ content_id(c)
  idx(i)          = str(i) if i is a non-zero index else "-1"      (the code's `i or -1`)
The *term* is read off the two real loops by symbolic execution (loop invariants below), so the shape
of the encoding is the code's, not a hand-written copy.  H = blake2b(...).hexdigest() is an
uninterpreted function of (text, digest size).  str_of / type_str are the assumed contracts of
str(v) / str(type(v)) (DESIGN section 3.5)."""
from __future__ import annotations

import z3

from pyvc.contract import Contract, Loop, Registry
from pyvc.core import mk_snoc
from pyvc.maps import VMap
from pyvc.specfn import SpecLib
from pyvc.symex import World
from pyvc.values import BOOL, INT, NONE, STR, EngineError, V, VBool, VBound, VCls, VInt, VOpt, VPy, VSeq, VStr, VTuple, VU, opt_of, rec_sort, seq_of, usort

from .node_common import M, NodeVocab


def build():
    reg = Registry()
    world = World(reg)
    lib = SpecLib()
    nv = NodeVocab(world, lib)
    REF, FLD, CLS = nv.REF, nv.FLD, nv.CLS
    OINT = opt_of(INT)
    PVAL = usort("PVal")
    PP_ = rec_sort("PropPos", [("val", PVAL), ("field", FLD)], tuple_like=True)
    CPOS = nv.CPOS
    SPP, SCP = seq_of(PP_), seq_of(CPOS)
    str_of = z3.Function("str_of", PVAL.z3(), z3.StringSort())
    type_str = z3.Function("type_str", PVAL.z3(), z3.StringSort())
    H = z3.Function("blake2b_hex", z3.StringSort(), z3.IntSort(), z3.StringSort())
    fqn = z3.Function("origin_fqn", nv.ORIGIN.z3(), z3.StringSort())
    props_sc = lib.fn("props_sorted_comparable", [REF], SPP)   # get_properties(skip_id, skip_origin, skip_content_id, skip_non_compare, sort_keys=True)
    kids_s = lib.fn("kids_sorted", [REF], SCP)                 # get_child_nodes_with_field(sort_keys=True)
    PPf = lib.fn("PP", [SPP], STR)
    CPf = lib.fn("CP", [SCP], STR)
    CPid = lib.fn("CPid", [SCP], STR)
    S = z3.StringVal

    def idx_str(i):
        iv = OINT.val(i)
        neg1 = z3.Or(OINT.is_none(i), iv == 0)
        return z3.If(neg1, S("-1"), z3.If(iv >= 0, z3.IntToStr(iv), z3.Concat(S("-"), z3.IntToStr(-iv))))

    def ppiece(x):
        v, f = PP_.get(x, "val").term, PP_.get(x, "field").term
        return z3.Concat(S(":"), nv.fname(f), S("="), type_str(v), S("("), str_of(v), S(")"))

    def cpiece(x, with_origin):
        c, f, i = CPOS.get(x, "child").term, CPOS.get(x, "field").term, CPOS.get(x, "index").term
        base = z3.Concat(S(":"), nv.fname(f), S("["), idx_str(i), S("]="), nv.f_cid(c))
        return z3.Concat(base, S("@"), fqn(nv.f_origin(c))) if with_origin else base

    PPf.rule("PP-empty", 0, "empty")(lambda a, p: S(""))
    PPf.rule("PP-snoc", 0, "snoc")(lambda a, p: z3.Concat(PPf.t(p[0]), ppiece(p[1])))
    CPf.rule("CP-empty", 0, "empty")(lambda a, p: S(""))
    CPf.rule("CP-snoc", 0, "snoc")(lambda a, p: z3.Concat(CPf.t(p[0]), cpiece(p[1], False)))
    CPid.rule("CPid-empty", 0, "empty")(lambda a, p: S(""))
    CPid.rule("CPid-snoc", 0, "snoc")(lambda a, p: z3.Concat(CPid.t(p[0]), cpiece(p[1], True)))
    sf = world.spec_fns
    sf.update({"PP": PPf, "CP": CPf, "CPid": CPid, "props_sc": props_sc, "kids_sorted": kids_s,
               "H": lambda s_, n: VStr(H(s_.term, n.term)), "clsname": lambda n: VStr(nv.cls_name(nv.cls_of(nv.ref(n)))),
               "fqn": lambda o: VStr(fqn(o.term))})
    sf["ENC_cid"] = lambda n: VStr(z3.Concat(nv.cls_name(nv.cls_of(nv.ref(n))), PPf.t(props_sc.t(nv.ref(n))), CPf.t(kids_s.t(nv.ref(n)))))
    sf["ENC_id"] = lambda n: VStr(z3.Concat(nv.cls_name(nv.cls_of(nv.ref(n))), S("@"), fqn(nv.f_origin(nv.ref(n))), PPf.t(props_sc.t(nv.ref(n))), CPid.t(kids_s.t(nv.ref(n)))))
    # the node under construction: id / content_id are written once, by object.__setattr__, on `self`
    G = {"NODE_REGISTRY": "Dict[str,Ref]", "config.RUNTIME_TYPE_CHECK": "bool", "config.ID_DIGEST_SIZE": "int", "SELF_ID": "Opt[str]", "SELF_CID": "Opt[str]"}

    def attr(m, obj, name):
        if isinstance(obj, VU) and obj.sort == REF and "self" in m.env and obj.term.get_id() == m.env["self"].term.get_id() \
                and m.contract.qualname.endswith("__post_init__") and not m.spec:
            if name == "id":
                raise EngineError("read of self.id before it is assigned")
        if isinstance(obj, VU) and obj.sort == nv.ORIGIN and name == "fqn":
            return VStr(fqn(obj.term))
        if isinstance(obj, VPy) and obj.obj == ("blake",):
            return VBound(obj, name)
        if isinstance(obj, VStr) and name == "encode":
            return VBound(obj, name)
        return None

    def call(m, func, args, kwargs, node):
        if isinstance(func, VPy) and func.obj == ("modattr", "hashlib", "blake2b"):
            return VPy(("blakeobj", args[0], kwargs["digest_size"]))
        if isinstance(func, VBound) and isinstance(func.recv, VPy) and isinstance(func.recv.obj, tuple) and func.recv.obj[0] == "blakeobj" and func.name == "hexdigest":
            return VStr(H(func.recv.obj[1].term, func.recv.obj[2].term))
        if isinstance(func, VBound) and isinstance(func.recv, VStr) and func.name == "encode":
            return func.recv
        if isinstance(func, VPy) and func.obj == ("setattr",) and isinstance(args[0], VU) and args[0].sort == REF:
            tgt, name, val = args
            nm = name.term.as_string() if isinstance(name, VStr) else name.obj
            if tgt.term.get_id() != m.env["self"].term.get_id():
                raise EngineError("object.__setattr__ on an object other than self")
            if nm == "content_id":
                m.global_syms["SELF_CID"] = opt_of(STR).some(val)
                return NONE
            if nm == "id":
                m.global_syms["SELF_ID"] = opt_of(STR).some(val)
                return NONE
        if isinstance(func, VPy) and func.obj == ("builtin", "type") and isinstance(args[0], VU) and args[0].sort == PVAL:
            return VPy(("typeof", args[0]))
        return NotImplemented

    def str_hook(m, v):
        if isinstance(v, VU) and v.sort == PVAL:
            return VStr(str_of(v.term))
        if isinstance(v, VPy) and isinstance(v.obj, tuple) and v.obj[0] == "typeof":
            return VStr(type_str(v.obj[1].term))
        return None

    world.attr_hooks.insert(0, lambda m, o, n: VBound(o, n) if isinstance(o, VPy) and isinstance(o.obj, tuple) and o.obj[0] == "blakeobj" else None)
    world.attr_hooks.insert(0, attr)
    world.call_hooks.insert(0, call)
    world.str_hooks.append(str_hook)
    # `x in NODE_REGISTRY` for the dict cell is handled by the engine; `i or -1` on Opt[int] by truthiness of options
    A = reg.add
    A(Contract(f"{M}:ASTNode.get_properties", params={"self": "Ref", "skip_id": "bool", "skip_origin": "bool", "skip_content_id": "bool", "skip_non_compare": "bool",
                                                        "skip_non_init": "bool", "sort_keys": "bool"}, returns="Seq[PropPos]", props=["C01", "C03"], trusted=True,
               trusted_reason="generated accessor, proved per class under C12",
               ensures=["implies(skip_id and skip_origin and skip_content_id and skip_non_compare and not skip_non_init and sort_keys, result == props_sc(self))"]))
    A(Contract(f"{M}:ASTNode.get_child_nodes_with_field", params={"self": "Ref", "sort_keys": "bool"}, returns="Seq[ChildPos]", props=["C01", "C03"], trusted=True,
               trusted_reason="generated accessor, proved per class under C12", ensures=["implies(sort_keys, result == kids_sorted(self))"]))
    A(Contract(f"{M}:_get_next_unique_id", params={"id_": "str"}, returns="str", globals={"NODE_REGISTRY": "Dict[str,Ref]"}, props=["C03"], trusted=True,
               trusted_reason="proved under C03 (contracts.node_registry)",
               ensures=["reg_get(NODE_REGISTRY, result) is None", "NODE_REGISTRY == old(NODE_REGISTRY)"]))
    bad_of = z3.Function("bad_fields_of", REF.z3(), z3.SeqSort(FLD.z3()))
    sf["bad_fields_of"] = lambda n: seq_of(FLD).wrap(bad_of(nv.ref(n)))
    A(Contract(f"{M}:_check_runtime_types", params={"node": "Ref", "type_map": "py:typemap"}, returns="Seq[Fld]", props=["C13"], trusted=True,
               trusted_reason="proved under C13 (contracts.typing_area): exactly the fields whose value does not conform; abstracted here as bad_fields_of(node) "
                              "for the mapping of all fields except id / content_id",
               may_raise=["RuntimeError"], ensures=["result == bad_fields_of(node)"]))
    world.exc_parents["InvalidTypes"] = "Exception"

    def dictcomp_hook(m, e, hint):
        src = ast.unparse(e) if isinstance(e, ast.DictComp) else ""
        return None

    import ast
    orig_dictcomp = None

    def call_gate(m, func, args, kwargs, node):
        return NotImplemented

    # the dict comprehension that selects the fields to check is opaque here (it only filters id / content_id)
    from pyvc import maps as _maps
    _orig = _maps.eval_dictcomp

    def eval_dictcomp(m, e, hint):
        if m.world is world and "get_cls_all_fields" in ast.unparse(e):
            return VPy("typemap")
        return _orig(m, e, hint)

    _maps.eval_dictcomp = eval_dictcomp
    world.name_hooks.append(lambda m, n: VCls("InvalidTypes") if n == "InvalidTypes" else None)
    A(Contract(f"{M}:ASTNode.__post_init__", params={"self": "Ref"}, globals=G, modifies=["NODE_REGISTRY", "SELF_ID", "SELF_CID"], props=["C01", "C03"],
               requires=["not config.RUNTIME_TYPE_CHECK", "SELF_ID is None", "SELF_CID is None"],
               ensures=["SELF_CID == H(ENC_cid(self), config.ID_DIGEST_SIZE)",
                        "SELF_ID is not None",
                        "reg_get(old(NODE_REGISTRY), SELF_ID) is None",
                        "NODE_REGISTRY == reg_set(old(NODE_REGISTRY), SELF_ID, self)",
                        "implies(reg_get(old(NODE_REGISTRY), H(ENC_id(self), config.ID_DIGEST_SIZE)) is None, SELF_ID == H(ENC_id(self), config.ID_DIGEST_SIZE))"],
               loops={1: Loop(inv=["cid_data == PP(done1)"]),
                      2: Loop(inv=["cid_data == clsname(self) + PP(props_sc(self)) + CP(done2)",
                                   "id_data == clsname(self) + '@' + fqn(self.origin) + PP(props_sc(self)) + CPid(done2)"])},
               note="content_id is the digest of ENC_cid(self), a function of the class name, the sorted comparable properties and the sorted children's content_ids only; "
                    "the id is the digest of ENC_id(self) when that key is free, otherwise a free collision-suffixed key; the node is registered under it and nothing else changes. "
                    "(type-check gate: C13; flag off in this contract)"))
    A(Contract(f"{M}:ASTNode.__post_init__", variant_of="type-check-on", params={"self": "Ref"}, globals=G, modifies=["NODE_REGISTRY", "SELF_ID", "SELF_CID"], props=["C13"],
               requires=["config.RUNTIME_TYPE_CHECK", "SELF_ID is None", "SELF_CID is None"],
               raises=[("InvalidTypes", "len(bad_fields_of(self)) > 0")], may_raise=["RuntimeError"],
               exc_ensures=["NODE_REGISTRY == old(NODE_REGISTRY)", "SELF_ID is None", "SELF_CID is None"],
               ensures=["SELF_CID == H(ENC_cid(self), config.ID_DIGEST_SIZE)", "NODE_REGISTRY == reg_set(old(NODE_REGISTRY), SELF_ID, self)",
                        "implies(reg_get(old(NODE_REGISTRY), H(ENC_id(self), config.ID_DIGEST_SIZE)) is None, SELF_ID == H(ENC_id(self), config.ID_DIGEST_SIZE))"],
               loops={1: Loop(inv=["cid_data == PP(done1)"]),
                      2: Loop(inv=["cid_data == clsname(self) + PP(props_sc(self)) + CP(done2)",
                                   "id_data == clsname(self) + '@' + fqn(self.origin) + PP(props_sc(self)) + CPid(done2)"])},
               note="with checking on: InvalidTypes exactly when some field does not conform, raised before any digest or registry effect; otherwise the very same "
                    "content_id / id / registration as with checking off (the flag-off contract has identical postconditions)"))
    # ---- deserialization: re-use of a registered node or forcing the serialized id ---------------------------
    PAY = usort("Payload")
    pay_id = z3.Function("payload_id", PAY.z3(), z3.StringSort())
    sf["payload_id"] = lambda v: VStr(pay_id(v.term))
    world.index_hooks = getattr(world, "index_hooks", []) + [
        lambda m, c, i: VStr(pay_id(c.term)) if isinstance(c, VU) and c.sort == PAY and isinstance(i, VStr) and z3.is_string_value(i.term) and i.term.as_string() == "id" else None]

    def attr_d(m, obj, name):
        fresh = m.ghost_env.get("_fresh_node")
        if fresh is not None and isinstance(obj, VU) and obj.sort == REF and obj.term.get_id() == fresh.term.get_id() and name == "id" and not m.spec:
            return m.global_syms["NEW_ID"]
        if isinstance(obj, VPy) and obj.obj == ("super",) and name == "_deserialize":
            return VPy(("super_deser",))
        return None

    def call_d(m, func, args, kwargs, node):
        if isinstance(func, VPy) and func.obj == ("builtin", "super"):
            return VPy(("super",))
        if isinstance(func, VPy) and func.obj == ("super_deser",):
            n = m.call_contract("mashumaro:from_dict_node", [args[0]], {})
            m.ghost_env["_fresh_node"] = n
            return n
        if isinstance(func, VPy) and func.obj == ("setattr",) and isinstance(args[0], VU) and args[0].sort == REF and m.contract.qualname.endswith("_deserialize"):
            fresh = m.ghost_env.get("_fresh_node")
            nm = args[1].term.as_string() if isinstance(args[1], VStr) else args[1].obj
            if fresh is None or args[0].term.get_id() != fresh.term.get_id() or nm != "id":
                raise EngineError("object.__setattr__ on an object that is not the freshly deserialized node")
            m.global_syms["NEW_ID"] = STR.coerce(args[2])
            return NONE
        return NotImplemented

    world.attr_hooks.insert(0, attr_d)
    world.call_hooks.insert(0, call_d)
    GD = {"NODE_REGISTRY": "Dict[str,Ref]", "NEW_ID": "str"}
    A(Contract("mashumaro:from_dict_node", params={"value": "Payload"}, returns="Ref", globals=GD, modifies=["NODE_REGISTRY", "NEW_ID"], props=["C03", "C04"], trusted=True,
               trusted_reason="DataClassSerializeMixin._deserialize -> mashumaro from_dict: constructs a new node (children resolved by this same _deserialize); its __post_init__ "
                              "registers it under a free id (proved above), here called NEW_ID",
               raises=[("Exception", "*")], exc_ensures=["NODE_REGISTRY == old(NODE_REGISTRY)"],
               ensures=["reg_get(old(NODE_REGISTRY), NEW_ID) is None", "NODE_REGISTRY == reg_set(old(NODE_REGISTRY), NEW_ID, result)",
                        "registered_nowhere(old(NODE_REGISTRY), result)"]))
    sf["registered_as"] = lambda r, k, n: VBool(z3.Select(r.term, STR.coerce(k).term) == nv.REG.opt.some(REF.coerce(n)).term)
    A(Contract(f"{M}:_unregister", variant_of="fresh-node", params={"node": "Ref"}, returns="bool", globals=GD, modifies=["NODE_REGISTRY"], props=["C03", "C04"], trusted=True,
               trusted_reason="proved under C03 (contracts.node_registry); restated for the node under deserialization, whose id is the ghost slot NEW_ID at the time of the call",
               ensures=["result == registered_as(old(NODE_REGISTRY), NEW_ID, node)",
                        "implies(result, NODE_REGISTRY == reg_remove(old(NODE_REGISTRY), NEW_ID))", "implies(not result, NODE_REGISTRY == old(NODE_REGISTRY))"]))
    reg.contracts[f"{M}:_unregister#fresh-node"].fn = f"{M}:_unregister"

    def unreg_name(m, n):
        if n == "_unregister" and m.contract.qualname.endswith("_deserialize"):
            return VPy(("unregister_fresh",))
        return None

    def unreg_call(m, func, args, kwargs, node):
        if isinstance(func, VPy) and func.obj == ("unregister_fresh",):
            fresh = m.ghost_env.get("_fresh_node")
            if fresh is None or not isinstance(args[0], VU) or args[0].term.get_id() != fresh.term.get_id():
                raise EngineError("_unregister of a node other than the freshly deserialized one")
            return m.call_contract(f"{M}:_unregister#fresh-node", args, kwargs)
        return NotImplemented

    world.name_hooks.append(unreg_name)
    world.call_hooks.insert(0, unreg_call)
    nowhere = z3.Function("registered_nowhere", nv.REG.z3(), REF.z3(), z3.BoolSort())
    sf["registered_nowhere"] = lambda r, n: VBool(nowhere(r.term, nv.ref(n)))
    A(Contract(f"{M}:ASTNode._deserialize", params={"cls": "py:cls", "value": "Payload"}, returns="Ref", globals=GD, modifies=["NODE_REGISTRY", "NEW_ID"], props=["C03", "C04"],
               may_raise=["Exception"], exc_ensures=["NODE_REGISTRY == old(NODE_REGISTRY)"],
               ensures=["implies(reg_get(old(NODE_REGISTRY), payload_id(value)) is not None, result == reg_get(old(NODE_REGISTRY), payload_id(value)) and NODE_REGISTRY == old(NODE_REGISTRY))",
                        "implies(reg_get(old(NODE_REGISTRY), payload_id(value)) is None, NODE_REGISTRY == reg_set(old(NODE_REGISTRY), payload_id(value), result) and NEW_ID == payload_id(value))"],
               note="a node still registered under the serialized id is returned itself; otherwise the new node ends up registered under exactly the serialized id "
                    "(its construction-time id entry is removed) and under no other key"))
    A(Contract(f"{M}:ASTNode.is_equal", params={"self": "Ref", "other": "Ref"}, returns="bool", props=["C01"],
               ensures=["result == (cls_of(other) == cls_of(self) and self.content_id == other.content_id)"]))
    return world, lib, reg, []
