"""C18 (last sentence): the upward queries of the legacy parent-aware nodes agree with the parent structure.

The functions here only read the heap, so the parent link is a function of the node in this area:
  lparent(n) : Opt[Ref]     what the property `parent` returns (proved in contracts.legacy_heap: the node registered under the recorded
                            parent id, None when there is none)
  lchain(n)  : Seq[Ref]     the parent chain, nearest first:   lchain(n) = []  if lparent(n) is None  else  [p] ++ lchain(p)
The recursion is well founded because the parent relation of a consistent legacy forest is acyclic (a rank exists: rank(n) ==
rank(parent) + 1 >= 1); that is part of what C18's history invariant states and is assumed here (trusted note).
Identity matters: `self` is an ancestor of `node` when this very object occurs in lchain(node).  The legacy nodes are plain dataclasses
with `id` excluded from comparison, so `a == b` is content-and-origin equality (leq: an equivalence that identity implies, nothing more)."""
from __future__ import annotations

import z3

from pyvc.contract import Contract, Loop, Registry
from pyvc.core import mk_cons
from pyvc.specfn import SpecLib
from pyvc.symex import World
from pyvc.values import BOOL, INT, NONE, STR, V, VBool, VCls, VOpt, VPy, VSeq, VStr, VU, opt_of, seq_of
from pyvc.verify import Lemma

from .node_common import NodeVocab

LM = "pyoak.legacy.node"


def build():
    reg = Registry()
    world = World(reg)
    lib = SpecLib()
    nv = NodeVocab(world, lib)
    REF, CLS = nv.REF, nv.CLS
    OREF = opt_of(REF)
    SR, SCLS = seq_of(REF), seq_of(CLS)
    E = z3.Empty(SR.z3())
    world.usort_class["Ref"] = "AwareASTNode"
    world.class_parents["AwareASTNode"] = []
    world.class_module["AwareASTNode"] = LM
    lparent = z3.Function("lparent", REF.z3(), OREF.z3())
    rank = z3.Function("lrank", REF.z3(), z3.IntSort())
    leq = z3.Function("legacy_eq", REF.z3(), REF.z3(), z3.BoolSort())
    lchain = lib.fn("lchain", [REF], SR)
    ochain = lambda p: z3.If(OREF.is_none(p), E, mk_cons(OREF.val(p), lchain.t(OREF.val(p))))
    lchain.rule("lchain-def", 0, "always")(lambda a, p: ochain(lparent(a[0])))
    # acyclicity, instantiated wherever a chain is unfolded
    lchain.rule("lchain-rank", 0, "always", raw=True)(lambda a, p: z3.And(rank(a[0]) >= 0, z3.Implies(z3.Not(OREF.is_none(lparent(a[0]))),
                                                                                                  rank(a[0]) == rank(OREF.val(lparent(a[0]))) + 1)))
    inst_any = z3.Function("inst_any", CLS.z3(), SCLS.z3(), z3.BoolSort())
    classtest = lambda cs, exact, n: z3.If(exact, z3.Contains(cs, z3.Unit(nv.cls_of(n))), inst_any(nv.cls_of(n), cs))
    first_of = lib.fn("first_of_class", [SCLS, BOOL, SR], OREF)
    first_of.rule("first-empty", 2, "empty")(lambda a, p: OREF.none().term)
    first_of.rule("first-cons", 2, "cons")(lambda a, p: z3.If(classtest(a[0], a[1], p[0]), OREF.some(REF.wrap(p[0])).term, first_of.t(a[0], a[1], p[1])))
    first_of.rule("first_of_class-concat", 2, "concat", "lemma")(lambda a, p: z3.If(OREF.is_none(first_of.t(a[0], a[1], p[0])), first_of.t(a[0], a[1], p[1]), first_of.t(a[0], a[1], p[0])))
    # membership / first position in a node sequence (identity of the elements), with their unfolding along a chain as proved lemma rules
    mem = lib.fn("seq_mem", [SR, REF], BOOL)
    idx = lib.fn("seq_index", [SR, REF], INT)
    mem_empty, mem_cons = (lambda x: z3.BoolVal(False)), (lambda h, r, x: z3.Or(h == x, mem.t(r, x)))
    idx_empty, idx_cons = (lambda x: z3.IntVal(0)), (lambda h, r, x: z3.If(h == x, z3.IntVal(0), 1 + idx.t(r, x)))
    mem.rule("seq_mem-empty", 0, "empty")(lambda a, p: mem_empty(a[1]))
    mem.rule("seq_mem-cons", 0, "cons")(lambda a, p: mem_cons(p[0], p[1], a[1]))
    idx.rule("seq_index-empty", 0, "empty")(lambda a, p: idx_empty(a[1]))
    idx.rule("seq_index-cons", 0, "cons")(lambda a, p: idx_cons(p[0], p[1], a[1]))
    par = lambda n: OREF.val(lparent(n))
    mem_chain = lambda n, x: z3.And(z3.Not(OREF.is_none(lparent(n))), z3.Or(par(n) == x, mem.t(lchain.t(par(n)), x)))
    idx_chain = lambda n, x: z3.If(OREF.is_none(lparent(n)), z3.IntVal(0), z3.If(par(n) == x, z3.IntVal(0), 1 + idx.t(lchain.t(par(n)), x)))
    mem.rule("seq_mem-chain", 0, "app:lchain", "lemma")(lambda a, p: mem_chain(p[0], a[1]))
    idx.rule("seq_index-chain", 0, "app:lchain", "lemma")(lambda a, p: idx_chain(p[0], a[1]))
    sf = world.spec_fns
    sf.update({"lchain": lchain, "first_of_class": first_of, "seq_mem": mem, "seq_index": idx,
               "lparent": lambda n: VOpt(lparent(nv.ref(n)), OREF),
               "ochain": lambda p: SR.wrap(ochain(OREF.coerce(p).term)),
               "classes_of": lambda oc: SCLS.coerce(oc) if not isinstance(oc, VU) else SCLS.wrap(z3.Unit(oc.term))})

    # `a == b` / `a != b` between legacy nodes: the dataclass-generated __eq__ (content and origin), not identity
    def py_eq(m, a, b):
        if isinstance(a, VU) and isinstance(b, VU) and a.sort == REF and b.sort == REF:
            return z3.Or(a.term == b.term, leq(a.term, b.term))
        return None

    world.py_eq_hooks.insert(0, py_eq)

    def call_cid(m, func, a, kw, nd):
        if isinstance(func, VPy) and func.obj == ("setattr",) and isinstance(a[0], VU) and a[0].sort == REF and getattr(a[1], "obj", None) == "content_id":
            c = m.ctx.cell(m.global_syms["CID"].addr)
            c.value = VMap(z3.Store(c.value.term, a[0].term, c.value.sort.opt.some(a[2]).term), c.value.sort)
            return NONE
        return NotImplemented

    world.call_hooks.insert(0, call_cid)

    def isinst(m, v, cls):
        if isinstance(v, VU) and v.sort == REF and isinstance(cls, VSeq) and cls.sort == SCLS:
            return inst_any(nv.cls_of(v.term), cls.term)
        if isinstance(v, VU) and v.sort == CLS:
            return z3.BoolVal(False) if getattr(cls, "name", "") in ("tuple",) else None
        if isinstance(v, VSeq) and v.sort == SCLS and getattr(cls, "name", "") == "tuple":
            return z3.BoolVal(True)
        return None

    world.isinstance_hooks.insert(0, isinst)
    world.name_hooks.append(lambda m, n: VCls(n) if n in ("AwareASTNode",) else None)
    A = reg.add
    P = ["C18"]
    A(Contract(f"{LM}:AwareASTNode.parent", params={"self": "Ref"}, returns="Opt[Ref]", props=P, trusted=True,
               trusted_reason="proved in contracts.legacy_heap (the node registered under the recorded parent id); the queries of this area do not write the heap, "
                              "so the link is the function lparent of the node here",
               ensures=["result == lparent(self)"], note="property"))
    A(Contract(f"{LM}:AwareASTNode.ancestors", params={"self": "Ref"}, returns="Seq[Ref]", generator=True, props=P,
               locals={"parent": "Opt[Ref]"},
               ensures=["result == lchain(self)"],
               loops={1: Loop(inv=["out + ochain(parent) == lchain(self)"])},
               note="the parent chain, nearest ancestor first, root last"))
    A(Contract(f"{LM}:AwareASTNode.ancestors", variant_of="callee", params={"self": "Ref"}, returns="Seq[Ref]", props=P, trusted=True,
               trusted_reason="proved above", ensures=["result == lchain(self)"]))
    reg.contracts[f"{LM}:AwareASTNode.ancestors#callee"].fn = f"{LM}:AwareASTNode.ancestors"
    A(Contract(f"{LM}:AwareASTNode.is_ancestor", params={"self": "Ref", "node": "Ref"}, returns="bool", props=P,
               ensures=["result == seq_mem(lchain(node), self)"],
               note="True exactly when this very object occurs in the node's parent chain (recursive calls: induction hypothesis on the chain)"))
    A(Contract(f"{LM}:AwareASTNode.get_depth", params={"self": "Ref", "relative_to": "Opt[Ref]", "check_ancestor": "bool"}, returns="int", props=P,
               raises=[("ValueError", "relative_to is not None and check_ancestor and not seq_mem(lchain(self), relative_to)")],
               ensures=["implies(relative_to is None or not seq_mem(lchain(self), relative_to), result == len(lchain(self)))",
                        "implies(relative_to is not None and seq_mem(lchain(self), relative_to), result == seq_index(lchain(self), relative_to) + 1)"],
               note="the number of ancestors up to the root, or up to and including relative_to when that very object is an ancestor; ValueError when it is not (unless the check is waived)"))
    for variant, osort in ((None, "Seq[Cls]"), ("single-class", "Cls")):
        A(Contract(f"{LM}:AwareASTNode.get_first_ancestor_of_type", variant_of=variant, props=P, returns="Opt[Ref]",
                   params={"self": "Ref", "ancestor_class": osort, "exact_type": "bool"}, locals={"ancestor_classes": "Seq[Cls]"},
                   ensures=["result == first_of_class(classes_of(ancestor_class), exact_type, lchain(self))"],
                   loops={1: Loop(inv=["first_of_class(ancestor_classes, exact_type, done1) is None", "seq1 == lchain(self)"])},
                   note="the nearest ancestor whose class passes the test (exact class, or isinstance), None when there is none"))
    # ---- content-id propagation: _reset_content_id recomputes the node and every ancestor, bottom-up ------------------------------------------------
    from pyvc.maps import VMap, map_sort
    from pyvc.qpred import QPred, instantiator
    from pyvc.values import NONE, STR, VPy, VStr
    CM = map_sort(REF, STR)
    lkids = lib.fn("lkids", [REF], SR)
    cid_def = z3.Function("content_id_of", REF.z3(), CM.z3(), z3.StringSort())      # sha256 over class name, properties and the children's *current* content ids
    is_kid = lambda c, n: z3.Contains(lkids.t(n), z3.Unit(c))
    agree = QPred("agree_on_children", [CM.z3(), CM.z3(), REF.z3()], REF.z3(), lambda a, c: z3.Implies(is_kid(c, a[2]), z3.Select(a[0], c) == z3.Select(a[1], c)))
    lib.extra_instantiators.append(instantiator([agree]))

    def cid_instances(formulas):
        """extensionality of content_id_of in the children's entries; a child reports its parent (and sits one rank lower)"""
        out, seen, stack, cids, kids = [], set(), list(formulas), [], []
        while stack:
            f = stack.pop()
            if not z3.is_app(f) or f.get_id() in seen:
                continue
            seen.add(f.get_id())
            if f.decl().name() == "content_id_of":
                cids.append(f)
            if f.decl().kind() == z3.Z3_OP_SEQ_CONTAINS and z3.is_app(f.arg(0)) and f.arg(0).decl().name() == "lkids" and f.arg(1).decl().kind() == z3.Z3_OP_SEQ_UNIT:
                kids.append((f, f.arg(1).arg(0), f.arg(0).arg(0)))
            stack.extend(f.children())
        for a in cids:
            for b in cids:
                if a.get_id() < b.get_id() and a.arg(0).eq(b.arg(0)):
                    out.append(z3.Implies(agree.t(a.arg(1), b.arg(1), a.arg(0)), a == b))
                    out.append(z3.Implies(agree.t(b.arg(1), a.arg(1), a.arg(0)), a == b))
        for f, c, n in kids:
            out.append(z3.Implies(f, z3.And(lparent(c) == OREF.some(REF.wrap(n)).term, rank(c) == rank(n) + 1, rank(n) >= 0)))
        return out

    lib.extra_instantiators.append(cid_instances)

    def chain_instances(formulas):
        """two facts about membership in a parent chain, proved below by induction along the chain (lemmas chain-closed-under-parent, chain-ranks-below)"""
        out, seen, stack, mems = [], set(), list(formulas), []
        while stack:
            f = stack.pop()
            if not z3.is_app(f) or f.get_id() in seen:
                continue
            seen.add(f.get_id())
            if f.decl().name() == "seq_mem" and z3.is_app(f.arg(0)) and f.arg(0).decl().name() == "lchain":
                mems.append(f)
            stack.extend(f.children())
        for f in mems:
            s_, n_ = f.arg(0).arg(0), f.arg(1)
            out.append(z3.Implies(f, rank(n_) < rank(s_)))
            out.append(z3.Implies(z3.And(f, z3.Not(OREF.is_none(lparent(n_)))), mem.t(lchain.t(s_), OREF.val(lparent(n_)))))
        return out

    chain_instances.encodes = {"chain-closed-under-parent", "chain-ranks-below"}
    lib.extra_instantiators.append(chain_instances)
    on_path = lambda k, n: z3.Or(k == n, mem.t(lchain.t(n), k))
    sf.update({"content_id_of": lambda n, M: VStr(cid_def(nv.ref(n), M.term)),
               "mget": lambda mp, k: VOpt(z3.Select(mp.term, mp.sort.key.coerce(k).term), mp.sort.opt),
               "mset": lambda mp, k, v: VMap(z3.Store(mp.term, mp.sort.key.coerce(k).term, mp.sort.opt.some(v).term), mp.sort),
               "on_path": lambda k, n: VBool(on_path(nv.ref(k), nv.ref(n))),
               "on_rest": lambda k, po: VBool(z3.And(z3.Not(OREF.is_none(OREF.coerce(po).term)), on_path(nv.ref(k), OREF.val(OREF.coerce(po).term)))),
               "lrank": lambda n: __import__("pyvc.values", fromlist=["VInt"]).VInt(rank(nv.ref(n))),
               "rank_above": lambda k, po: VBool(z3.Or(OREF.is_none(OREF.coerce(po).term), rank(nv.ref(k)) > rank(OREF.val(OREF.coerce(po).term))))})
    GC = {"CID": "Dict[Ref,str]"}
    A(Contract(f"{LM}:AwareASTNode._set_content_id", params={"self": "Ref"}, props=P, globals=GC, modifies=["CID"], trusted=True,
               trusted_reason="sha256 over the class name, the name-sorted comparable properties and the children's current content ids (sorted by field and index): a function "
                              "content_id_of(node, CID) that depends on CID only through the entries of the node's children (extensionality, instantiated by the generator); "
                              "bounded: rt.c18 compares every attached node's content_id with that of an independently rebuilt equal tree",
               ensures=["CID == mset(old(CID), self, content_id_of(self, old(CID)))"]))
    PROC = "(on_path(k, self) and not on_rest(k, node))"
    A(Contract(f"{LM}:AwareASTNode._reset_content_id", params={"self": "Ref"}, props=P, globals=GC, modifies=["CID"], ghost={"k": "Ref"},
               locals={"node": "Opt[Ref]"},
               ensures=["implies(on_path(k, self), mget(CID, k) == content_id_of(k, CID))",
                        "implies(not on_path(k, self), mget(CID, k) == mget(old(CID), k))"],
               loops={1: Loop(inv=[f"implies({PROC}, mget(CID, k) == content_id_of(k, CID))",
                                   f"implies(not {PROC}, mget(CID, k) == mget(old(CID), k))",
                                   "implies(node is not None, on_path(node, self))",
                                   f"implies({PROC}, rank_above(k, node))"])},
               note="for an arbitrary node k: afterwards the node itself and every ancestor carry the content id computed from their children's *final* ids (each is recomputed "
                    "after everything below it on the path), and no other node's content id is touched"))
    world.trusted_notes.append("a child reports its parent (lparent(c) == n for c in lkids(n)) and sits one rank below it -- the C18 invariant, used for the content-id path only")
    world.trusted_notes.append("the parent relation of the legacy forest is acyclic (a rank function exists); `==` between legacy nodes is the dataclass-generated "
                               "content-and-origin equality, implied by identity")
    return world, lib, reg, lemmas(lib, nv, dict(first_of=first_of, classtest=classtest, OREF=OREF, SR=SR, SCLS=SCLS, lchain=lchain, ochain=ochain, lparent=lparent, mem=mem, idx=idx,
                                                 defs=(mem_empty, mem_cons, idx_empty, idx_cons, mem_chain, idx_chain), rank=rank))


def lemmas(lib, nv, d):
    from pyvc.core import mk_snoc
    REF = nv.REF
    first_of, classtest, OREF, SR, SCLS = d["first_of"], d["classtest"], d["OREF"], d["SR"], d["SCLS"]
    E = z3.Empty(SR.z3())
    cs, ex = z3.Const("cs_l", SCLS.z3()), z3.Const("ex_l", z3.BoolSort())
    x, y, r = z3.Const("x_l", REF.z3()), z3.Const("y_l", REF.z3()), z3.Const("r_l", SR.z3())
    q = z3.Const("q_l", SR.z3())
    rhs = lambda s_: z3.If(OREF.is_none(first_of.t(cs, ex, s_)), first_of.t(cs, ex, q), first_of.t(cs, ex, s_))

    # first_of(s ++ q) by induction on s (cons form)
    def base(bank):
        return [], first_of.t(cs, ex, z3.Concat(E, q)) == rhs(E)

    def step(bank):
        hyp = first_of.t(cs, ex, z3.Concat(r, q)) == rhs(r)
        return [hyp], first_of.t(cs, ex, mk_cons(x, z3.Concat(r, q))) == rhs(mk_cons(x, r))

    # unfolding of membership / index along a chain: from the definitions of lchain, seq_mem, seq_index at the terms involved (no induction)
    lchain, ochain, lparent, mem, idx = d["lchain"], d["ochain"], d["lparent"], d["mem"], d["idx"]
    mem_empty, mem_cons, idx_empty, idx_cons, mem_chain, idx_chain = d["defs"]
    n = z3.Const("n_l", REF.z3())
    p = OREF.val(lparent(n))
    defs = [lchain.t(n) == ochain(lparent(n)), mem.t(E, x) == mem_empty(x), mem.t(mk_cons(p, lchain.t(p)), x) == mem_cons(p, lchain.t(p), x),
            idx.t(E, x) == idx_empty(x), idx.t(mk_cons(p, lchain.t(p)), x) == idx_cons(p, lchain.t(p), x)]

    def mem_unfold(bank):
        return defs, mem.t(lchain.t(n), x) == mem_chain(n, x)

    def idx_unfold(bank):
        return defs, idx.t(lchain.t(n), x) == idx_chain(n, x)

    # along a chain (induction on its length, i.e. on the rank of the start node: the hypothesis is the statement for the parent)
    rank = d["rank"]
    s0, n0 = z3.Const("s_ch", REF.z3()), z3.Const("n_ch", REF.z3())
    ps = OREF.val(lparent(s0))
    closed = lambda a: z3.Implies(z3.And(mem.t(lchain.t(a), n0), z3.Not(OREF.is_none(lparent(n0)))), mem.t(lchain.t(a), OREF.val(lparent(n0))))
    below = lambda a: z3.Implies(mem.t(lchain.t(a), n0), rank(n0) < rank(a))
    mentions = [lchain.t(OREF.val(lparent(n0))) == lchain.t(OREF.val(lparent(n0)))]
    chain_lemmas = [
        Lemma("chain-closed-under-parent", [("root", lambda bank: ([OREF.is_none(lparent(s0))], closed(s0))),
                                            ("step", lambda bank: ([z3.Not(OREF.is_none(lparent(s0))), closed(ps)] + mentions, closed(s0)))], ["C18"], uses=["seq_mem-chain"],
              note="an ancestor's parent is an ancestor"),
        Lemma("chain-ranks-below", [("root", lambda bank: ([OREF.is_none(lparent(s0))], below(s0))),
                                    ("step", lambda bank: ([z3.Not(OREF.is_none(lparent(s0))), below(ps)], below(s0)))], ["C18"], uses=["seq_mem-chain"],
              note="every ancestor has a smaller rank (acyclicity, along the chain)")]
    return chain_lemmas + [Lemma("first_of_class-concat", [("base", base), ("step", step)], ["C18"]),
            Lemma("seq_mem-chain", [("unfold", mem_unfold)], ["C18"]), Lemma("seq_index-chain", [("unfold", idx_unfold)], ["C18"])]
