"""C16 (proved part): the class-level option / dialect slots of DataClassSerializeMixin are set for
exactly the duration of one as_dict / as_obj call and reset on both the normal and the exceptional exit.

Ghost view: OPTS (value of __serialization_options), DIALECT (value of __mashumaro_dialect).
idle == (OPTS == {} and DIALECT is None).  The callee (_serialize/_deserialize: mashumaro-generated
code plus user hooks) is an assumed contract: may raise anything, does not touch the two slots."""
from __future__ import annotations

import z3

from pyvc.contract import Contract, Registry
from pyvc.specfn import SpecLib
from pyvc.symex import World
from pyvc.values import NONE, V, VBool, VBound, VCls, VOpt, VPy, VU, opt_of, usort

M = "pyoak.serialize"
C = "DataClassSerializeMixin"


def build():
    reg = Registry()
    world = World(reg)
    lib = SpecLib()
    OPTS = usort("Opts")          # abstract value of an options dict
    OARG = usort("OptsArg")       # a dict passed by the caller
    DIA = usort("Dialect")
    OBJ = usort("SerObj")         # any DataClassSerializeMixin instance
    PAYLOAD = usort("Payload")    # dict / bytes / str payloads
    EMPTY = OPTS.fresh("EMPTY_OPTS")
    world.consts["EMPTY_OPTS"] = EMPTY
    upd = z3.Function("opts_update", OPTS.z3(), OARG.z3(), OPTS.z3())
    world.usort_class = {"SerObj": C}
    world.class_parents[C] = []
    world.class_module[C] = M
    for d in ("OrjsonDialect", "MessagePackDialect"):
        world.consts[d] = opt_of(DIA).some(DIA.fresh(d))
    world.axioms.append(z3.Distinct(*[world.consts[d].term for d in ("OrjsonDialect", "MessagePackDialect")]))
    world.extern_calls = {("orjson", "dumps"): ("Payload", "Exception"), ("orjson", "loads"): ("Payload", "Exception"),
                          ("msgpack", "packb"): ("Payload", "Exception"), ("msgpack", "unpackb"): ("Payload", "Exception"),
                          ("yaml", "dump"): ("Payload", "Exception"), ("yaml", "load"): ("Payload", "Exception")}
    for mod in ("orjson", "msgpack", "yaml"):
        world.name_hooks.append(lambda m, n, mod=mod: __import__("pyvc.values", fromlist=["VModule"]).VModule(mod) if n == mod else None)
    world.consts["EMPTY_DICT"] = PAYLOAD.fresh("EMPTY_DICT")
    world.consts["YamlDumper"] = VPy("YamlDumper")
    world.consts["YamlLoader"] = VPy("YamlLoader")

    def given(o: V) -> V:
        assert isinstance(o, VOpt)
        return OPTS.wrap(z3.If(o.sort.is_none(o.term), EMPTY.term, upd(EMPTY.term, o.sort.val(o.term))))

    def idle(o: V, d: V) -> V:
        return VBool(z3.And(o.term == EMPTY.term, d.sort.is_none(d.term)))

    world.spec_fns.update({"given": given, "idle": idle})

    # ---- hooks: the two name-mangled class attributes -------------------------------------------
    def attr(m, obj, name):
        if isinstance(obj, VCls) and obj.name == C:
            if name == "__serialization_options":
                return m.global_syms["OPTS"]
            if name == "__mashumaro_dialect":
                return m.global_syms["DIALECT"]
        if isinstance(obj, VU) and obj.sort == OPTS and name == "update":
            return VBound(obj, "update")
        if isinstance(obj, VU) and obj.sort == PAYLOAD and name == "decode":
            return VBound(obj, "decode")
        if isinstance(obj, VPy) and obj.obj == "cls" and name in ("_deserialize", "as_obj"):
            return VPy(("contract", f"{M}:{C}.{name}"))
        if isinstance(obj, VModule_) and obj.name in ("orjson",) and name == "OPT_INDENT_2":
            return VPy("OPT_INDENT_2")
        return None

    from pyvc.values import VModule as VModule_
    decode_ref = [None]

    def call(m, func, args, kwargs, node):
        if isinstance(func, VBound) and isinstance(func.recv, VU) and func.recv.sort == OPTS and func.name == "update":
            # in-place update of the class-level dict: the slot now holds the updated value
            if func.recv.term.get_id() != m.global_syms["OPTS"].term.get_id():
                raise __import__("pyvc.values", fromlist=["EngineError"]).EngineError("update of a stale options value")
            m.global_syms["OPTS"] = OPTS.wrap(upd(func.recv.term, OARG.coerce(args[0]).term))
            return NONE
        if isinstance(func, VBound) and isinstance(func.recv, VU) and func.recv.sort == PAYLOAD and func.name == "decode":
            return PAYLOAD.wrap(decode_ref[0](func.recv.term))
        if isinstance(func, VPy) and func.obj == ("setattr",):
            obj, name, val = args
            if isinstance(obj, VCls) and obj.name == C and isinstance(name, VPy):
                if name.obj == "__serialization_options":
                    m.global_syms["OPTS"] = OPTS.coerce(val)
                    return NONE
                if name.obj == "__mashumaro_dialect":
                    m.global_syms["DIALECT"] = opt_of(DIA).coerce(val)
                    return NONE
        if isinstance(func, VPy) and isinstance(func.obj, tuple) and func.obj[0] == "contract" and func.obj[1].endswith("._deserialize") and len(args) == 1:
            return m.call_contract(func.obj[1], [VPy("cls")] + args, kwargs)
        if isinstance(func, VPy) and isinstance(func.obj, tuple) and func.obj[0] == "contract" and func.obj[1].endswith(".as_obj") and args and not isinstance(args[0], VPy):
            return m.call_contract(func.obj[1], [VPy("cls")] + args, kwargs)
        return NotImplemented

    world.attr_hooks.append(attr)
    world.call_hooks.append(call)
    # `or {}` in from_yaml
    world.truth_hooks.append(lambda m, v: payload_truthy_ref[0](v.term) if isinstance(v, VU) and v.sort == PAYLOAD else None)
    payload_truthy_ref = [None]

    # ---- data flow: what is serialised / parsed is a deterministic function of the object (or payload) and the two slots; codecs are functions of their input
    ODIA = opt_of(DIA)
    ser_result = z3.Function("serialize_result", OBJ.z3(), OPTS.z3(), ODIA.z3(), PAYLOAD.z3())
    deser_result = z3.Function("deserialize_result", PAYLOAD.z3(), OPTS.z3(), ODIA.z3(), OBJ.z3())
    codec = {n: z3.Function(n, PAYLOAD.z3(), PAYLOAD.z3()) for n in ("orjson_dumps", "orjson_dumps_indented", "orjson_loads", "msgpack_packb", "msgpack_unpackb", "yaml_dump", "yaml_load")}
    payload_truthy = z3.Function("payload_truthy", PAYLOAD.z3(), z3.BoolSort())
    decode = z3.Function("bytes_decode_utf8", PAYLOAD.z3(), PAYLOAD.z3())
    payload_truthy_ref[0], decode_ref[0] = payload_truthy, decode
    sfn = world.spec_fns
    sfn.update({"serialize_result": lambda o, op, d: PAYLOAD.wrap(ser_result(o.term, op.term, ODIA.coerce(d).term)),
                "deserialize_result": lambda p_, op, d: OBJ.wrap(deser_result(p_.term, op.term, ODIA.coerce(d).term)),
                "payload_truthy": lambda p_: VBool(payload_truthy(p_.term)), "bytes_decode_utf8": lambda p_: PAYLOAD.wrap(decode(p_.term)),
                **{n: (lambda f: lambda p_: PAYLOAD.wrap(f(p_.term)))(f) for n, f in codec.items()}})

    def one(m, a, kw, fname):
        return PAYLOAD.wrap(codec[fname](PAYLOAD.coerce(a[0]).term))

    def orjson_dumps(m, a, kw):
        if "option" in kw:
            if not (isinstance(kw["option"], VPy) and kw["option"].obj == "OPT_INDENT_2"):
                raise __import__("pyvc.values", fromlist=["EngineError"]).EngineError("orjson.dumps with another option")
            return one(m, a, kw, "orjson_dumps_indented")
        return one(m, a, kw, "orjson_dumps")

    def yaml_dump(m, a, kw):
        if not (isinstance(kw.get("Dumper"), VPy) and kw["Dumper"].obj == "YamlDumper"):
            raise __import__("pyvc.values", fromlist=["EngineError"]).EngineError("yaml.dump without the C dumper alias")
        return one(m, a, kw, "yaml_dump")

    def yaml_load(m, a, kw):
        if not (isinstance(kw.get("Loader"), VPy) and kw["Loader"].obj == "YamlLoader"):
            raise __import__("pyvc.values", fromlist=["EngineError"]).EngineError("yaml.load without the safe loader alias")
        return one(m, a, kw, "yaml_load")

    def flagged(fname, flag, want):
        # the codec function named in the contract is the one with this flag value (bin type on, raw off); any other call is a different function
        def f(m, a, kw):
            v = kw.get(flag)
            if not (isinstance(v, VBool) and z3.is_true(z3.simplify(v.term == want))):
                raise __import__("pyvc.values", fromlist=["EngineError"]).EngineError(f"{fname} without {flag}={want}")
            return one(m, a, kw, fname)
        return f

    world.extern_fns = {("orjson", "dumps"): orjson_dumps, ("orjson", "loads"): lambda m, a, kw: one(m, a, kw, "orjson_loads"),
                        ("msgpack", "packb"): flagged("msgpack_packb", "use_bin_type", True), ("msgpack", "unpackb"): flagged("msgpack_unpackb", "raw", False),
                        ("yaml", "dump"): yaml_dump, ("yaml", "load"): yaml_load}
    G = {"OPTS": "Opts", "DIALECT": "Opt[Dialect]"}
    P = ["C16", "C04"]       # C04: the front-ends route the payload through the matching codec and dialect with the given options
    A = reg.add
    A(Contract(f"{M}:{C}._serialize", params={"self": "SerObj"}, returns="Payload", globals=G, props=P, trusted=True,
               raises=[("Exception", "*")], ensures=["result == serialize_result(self, OPTS, DIALECT)"],
               trusted_reason="mashumaro-generated to_dict + user hooks: may raise anything; assumed not to touch the option/dialect slots"))
    A(Contract(f"{M}:{C}._deserialize", params={"cls": "py:cls", "value": "Payload"}, returns="SerObj", globals=G, props=P, trusted=True,
               raises=[("Exception", "*")], ensures=["result == deserialize_result(value, OPTS, DIALECT)"],
               trusted_reason="mashumaro-generated from_dict + user hooks: may raise anything; assumed not to touch the option/dialect slots"))
    common = dict(globals=G, props=P, requires=["idle(OPTS, DIALECT)"],
                  exc_ensures=["idle(OPTS, DIALECT)"], may_raise=["Exception"],
                  locals={".__serialization_options": "const:EMPTY_OPTS"})
    A(Contract(f"{M}:{C}.as_dict", params={"self": "SerObj", "mashumaro_dialect": "Opt[Dialect]", "serialization_options": "Opt[OptsArg]"},
               returns="Payload", ensures=["idle(OPTS, DIALECT)", "result == serialize_result(self, given(serialization_options), mashumaro_dialect)"],
               call_requires={f"{M}:{C}._serialize": ["OPTS == given(serialization_options)", "DIALECT == mashumaro_dialect"]}, **common))
    A(Contract(f"{M}:{C}.as_obj", params={"cls": "py:cls", "value": "Payload", "mashumaro_dialect": "Opt[Dialect]", "serialization_options": "Opt[OptsArg]"},
               returns="SerObj", ensures=["idle(OPTS, DIALECT)", "result == deserialize_result(value, given(serialization_options), mashumaro_dialect)"],
               call_requires={f"{M}:{C}._deserialize": ["OPTS == given(serialization_options)", "DIALECT == mashumaro_dialect"]}, **common))
    # the six format front-ends: they hand the options to as_dict / as_obj unchanged, with the format's dialect
    def front(name, params, callee, dialect, value):
        A(Contract(f"{M}:{C}.{name}", params=params, returns="Payload" if name.startswith("to_") else "SerObj",
                   globals=G, props=P, requires=["idle(OPTS, DIALECT)"], ensures=["idle(OPTS, DIALECT)", f"result == {value}"],
                   exc_ensures=["idle(OPTS, DIALECT)"], may_raise=["Exception"],
                   call_requires={f"{M}:{C}.{callee}": [f"arg_mashumaro_dialect == {dialect}", "arg_serialization_options == serialization_options"]}))
    so = {"serialization_options": "Opt[OptsArg]"}
    front("to_jsonb", {"self": "SerObj", "indent": "bool", **so}, "as_dict", "OrjsonDialect",
          "(orjson_dumps_indented(serialize_result(self, given(serialization_options), OrjsonDialect)) if indent else orjson_dumps(serialize_result(self, given(serialization_options), OrjsonDialect)))")
    front("to_msgpck", {"self": "SerObj", **so}, "as_dict", "MessagePackDialect", "msgpack_packb(serialize_result(self, given(serialization_options), MessagePackDialect))")
    front("to_yaml", {"self": "SerObj", "mashumaro_dialect": "Opt[Dialect]", **so}, "as_dict", "mashumaro_dialect", "yaml_dump(serialize_result(self, given(serialization_options), mashumaro_dialect))")
    front("from_json", {"cls": "py:cls", "value": "Payload", **so}, "as_obj", "OrjsonDialect", "deserialize_result(orjson_loads(value), given(serialization_options), OrjsonDialect)")
    front("from_msgpck", {"cls": "py:cls", "value": "Payload", **so}, "as_obj", "MessagePackDialect", "deserialize_result(msgpack_unpackb(value), given(serialization_options), MessagePackDialect)")
    front("from_yaml", {"cls": "py:cls", "value": "Payload", "mashumaro_dialect": "Opt[Dialect]", **so}, "as_obj", "mashumaro_dialect",
          "(deserialize_result(yaml_load(value), given(serialization_options), mashumaro_dialect) if payload_truthy(yaml_load(value)) else deserialize_result(EMPTY_DICT, given(serialization_options), mashumaro_dialect))")
    A(Contract(f"{M}:{C}.to_json", params={"self": "SerObj", "indent": "bool", **so}, returns="Payload", globals=G, props=P,
               requires=["idle(OPTS, DIALECT)"], exc_ensures=["idle(OPTS, DIALECT)"], may_raise=["Exception"],
               ensures=["idle(OPTS, DIALECT)", "result == bytes_decode_utf8(orjson_dumps_indented(serialize_result(self, given(serialization_options), OrjsonDialect)) if indent else orjson_dumps(serialize_result(self, given(serialization_options), OrjsonDialect)))"]))
    # the four getters return the slots themselves
    A(Contract(f"{M}:{C}._get_serialization_options", params={"self": "SerObj"}, returns="Opts", globals=G, props=P, ensures=["result == OPTS"]))
    A(Contract(f"{M}:{C}._get_deserialization_options", params={"cls": "py:cls"}, returns="Opts", globals=G, props=P, ensures=["result == OPTS"]))
    A(Contract(f"{M}:{C}._get_serialization_mashumaro_dialect", params={"self": "SerObj"}, returns="Opt[Dialect]", globals=G, props=P, ensures=["result == DIALECT"]))
    A(Contract(f"{M}:{C}._get_deserialization_mashumaro_dialect", params={"cls": "py:cls"}, returns="Opt[Dialect]", globals=G, props=P, ensures=["result == DIALECT"]))
    return world, lib, reg, []
