"""C16 (proved part): the class-level option / dialect slots of DataClassSerializeMixin are set for
exactly the duration of one as_dict / as_obj call and reset on both the normal and the exceptional exit.

Ghost view: OPTS (value of __serialization_options), DIALECT (value of __mashumaro_dialect).
idle == (OPTS == {} and DIALECT is None).  The callee (_serialize/_deserialize: mashumaro-generated
code plus user hooks) is an assumed contract: may raise anything, does not touch the two slots."""
from __future__ import annotations

import z3

from pyvc.contract import Contract, Registry
from pyvc.specfn import SpecLib
from pyvc.symex import World
from pyvc.values import NONE, V, VBool, VBound, VCls, VOpt, VPy, VU, opt_of, usort

M = "pyoak.serialize"
C = "DataClassSerializeMixin"


def build():
    reg = Registry()
    world = World(reg)
    lib = SpecLib()
    OPTS = usort("Opts")          # abstract value of an options dict
    OARG = usort("OptsArg")       # a dict passed by the caller
    DIA = usort("Dialect")
    OBJ = usort("SerObj")         # any DataClassSerializeMixin instance
    PAYLOAD = usort("Payload")    # dict / bytes / str payloads
    EMPTY = OPTS.fresh("EMPTY_OPTS")
    world.consts["EMPTY_OPTS"] = EMPTY
    upd = z3.Function("opts_update", OPTS.z3(), OARG.z3(), OPTS.z3())
    world.usort_class = {"SerObj": C}
    world.class_parents[C] = []
    world.class_module[C] = M
    for d in ("OrjsonDialect", "MessagePackDialect"):
        world.consts[d] = opt_of(DIA).some(DIA.fresh(d))
    world.axioms.append(z3.Distinct(*[world.consts[d].term for d in ("OrjsonDialect", "MessagePackDialect")]))
    world.extern_calls = {("orjson", "dumps"): ("Payload", "Exception"), ("orjson", "loads"): ("Payload", "Exception"),
                          ("msgpack", "packb"): ("Payload", "Exception"), ("msgpack", "unpackb"): ("Payload", "Exception"),
                          ("yaml", "dump"): ("Payload", "Exception"), ("yaml", "load"): ("Payload", "Exception")}
    for mod in ("orjson", "msgpack", "yaml"):
        world.name_hooks.append(lambda m, n, mod=mod: __import__("pyvc.values", fromlist=["VModule"]).VModule(mod) if n == mod else None)
    world.consts["EMPTY_DICT"] = PAYLOAD.fresh("EMPTY_DICT")
    world.consts["YamlDumper"] = VPy("YamlDumper")
    world.consts["YamlLoader"] = VPy("YamlLoader")

    def given(o: V) -> V:
        assert isinstance(o, VOpt)
        return OPTS.wrap(z3.If(o.sort.is_none(o.term), EMPTY.term, upd(EMPTY.term, o.sort.val(o.term))))

    def idle(o: V, d: V) -> V:
        return VBool(z3.And(o.term == EMPTY.term, d.sort.is_none(d.term)))

    world.spec_fns.update({"given": given, "idle": idle})

    # ---- hooks: the two name-mangled class attributes -------------------------------------------
    def attr(m, obj, name):
        if isinstance(obj, VCls) and obj.name == C:
            if name == "__serialization_options":
                return m.global_syms["OPTS"]
            if name == "__mashumaro_dialect":
                return m.global_syms["DIALECT"]
        if isinstance(obj, VU) and obj.sort == OPTS and name == "update":
            return VBound(obj, "update")
        if isinstance(obj, VU) and obj.sort == PAYLOAD and name == "decode":
            return VBound(obj, "decode")
        if isinstance(obj, VPy) and obj.obj == "cls" and name in ("_deserialize", "as_obj"):
            return VPy(("contract", f"{M}:{C}.{name}"))
        if isinstance(obj, VModule_) and obj.name in ("orjson",) and name == "OPT_INDENT_2":
            return VPy("OPT_INDENT_2")
        return None

    from pyvc.values import VModule as VModule_

    def call(m, func, args, kwargs, node):
        if isinstance(func, VBound) and isinstance(func.recv, VU) and func.recv.sort == OPTS and func.name == "update":
            # in-place update of the class-level dict: the slot now holds the updated value
            if func.recv.term.get_id() != m.global_syms["OPTS"].term.get_id():
                raise __import__("pyvc.values", fromlist=["EngineError"]).EngineError("update of a stale options value")
            m.global_syms["OPTS"] = OPTS.wrap(upd(func.recv.term, OARG.coerce(args[0]).term))
            return NONE
        if isinstance(func, VBound) and isinstance(func.recv, VU) and func.recv.sort == PAYLOAD and func.name == "decode":
            return PAYLOAD.fresh("decoded")
        if isinstance(func, VPy) and func.obj == ("setattr",):
            obj, name, val = args
            if isinstance(obj, VCls) and obj.name == C and isinstance(name, VPy):
                if name.obj == "__serialization_options":
                    m.global_syms["OPTS"] = OPTS.coerce(val)
                    return NONE
                if name.obj == "__mashumaro_dialect":
                    m.global_syms["DIALECT"] = opt_of(DIA).coerce(val)
                    return NONE
        if isinstance(func, VPy) and isinstance(func.obj, tuple) and func.obj[0] == "contract" and func.obj[1].endswith("._deserialize") and len(args) == 1:
            return m.call_contract(func.obj[1], [VPy("cls")] + args, kwargs)
        if isinstance(func, VPy) and isinstance(func.obj, tuple) and func.obj[0] == "contract" and func.obj[1].endswith(".as_obj") and args and not isinstance(args[0], VPy):
            return m.call_contract(func.obj[1], [VPy("cls")] + args, kwargs)
        return NotImplemented

    world.attr_hooks.append(attr)
    world.call_hooks.append(call)
    # `or {}` in from_yaml
    world.truth_hooks.append(lambda m, v: z3.Bool("payload_truthy_" + str(v.term)) if isinstance(v, VU) and v.sort == PAYLOAD else None)

    G = {"OPTS": "Opts", "DIALECT": "Opt[Dialect]"}
    P = ["C16"]
    A = reg.add
    A(Contract(f"{M}:{C}._serialize", params={"self": "SerObj"}, returns="Payload", globals=G, props=P, trusted=True,
               raises=[("Exception", "*")],
               trusted_reason="mashumaro-generated to_dict + user hooks: may raise anything; assumed not to touch the option/dialect slots"))
    A(Contract(f"{M}:{C}._deserialize", params={"cls": "py:cls", "value": "Payload"}, returns="SerObj", globals=G, props=P, trusted=True,
               raises=[("Exception", "*")],
               trusted_reason="mashumaro-generated from_dict + user hooks: may raise anything; assumed not to touch the option/dialect slots"))
    common = dict(globals=G, props=P, requires=["idle(OPTS, DIALECT)"], ensures=["idle(OPTS, DIALECT)"],
                  exc_ensures=["idle(OPTS, DIALECT)"], may_raise=["Exception"],
                  locals={".__serialization_options": "const:EMPTY_OPTS"})
    A(Contract(f"{M}:{C}.as_dict", params={"self": "SerObj", "mashumaro_dialect": "Opt[Dialect]", "serialization_options": "Opt[OptsArg]"},
               returns="Payload",
               call_requires={f"{M}:{C}._serialize": ["OPTS == given(serialization_options)", "DIALECT == mashumaro_dialect"]}, **common))
    A(Contract(f"{M}:{C}.as_obj", params={"cls": "py:cls", "value": "Payload", "mashumaro_dialect": "Opt[Dialect]", "serialization_options": "Opt[OptsArg]"},
               returns="SerObj",
               call_requires={f"{M}:{C}._deserialize": ["OPTS == given(serialization_options)", "DIALECT == mashumaro_dialect"]}, **common))
    # the six format front-ends: they hand the options to as_dict / as_obj unchanged, with the format's dialect
    def front(name, params, callee, dialect):
        A(Contract(f"{M}:{C}.{name}", params=params, returns="Payload" if name.startswith("to_") else "SerObj",
                   globals=G, props=P, requires=["idle(OPTS, DIALECT)"], ensures=["idle(OPTS, DIALECT)"],
                   exc_ensures=["idle(OPTS, DIALECT)"], may_raise=["Exception"],
                   call_requires={f"{M}:{C}.{callee}": [f"arg_mashumaro_dialect == {dialect}", "arg_serialization_options == serialization_options"]}))
    so = {"serialization_options": "Opt[OptsArg]"}
    front("to_jsonb", {"self": "SerObj", "indent": "bool", **so}, "as_dict", "OrjsonDialect")
    front("to_msgpck", {"self": "SerObj", **so}, "as_dict", "MessagePackDialect")
    front("to_yaml", {"self": "SerObj", "mashumaro_dialect": "Opt[Dialect]", **so}, "as_dict", "mashumaro_dialect")
    front("from_json", {"cls": "py:cls", "value": "Payload", **so}, "as_obj", "OrjsonDialect")
    front("from_msgpck", {"cls": "py:cls", "value": "Payload", **so}, "as_obj", "MessagePackDialect")
    front("from_yaml", {"cls": "py:cls", "value": "Payload", "mashumaro_dialect": "Opt[Dialect]", **so}, "as_obj", "mashumaro_dialect")
    A(Contract(f"{M}:{C}.to_json", params={"self": "SerObj", "indent": "bool", **so}, returns="Payload", globals=G, props=P,
               requires=["idle(OPTS, DIALECT)"], ensures=["idle(OPTS, DIALECT)"], exc_ensures=["idle(OPTS, DIALECT)"], may_raise=["Exception"]))
    # the four getters return the slots themselves
    A(Contract(f"{M}:{C}._get_serialization_options", params={"self": "SerObj"}, returns="Opts", globals=G, props=P, ensures=["result == OPTS"]))
    A(Contract(f"{M}:{C}._get_deserialization_options", params={"cls": "py:cls"}, returns="Opts", globals=G, props=P, ensures=["result == OPTS"]))
    A(Contract(f"{M}:{C}._get_serialization_mashumaro_dialect", params={"self": "SerObj"}, returns="Opt[Dialect]", globals=G, props=P, ensures=["result == DIALECT"]))
    A(Contract(f"{M}:{C}._get_deserialization_mashumaro_dialect", params={"cls": "py:cls"}, returns="Opt[Dialect]", globals=G, props=P, ensures=["result == DIALECT"]))
    return world, lib, reg, []
