"""C04 (singleton clause): NoSource / NoPosition / NoOrigin are process-wide singletons and serialize to the empty payload.

`__new__` keeps one instance per class in the class variable `_instance` (ghost global INSTANCE: Opt[Obj]): the first call creates it, every call
returns it, and once set it never changes.  `_serialize` returns the empty dict; contracts.origin_deser proves that the three `_deserialize`
methods map the empty payload (and the No* type tag) back to NO_SOURCE / NO_POSITION / NO_ORIGIN -- which are these instances, created at import time."""
from __future__ import annotations

import z3

from pyvc.contract import Contract, Registry
from pyvc.specfn import SpecLib
from pyvc.symex import World
from pyvc.values import NONE, EngineError, VBound, VCls, VOpt, VPy, VU, fresh_name, opt_of, usort

OM = "pyoak.origin"


def build():
    reg = Registry()
    world = World(reg)
    lib = SpecLib()
    OBJ, PAY = usort("SingletonObj"), usort("Payload")
    OOBJ = opt_of(OBJ)
    EMPTY = PAY.fresh("EMPTY_DICT")
    world.consts["EMPTY_DICT"] = EMPTY
    world.usort_class = {}

    def attr(m, obj, name):
        if isinstance(obj, VPy) and obj.obj == "cls" and name == "_instance":
            return m.global_syms["INSTANCE"]
        if isinstance(obj, VCls) and obj.name == "object" and name == "__new__":
            return VPy(("object_new",))
        return None

    def call(m, func, a, kw, nd):
        if isinstance(func, VPy) and func.obj == ("setattr",) and isinstance(a[0], VPy) and a[0].obj == "cls" and a[1].obj == "_instance":
            m.global_syms["INSTANCE"] = OOBJ.coerce(a[2])
            return NONE
        if isinstance(func, VPy) and func.obj == ("object_new",):
            return OBJ.fresh("new_instance")
        return NotImplemented

    world.attr_hooks.insert(0, attr)
    world.call_hooks.insert(0, call)
    world.name_hooks.append(lambda m, n: VCls("object") if n == "object" else None)
    G = {"INSTANCE": "Opt[SingletonObj]"}
    for cls_ in ("NoSource", "NoPosition", "NoOrigin"):
        reg.add(Contract(f"{OM}:{cls_}.__new__", params={"cls": "py:cls", "args": "py:args", "kwargs": "py:kwargs"}, returns="SingletonObj", globals=G, modifies=["INSTANCE"],
                         props=["C04"],
                         ensures=["INSTANCE is not None", "result == INSTANCE", "implies(old(INSTANCE) is not None, INSTANCE == old(INSTANCE))"],
                         note="one instance per class: created on the first call, returned by every call, never replaced"))
        reg.add(Contract(f"{OM}:{cls_}._serialize", params={"self": "SingletonObj"}, returns="Payload", props=["C04"], ensures=["result == EMPTY_DICT"],
                         note="the singleton serializes to the empty payload, which _deserialize maps back to the singleton (contracts.origin_deser)"))
    reg.add(Contract(f"{OM}:EntireSourcePosition.__new__", params={"cls": "py:cls"}, returns="SingletonObj", globals=G, modifies=["INSTANCE"], props=["C04"],
                     ensures=["INSTANCE is not None", "result == INSTANCE", "implies(old(INSTANCE) is not None, INSTANCE == old(INSTANCE))"],
                     note="the `whole source` position is one shared object as well"))
    world.trusted_notes.append("`cls._instance` is read and written on the class the constructor is called for (no subclass of the No* classes exists in pyoak); object.__new__ returns a new object")
    return world, lib, reg, []
